//! C09 — action interpreter for `fuel_core::database::Database<D>` (height-linked commits, reported
//! height, reopen, rollback) over the five database kinds, in memory and on a temporary RocksDB.
use crate::{
    classify,
    db_config,
};
use fuel_core::{
    database::{
        Database,
        database_description::{
            DatabaseDescription,
            DatabaseHeight,
            compression::CompressionDatabase,
            gas_price::GasPriceDatabase,
            off_chain::OffChain,
            on_chain::OnChain,
            relayer::Relayer,
        },
        metadata::MetadataTable,
    },
    state::{
        historical_rocksdb::StateRewindPolicy,
        in_memory::memory_store::MemoryStore,
    },
};
use fuel_core_importer::ports::ImporterDatabase;
use fuel_core_storage::{
    Error as StorageError,
    Result as StorageResult,
    StorageInspect,
    kv_store::{
        KeyValueInspect,
        StorageColumn,
        WriteOperation,
    },
    transactional::{
        Changes,
        HistoricalView,
        Modifiable,
        StorageChanges,
    },
};
use h_common::*;
use serde_json::Value;
use std::sync::Arc;
use tempfile::TempDir;

const PAY_KEY: &[u8] = b"verif-payload";

/// Where a database kind keeps the block height inside a change set.
#[derive(Clone, Copy)]
struct HeightTable {
    /// substring of the column name; empty = this build has no height-carrying table
    column: &'static str,
    /// height is the VALUE (off-chain FuelBlockIdsToHeights: BlockId -> BlockHeight), else the KEY
    in_value: bool,
    /// width of the big-endian height encoding (BlockHeight 4, DaBlockHeight 8)
    width: usize,
    /// column for the payload marker (any column other than the height table / metadata)
    pay_column: &'static str,
}

/// The database's commit path that takes a list of change sets (only the on-chain database has one:
/// `ImporterDatabase::commit_changes`, used by the block importer).
type ListCommit<D> = fn(&mut Database<D>, StorageChanges) -> StorageResult<()>;

pub trait Node {
    /// `cf`: "none", or how the batch is made unacceptable for the storage backend ("meta" / "list")
    fn commit(&mut self, s: &[i64], cf: &str) -> String;
    fn reopen(&mut self);
    fn rollback(&mut self) -> String;
    fn project(&self) -> (i64, i64, i64);
}

struct N<D: DatabaseDescription> {
    db: Option<Database<D>>,
    mem: Option<Arc<MemoryStore<D>>>,
    dir: Option<TempDir>,
    table: HeightTable,
    hcol: Option<D::Column>,
    pcol: D::Column,
    list_commit: Option<ListCommit<D>>,
}

fn find_col<D: DatabaseDescription>(name: &str) -> D::Column {
    let all: Vec<D::Column> = enum_iterator::all::<D::Column>().collect();
    // exact match first, then substring
    if let Some(c) = all.iter().find(|c| c.name() == name) {
        return *c;
    }
    if let Some(c) = all.iter().find(|c| c.name().contains(name)) {
        return *c;
    }
    die(&format!(
        "column {name} not found in {}: {:?}",
        D::name(),
        all.iter().map(|c| c.name()).collect::<Vec<_>>()
    ))
}

impl<D> N<D>
where
    D: DatabaseDescription,
    Database<D>: Modifiable + StorageInspect<MetadataTable<D>, Error = StorageError>,
{
    fn new(backend: &str, table: HeightTable, list_commit: Option<ListCommit<D>>) -> Self {
        let hcol = if table.column.is_empty() { None } else { Some(find_col::<D>(table.column)) };
        let pcol = find_col::<D>(table.pay_column);
        let mut n = N { db: None, mem: None, dir: None, table, hcol, pcol, list_commit };
        match backend {
            "mem" => {
                let store = Arc::new(MemoryStore::<D>::default());
                n.mem = Some(store.clone());
                n.db = Some(Database::<D>::new(store));
            }
            "rocks" => {
                let dir = TempDir::new().unwrap_or_else(|e| die(&format!("tempdir: {e}")));
                n.db = Some(
                    Database::<D>::open_rocksdb(dir.path(), StateRewindPolicy::RewindFullRange, db_config())
                        .unwrap_or_else(|e| die(&format!("open_rocksdb: {e}"))),
                );
                n.dir = Some(dir);
            }
            b => die(&format!("unknown backend {b}")),
        }
        n
    }

    fn db(&self) -> &Database<D> {
        self.db.as_ref().unwrap_or_else(|| die("no database"))
    }

    fn payload(&self) -> i64 {
        match KeyValueInspect::get(self.db(), PAY_KEY, self.pcol) {
            Ok(Some(v)) => v.first().map(|b| *b as i64).unwrap_or(-3),
            Ok(None) => -1,
            Err(_) => -2,
        }
    }
}

impl<D> Node for N<D>
where
    D: DatabaseDescription,
    Database<D>: Modifiable + StorageInspect<MetadataTable<D>, Error = StorageError>,
{
    fn commit(&mut self, s: &[i64], cf: &str) -> String {
        let mut changes = Changes::default();
        if let Some(hcol) = self.hcol {
            let col = changes.entry(hcol.id()).or_default();
            for (i, h) in s.iter().enumerate() {
                let hb: Vec<u8> = if self.table.width == 8 {
                    (*h as u64).to_be_bytes().to_vec()
                } else {
                    (*h as u32).to_be_bytes().to_vec()
                };
                let (k, v) = if self.table.in_value {
                    (vec![i as u8 + 1; 32], hb)
                } else {
                    (hb, vec![0xEE, i as u8])
                };
                col.insert(k.into(), WriteOperation::Insert(v.into()));
            }
        } else if !s.is_empty() {
            die("this database kind has no height-carrying table in this build");
        }
        let new_pay = if self.payload() == 1 { 0u8 } else { 1u8 };
        let pay_op = WriteOperation::Insert(vec![new_pay].into());
        changes.entry(self.pcol.id()).or_default().insert(PAY_KEY.to_vec().into(), pay_op.clone());
        if cf != "none" && s.is_empty() {
            die("a backend-rejected commit needs a height (the spec never asks for one without)");
        }
        let list_commit = self.list_commit;
        let pcol = self.pcol.id();
        let mcol = D::metadata_column().id();
        let db = self.db.as_mut().unwrap_or_else(|| die("no database"));
        let r = match cf {
            "none" => guarded(|| db.commit_changes(changes)),
            "meta" => {
                // the change set writes the metadata entry (key `()` = empty) itself: it collides with the
                // metadata update the commit appends as a second change set
                changes.entry(mcol).or_default().insert(Vec::new().into(), WriteOperation::Insert(vec![0xFF].into()));
                guarded(|| db.commit_changes(changes))
            }
            "list" => {
                // two change sets of one list write the same key
                let f = list_commit.unwrap_or_else(|| die("this database kind has no list commit path"));
                let mut second = Changes::default();
                second.entry(pcol).or_default().insert(PAY_KEY.to_vec().into(), pay_op);
                guarded(|| f(db, StorageChanges::ChangesList(vec![changes, second])))
            }
            other => die(&format!("unknown conflict kind {other}")),
        };
        match r {
            Ok(Ok(())) => "Ok".to_string(),
            Ok(Err(e)) => classify(&e),
            Err(p) => format!("Panic:{}", p.chars().take(60).collect::<String>()),
        }
    }

    fn reopen(&mut self) {
        // drop the Database object (and with it the RocksDB handle), then build a new one
        self.db = None;
        if let Some(store) = &self.mem {
            self.db = Some(Database::<D>::new(store.clone()));
        } else if let Some(dir) = &self.dir {
            self.db = Some(
                Database::<D>::open_rocksdb(dir.path(), StateRewindPolicy::RewindFullRange, db_config())
                    .unwrap_or_else(|e| die(&format!("reopen: {e}"))),
            );
        }
    }

    fn rollback(&mut self) -> String {
        let db = self.db();
        match guarded(|| db.rollback_last_block()) {
            Ok(Ok(())) => "Ok".to_string(),
            Ok(Err(e)) => classify(&e),
            Err(p) => format!("Panic:{}", p.chars().take(60).collect::<String>()),
        }
    }

    fn project(&self) -> (i64, i64, i64) {
        let db = self.db();
        let cached = HistoricalView::latest_height(db).map(|h| h.as_u64() as i64).unwrap_or(-1);
        let meta = match db.latest_height_from_metadata() {
            Ok(Some(h)) => h.as_u64() as i64,
            Ok(None) => -1,
            Err(_) => -2,
        };
        (cached, meta, self.payload())
    }
}

fn make(kind: &str, backend: &str) -> Box<dyn Node> {
    match kind {
        "onchain" => Box::new(N::<OnChain>::new(
            backend,
            HeightTable { column: "FuelBlocks", in_value: false, width: 4, pay_column: "Coins" },
            Some(|db, changes| ImporterDatabase::commit_changes(db, changes)),
        )),
        "offchain" => Box::new(N::<OffChain>::new(
            backend,
            HeightTable { column: "FuelBlockIdsToHeights", in_value: true, width: 4, pay_column: "Statistic" },
            None,
        )),
        "gasprice" => Box::new(N::<GasPriceDatabase>::new(
            backend,
            HeightTable { column: "State", in_value: false, width: 4, pay_column: "UnrecordedBlocks" },
            None,
        )),
        "compression" => Box::new(N::<CompressionDatabase>::new(
            backend,
            HeightTable { column: "CompressedBlocks", in_value: false, width: 4, pay_column: "Timestamps" },
            None,
        )),
        // built without the fuel-core `relayer` feature: the only column is Metadata and the
        // heights lookup is `|_| Ok(vec![])`
        "relayer" => Box::new(N::<Relayer>::new(
            backend,
            HeightTable { column: "", in_value: false, width: 8, pay_column: "Metadata" },
            None,
        )),
        k => die(&format!("unknown kind {k}")),
    }
}

fn log(t: &mut Trace, ev: &str, mut fields: Value, n: &dyn Node) {
    let (cached, meta, pay) = n.project();
    let m = fields.as_object_mut().unwrap();
    m.insert("cached".into(), json!(cached));
    m.insert("meta".into(), json!(meta));
    m.insert("pay".into(), json!(pay));
    t.event(ev, fields);
}

pub fn run(args: &Args) {
    let walks = read_walks(args.req("walks"));
    let mut t = Trace::create(args.req("out"));
    for w in walks {
        t.reset(w.id, json!({}));
        let mut node: Option<Box<dyn Node>> = None;
        for s in &w.steps {
            match s.name() {
                "New" => {
                    let (kind, backend) = (s.str_("kind"), s.str_("backend"));
                    let n = make(kind, backend);
                    log(&mut t, "New", json!({"kind": kind, "backend": backend}), n.as_ref());
                    node = Some(n);
                }
                "Commit" => {
                    let n = node.as_mut().unwrap_or_else(|| die("Commit before New"));
                    let sv = s.ints("S");
                    let cf = s.get("cf").and_then(|v| v.as_str()).unwrap_or("none");
                    let res = n.commit(&sv, cf);
                    log(&mut t, "Commit", json!({"S": sv, "cf": cf, "res": res}), n.as_ref());
                }
                "Reopen" => {
                    let n = node.as_mut().unwrap_or_else(|| die("Reopen before New"));
                    n.reopen();
                    log(&mut t, "Reopen", json!({}), n.as_ref());
                }
                "Rollback" => {
                    let n = node.as_mut().unwrap_or_else(|| die("Rollback before New"));
                    let res = n.rollback();
                    log(&mut t, "Rollback", json!({"res": res}), n.as_ref());
                }
                other => die(&format!("unknown action {other}")),
            }
        }
        drop(node); // closes RocksDB and removes the temp dir
    }
    t.finish();
}

/// Seeded random histories biased towards the cases the property names: next height, repeated,
/// skipped, two heights, missing height, with reopen / rollback in between.
pub fn random(args: &Args) {
    let n = args.num("walks", 50);
    let len = args.num("len", 25);
    let max_h = args.num("maxh", 4) as i64;
    let mut rng = Rng::new(env_seed() ^ 0xC09);
    let kinds = ["onchain", "offchain", "gasprice", "compression", "relayer"];
    let mut t = Trace::create(args.req("out"));
    for id in 0..n {
        t.reset(id as i64, json!({}));
        let kind = kinds[(id % 5) as usize];
        let backend = if rng.chance(1, 2) { "mem" } else { "rocks" };
        let mut node = make(kind, backend);
        log(&mut t, "New", json!({"kind": kind, "backend": backend}), node.as_ref());
        let mut diffs: i64 = 0; // number of diffs the rocks backend keeps (only used to stay in contract)
        for _ in 0..len {
            let (cached, _, _) = node.project();
            match rng.below(10) {
                0 | 1 => {
                    node.reopen();
                    log(&mut t, "Reopen", json!({}), node.as_ref());
                }
                2 => {
                    // rolling back the only remaining block is outside the contract of C09 (see spec)
                    if backend == "rocks" && diffs == 1 {
                        continue;
                    }
                    let res = node.rollback();
                    if res == "Ok" {
                        diffs -= 1;
                    }
                    log(&mut t, "Rollback", json!({"res": res}), node.as_ref());
                }
                _ => {
                    let sv: Vec<i64> = if kind == "relayer" {
                        vec![]
                    } else {
                        let next = if cached < 0 { rng.range(0, 2) } else { (cached + 1).min(max_h) };
                        match rng.below(8) {
                            0 => vec![],
                            1 => vec![rng.range(0, max_h)],
                            2 => {
                                let (a, b) = (rng.range(0, max_h), rng.range(0, max_h));
                                if a == b && kind != "offchain" { vec![a] } else { vec![a.min(b), a.max(b)] }
                            }
                            3 if next < max_h => vec![next, next + 1],
                            _ => vec![next],
                        }
                    };
                    // now and then a batch that passes the height checks but that the backend must reject
                    let cf = if sv.is_empty() || !rng.chance(1, 5) {
                        "none"
                    } else if kind == "onchain" && rng.chance(1, 2) {
                        "list"
                    } else {
                        "meta"
                    };
                    let res = node.commit(&sv, cf);
                    if res == "Ok" && !sv.is_empty() && backend == "rocks" {
                        diffs += 1;
                    }
                    log(&mut t, "Commit", json!({"S": sv, "cf": cf, "res": res}), node.as_ref());
                }
            }
        }
        drop(node);
    }
    t.finish();
}

/// debug: list the columns of the five database kinds
pub fn cols() {
    fn show<D: DatabaseDescription>() {
        let v: Vec<String> = enum_iterator::all::<D::Column>().map(|c| format!("{}={}", c.name(), c.id())).collect();
        println!("{}: {}", D::name(), v.join(" "));
    }
    show::<OnChain>();
    show::<OffChain>();
    show::<GasPriceDatabase>();
    show::<CompressionDatabase>();
    show::<Relayer>();
}
