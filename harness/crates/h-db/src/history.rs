//! C12 — `Database<OnChain>` on a temporary RocksDB, reopened with changing `StateRewindPolicy`s:
//! block commits through the real typed tables (ContractsAssets: sparse-merklized with a 32-byte prefix
//! column, ContractsState: the same with byte values, Coins: plain), `view_at`, `rollback_last_block`.
use crate::{
    classify,
    db_config,
    policy,
};
use fuel_core::database::{
    Database,
    database_description::on_chain::OnChain,
};
use fuel_core_storage::{
    ContractsAssetKey,
    ContractsStateKey,
    StorageAsMut,
    StorageAsRef,
    StorageInspect,
    tables::{
        Coins,
        ContractsAssets,
        ContractsState,
        FuelBlocks,
    },
    transactional::{
        AtomicView,
        HistoricalView,
        Modifiable,
        ReadTransaction,
    },
};
use fuel_core_types::{
    blockchain::block::CompressedBlock,
    entities::coins::coin::CompressedCoin,
    fuel_tx::{
        AssetId,
        Bytes32,
        ContractId,
        UtxoId,
    },
    fuel_types::BlockHeight,
};
use h_common::*;
use serde_json::Value;
use tempfile::TempDir;

fn contract() -> ContractId {
    ContractId::from([0xA1; 32])
}

/// abstract key i (1-based) -> which real table entry
enum K {
    Asset(ContractsAssetKey),
    State(ContractsStateKey),
    Coin(UtxoId),
}

fn key(i: usize) -> K {
    let b = [i as u8; 32];
    match i % 3 {
        1 => K::Asset(ContractsAssetKey::new(&contract(), &AssetId::from(b))),
        2 => K::State(ContractsStateKey::new(&contract(), &Bytes32::from(b))),
        _ => K::Coin(UtxoId::new(b.into(), 0)),
    }
}

/// value of abstract key i in any view that can inspect the three tables (0 = absent, -2 = read error)
fn read<S>(s: &S, i: usize) -> i64
where
    S: StorageInspect<ContractsAssets, Error = fuel_core_storage::Error>
        + StorageInspect<ContractsState, Error = fuel_core_storage::Error>
        + StorageInspect<Coins, Error = fuel_core_storage::Error>,
{
    match key(i) {
        K::Asset(k) => match s.storage::<ContractsAssets>().get(&k) {
            Ok(Some(v)) => *v as i64,
            Ok(None) => 0,
            Err(_) => -2,
        },
        K::State(k) => match s.storage::<ContractsState>().get(&k) {
            Ok(Some(v)) => {
                let bytes: Vec<u8> = v.into_owned().into();
                if bytes.len() == 1 { bytes[0] as i64 } else { -3 }
            }
            Ok(None) => 0,
            Err(_) => -2,
        },
        K::Coin(k) => match s.storage::<Coins>().get(&k) {
            Ok(Some(c)) => *c.amount() as i64,
            Ok(None) => 0,
            Err(_) => -2,
        },
    }
}

struct Node {
    dir: TempDir,
    db: Option<Database<OnChain>>,
    nkeys: usize,
}

impl Node {
    fn new(p: &str, nkeys: usize) -> Self {
        let dir = TempDir::new().unwrap_or_else(|e| die(&format!("tempdir: {e}")));
        let mut n = Node { dir, db: None, nkeys };
        n.open(p);
        n
    }

    fn open(&mut self, p: &str) {
        self.db = None; // closes the RocksDB handle first
        self.db = Some(
            Database::<OnChain>::open_rocksdb(self.dir.path(), policy(p), db_config())
                .unwrap_or_else(|e| die(&format!("open_rocksdb: {e}"))),
        );
    }

    fn db(&self) -> &Database<OnChain> {
        self.db.as_ref().unwrap()
    }

    fn cached(&self) -> i64 {
        HistoricalView::latest_height(self.db()).map(|h| u32::from(h) as i64).unwrap_or(-1)
    }

    fn latest(&self) -> Value {
        match self.db().latest_view() {
            Ok(v) => json!((1..=self.nkeys).map(|i| read(&v, i)).collect::<Vec<_>>()),
            Err(_) => json!(vec![-2; self.nkeys]),
        }
    }

    fn commit(&mut self, w: &[i64]) -> String {
        let h = (self.cached() + 1) as u32;
        let height: BlockHeight = h.into();
        let db = self.db.as_mut().unwrap();
        let built: Result<_, fuel_core_storage::Error> = (|| {
            let mut tx = db.read_transaction();
            for (idx, v) in w.iter().enumerate() {
                if *v < 0 {
                    continue;
                }
                match key(idx + 1) {
                    K::Asset(k) => {
                        if *v == 0 {
                            tx.storage_as_mut::<ContractsAssets>().remove(&k)?;
                        } else {
                            tx.storage_as_mut::<ContractsAssets>().insert(&k, &(*v as u64))?;
                        }
                    }
                    K::State(k) => {
                        if *v == 0 {
                            tx.storage_as_mut::<ContractsState>().remove(&k)?;
                        } else {
                            tx.storage_as_mut::<ContractsState>().insert(&k, [*v as u8].as_slice())?;
                        }
                    }
                    K::Coin(k) => {
                        if *v == 0 {
                            tx.storage_as_mut::<Coins>().remove(&k)?;
                        } else {
                            let mut c = CompressedCoin::default();
                            c.set_amount(*v as u64);
                            tx.storage_as_mut::<Coins>().insert(&k, &c)?;
                        }
                    }
                }
            }
            tx.storage_as_mut::<FuelBlocks>().insert(&height, &CompressedBlock::default())?;
            Ok(tx.into_changes())
        })();
        let changes = match built {
            Ok(c) => c,
            Err(e) => return format!("Err:Build:{}", e.to_string().chars().take(60).collect::<String>()),
        };
        match guarded(|| db.commit_changes(changes)) {
            Ok(Ok(())) => "Ok".to_string(),
            Ok(Err(e)) => classify(&e),
            Err(p) => format!("Panic:{}", p.chars().take(60).collect::<String>()),
        }
    }

    fn rollback(&mut self) -> String {
        let db = self.db();
        match guarded(|| db.rollback_last_block()) {
            Ok(Ok(())) => "Ok".to_string(),
            Ok(Err(e)) => classify(&e),
            Err(p) => format!("Panic:{}", p.chars().take(60).collect::<String>()),
        }
    }

    fn view(&self, t: &mut Trace, h: i64) {
        let height: BlockHeight = (h as u32).into();
        let db = self.db();
        let r = guarded(|| match db.view_at(&height) {
            Ok(v) => Ok((1..=self.nkeys).map(|i| read(&v, i)).collect::<Vec<_>>()),
            Err(e) => Err(classify(&e)),
        });
        let zero = vec![0i64; self.nkeys];
        match r {
            Ok(Ok(st)) => t.event("View", json!({"h": h, "ok": true, "res": "Ok", "st": st})),
            Ok(Err(e)) => t.event("View", json!({"h": h, "ok": false, "res": e, "st": zero})),
            Err(p) => t.event(
                "View",
                json!({"h": h, "ok": true, "res": format!("Panic:{}", p.chars().take(60).collect::<String>()),
                       "st": vec![-4i64; self.nkeys]}),
            ),
        }
    }

    fn view_all(&self, t: &mut Trace) {
        for h in 0..=self.cached() {
            self.view(t, h);
        }
    }
}

fn log(t: &mut Trace, ev: &str, mut fields: Value, n: &Node) {
    let m = fields.as_object_mut().unwrap();
    m.insert("cached".into(), json!(n.cached()));
    m.insert("latest".into(), n.latest());
    t.event(ev, fields);
}

pub fn run(args: &Args) {
    let walks = read_walks(args.req("walks"));
    let nkeys = args.num("nkeys", 2) as usize;
    let viewall = args.num("viewall", 0) == 1;
    let mut t = Trace::create(args.req("out"));
    for w in walks {
        t.reset(w.id, json!({}));
        let mut node: Option<Node> = None;
        for s in &w.steps {
            let mut changed = true;
            match s.name() {
                "New" => {
                    let p = s.str_("policy");
                    let n = Node::new(p, nkeys);
                    log(&mut t, "New", json!({"policy": p}), &n);
                    node = Some(n);
                }
                "Restart" => {
                    let n = node.as_mut().unwrap_or_else(|| die("Restart before New"));
                    let p = s.str_("policy");
                    n.open(p);
                    log(&mut t, "Restart", json!({"policy": p}), n);
                }
                "Commit" => {
                    let n = node.as_mut().unwrap_or_else(|| die("Commit before New"));
                    let w = s.ints("w");
                    let res = n.commit(&w);
                    log(&mut t, "Commit", json!({"w": w, "res": res}), n);
                }
                "Rollback" => {
                    let n = node.as_mut().unwrap_or_else(|| die("Rollback before New"));
                    let res = n.rollback();
                    log(&mut t, "Rollback", json!({"res": res}), n);
                }
                "View" => {
                    let n = node.as_ref().unwrap_or_else(|| die("View before New"));
                    n.view(&mut t, s.int("h"));
                    changed = false;
                }
                other => die(&format!("unknown action {other}")),
            }
            if viewall && changed {
                if let Some(n) = &node {
                    n.view_all(&mut t);
                }
            }
        }
        drop(node);
    }
    t.finish();
}

/// Seeded random histories: overlapping key writes, restarts that change the policy, rollbacks and
/// re-commits; after every step a view at every height that holds a block.
/// `--regime keep`: the policy sequence never shrinks the retained window while history exists
/// (none only before the first history-keeping run; full stays full; rN -> rM only with M >= N or full).
pub fn random(args: &Args) {
    let n = args.num("walks", 50);
    let len = args.num("len", 16);
    let nkeys = args.num("nkeys", 2) as usize;
    let max_h = args.num("maxh", 5) as i64;
    let keep = args.get("regime").unwrap_or("any") == "keep";
    let pols = ["none", "full", "r1", "r2", "r3"];
    let rank = |p: &str| match p {
        "none" => 0,
        "r1" => 1,
        "r2" => 2,
        "r3" => 3,
        _ => 100,
    };
    let mut rng = Rng::new(env_seed() ^ 0xC12);
    let mut t = Trace::create(args.req("out"));
    for id in 0..n {
        t.reset(id as i64, json!({}));
        let mut cur = *rng.pick(&pols);
        let mut node = Node::new(cur, nkeys);
        log(&mut t, "New", json!({"policy": cur}), &node);
        for _ in 0..len {
            match rng.below(10) {
                0 | 1 => {
                    let p = *rng.pick(&pols);
                    if keep && rank(p) < rank(cur) {
                        continue;
                    }
                    cur = p;
                    node.open(p);
                    log(&mut t, "Restart", json!({"policy": p}), &node);
                }
                2 | 3 => {
                    let res = node.rollback();
                    log(&mut t, "Rollback", json!({"res": res}), &node);
                }
                _ => {
                    if node.cached() >= max_h {
                        continue;
                    }
                    let w: Vec<i64> = (0..nkeys).map(|_| rng.range(-1, 2)).collect();
                    let res = node.commit(&w);
                    log(&mut t, "Commit", json!({"w": w, "res": res}), &node);
                }
            }
            node.view_all(&mut t);
        }
        drop(node);
    }
    t.finish();
}
