//! Harness for C08: the real `fuel_core_importer::Importer` over the real in-memory
//! `Database<OnChain>` through fuel-core's own `ImporterDatabase` adapter.
//!
//! The harness is an action interpreter and logger only.  Observation points are the ports the
//! importer's worker calls in program order (a delegating database / transaction wrapper, the scripted
//! verifier, validator and write port) and the broadcast receivers.  A concurrent second request is
//! issued while the first one is parked inside one of those port calls (hand-shake, no clocks).
//! TLC judges the traces (specs/Trace_Importer.tla).
use fuel_core::database::{
    Database,
    database_description::on_chain::OnChain,
};
use fuel_core_importer::{
    Config,
    Importer,
    ImporterResult,
    ports::{
        BlockReconciliationWritePort,
        BlockVerifier,
        DatabaseTransaction,
        ImporterDatabase,
        Transactional,
        Validator,
    },
};
use fuel_core_storage::{
    MerkleRoot,
    Result as StorageResult,
    StorageAsMut,
    StorageAsRef,
    column::Column,
    iter::{
        IterDirection,
        IterableStore,
        IteratorOverTable,
    },
    kv_store::{
        StorageColumn,
        WriteOperation,
    },
    tables::{
        FuelBlocks,
        SealedBlockConsensus,
        Transactions,
        merkle::{
            DenseMerkleMetadata,
            DenseMetadataKey,
            FuelBlockMerkleMetadata,
        },
    },
    transactional::{
        Changes,
        StorageChanges,
        StorageTransaction,
    },
};
use fuel_core_types::{
    blockchain::{
        SealedBlock,
        block::Block,
        consensus::{
            Consensus,
            Genesis,
            poa::PoAConsensus,
        },
        header::PartialBlockHeader,
    },
    fuel_merkle::binary::root_calculator::MerkleRootCalculator,
    fuel_tx::{
        Bytes32,
        Transaction,
        UniqueIdentifier,
        policies::Policies,
    },
    fuel_types::{
        BlockHeight,
        ChainId,
    },
    services::{
        block_importer::{
            ImportResult,
            UncommittedResult,
        },
        executor::{
            Error as ExecutorError,
            Result as ExecutorResult,
            UncommittedValidationResult,
            ValidationResult,
        },
    },
};
use h_common::*;
use serde_json::{
    Map,
    Value,
};
use std::{
    collections::HashMap,
    future::Future,
    pin::Pin,
    sync::{
        Arc,
        Condvar,
        Mutex,
        atomic::{
            AtomicI64,
            AtomicU64,
            Ordering,
        },
    },
    task::Poll,
};
use tokio::sync::broadcast;

type Db = Database<OnChain>;

// ------------------------------------------------------------------ abstract values <-> concrete values

#[derive(Clone, Debug, PartialEq, Eq)]
struct Tok {
    h: i64,
    k: String,
    txs: Vec<i64>,
}

impl Tok {
    fn from(v: &Value) -> Tok {
        let mut txs: Vec<i64> = v["txs"].as_array().map(|a| a.iter().filter_map(|x| x.as_i64()).collect()).unwrap_or_default();
        txs.sort();
        txs.dedup();
        Tok { h: v["h"].as_i64().unwrap_or_else(|| die("block without h")), k: v["k"].as_str().unwrap_or("P").to_string(), txs }
    }
    fn json(&self) -> Value {
        json!({"h": self.h, "k": self.k, "txs": self.txs})
    }
}

fn bid(id: fuel_core_types::blockchain::primitives::BlockId) -> [u8; 32] {
    let b: Bytes32 = id.into();
    *b
}

fn chain_id() -> ChainId {
    ChainId::default()
}

fn mk_tx(t: i64) -> Transaction {
    Transaction::script(0, vec![], vec![t as u8, 0x5a], Policies::new(), vec![], vec![], vec![]).into()
}

fn mk_block(tok: &Tok) -> SealedBlock {
    let mut header = PartialBlockHeader::default();
    header.consensus.height = (tok.h as u32).into();
    // the consensus kind is not part of the block id: keep the two kinds apart through the DA height
    header.application.da_height = (if tok.k == "G" { 0u64 } else { 1u64 }).into();
    let txs = tok.txs.iter().map(|t| mk_tx(*t)).collect();
    let entity = Block::new(header, txs, &[], Bytes32::zeroed()).unwrap_or_else(|e| die(&format!("block: {e:?}")));
    let consensus = if tok.k == "G" { Consensus::Genesis(Genesis::default()) } else { Consensus::PoA(PoAConsensus::default()) };
    SealedBlock { entity, consensus }
}

#[derive(Clone, Debug)]
struct Script {
    c: i64,
    exe: String,
    ver: String,
    publ: String,
}

#[derive(Default)]
struct Gate {
    stops: Vec<String>,
    arrived: Vec<String>,
    released: Vec<String>,
    done: bool,
}

struct Shared {
    view: Db,
    buf: Mutex<Vec<(u8, String, Value)>>,
    scripts: Mutex<HashMap<[u8; 32], Script>>,
    blocks: Mutex<HashMap<[u8; 32], Tok>>,
    txs: Mutex<HashMap<[u8; 32], i64>>,
    cur_c: AtomicI64,
    cur_exec: AtomicI64, // 1 while the top-level request is execute_and_commit
    gate: Mutex<Gate>,
    cv: Condvar,
    subs: Mutex<Vec<(usize, broadcast::Receiver<ImporterResult>)>>,
    held: Mutex<Vec<ImporterResult>>,
    digests: Mutex<Vec<u64>>,
    exp_root: Mutex<String>,
    junk: AtomicU64,
    nsubs: usize,
}

impl Shared {
    fn tag(&self, stage: &str) -> u8 {
        if self.cur_exec.load(Ordering::SeqCst) == 1 {
            match stage {
                "ReadHeight" | "StoreNew" => 1,
                "Verify" | "Execute" => 2,
                _ => 3,
            }
        } else {
            3
        }
    }
    fn push(&self, tag: u8, ev: &str, v: Value) {
        self.buf.lock().unwrap().push((tag, ev.to_string(), v));
    }
    fn stage(&self, ev: &str, v: Value) {
        self.push(self.tag(ev), ev, v);
    }
    /// Port entry: park here when the driver asked for it, until it lets the worker go on.
    fn at_port(&self, stage: &str) {
        let mut g = self.gate.lock().unwrap();
        if let Some(i) = g.stops.iter().position(|s| s == stage) {
            g.stops.remove(i);
            g.arrived.push(stage.to_string());
            self.cv.notify_all();
            loop {
                if let Some(j) = g.released.iter().position(|s| s == stage) {
                    g.released.remove(j);
                    break;
                }
                g = self.cv.wait(g).unwrap();
            }
        }
    }
    fn script_of(&self, id: [u8; 32]) -> Option<Script> {
        let s = self.scripts.lock().unwrap().get(&id).cloned();
        if let Some(s) = &s {
            self.cur_c.store(s.c, Ordering::SeqCst);
        }
        s
    }
    fn c(&self) -> i64 {
        self.cur_c.load(Ordering::SeqCst)
    }
    fn register(&self, tok: &Tok, sb: &SealedBlock) {
        self.blocks.lock().unwrap().insert(bid(sb.entity.id()), tok.clone());
        let mut m = self.txs.lock().unwrap();
        for (t, tx) in tok.txs.iter().zip(sb.entity.transactions()) {
            m.insert(*tx.id(&chain_id()), *t);
        }
    }
    fn token_of_block(&self, id: [u8; 32], h: i64) -> Value {
        match self.blocks.lock().unwrap().get(&id) {
            Some(t) => t.json(),
            None => json!({"h": h, "k": "?", "txs": []}),
        }
    }

    // ---------------------------------------------------------------- projection of the database

    fn block_ids(&self) -> Vec<(u32, [u8; 32])> {
        self.view
            .iter_all::<FuelBlocks>(Some(IterDirection::Forward))
            .filter_map(|r| r.ok())
            .map(|(h, b)| (*h, bid(b.id())))
            .collect()
    }
    fn root_class(&self, root: Option<MerkleRoot>) -> String {
        match root {
            None => "none".to_string(),
            Some(r) => {
                let mut calc = MerkleRootCalculator::new();
                for (_, id) in self.block_ids() {
                    calc.push(&id);
                }
                if calc.root() == r { "chain".to_string() } else { "other".to_string() }
            }
        }
    }
    fn project(&self) -> Value {
        let blocks: Vec<Value> = self.block_ids().into_iter().map(|(h, id)| self.token_of_block(id, h as i64)).collect();
        let cons: Vec<i64> = self
            .view
            .iter_all_keys::<SealedBlockConsensus>(Some(IterDirection::Forward))
            .filter_map(|r| r.ok())
            .map(|h| *h as i64)
            .collect();
        let txm = self.txs.lock().unwrap();
        let mut txs: Vec<i64> = self
            .view
            .iter_all_keys::<Transactions>(Some(IterDirection::Forward))
            .filter_map(|r| r.ok())
            .map(|id| txm.get(&*id).copied().unwrap_or(99))
            .collect();
        txs.sort();
        let root = self
            .view
            .storage_as_ref::<FuelBlockMerkleMetadata>()
            .get(&DenseMetadataKey::Latest)
            .ok()
            .flatten()
            .map(|m| *m.root());
        json!({"blocks": blocks, "cons": cons, "txs": txs, "root": self.root_class(root)})
    }
    /// Version of the whole database content: index of its digest among the digests seen in this walk.
    fn dv(&self) -> i64 {
        let mut h: u64 = 0xcbf29ce484222325;
        let mut eat = |bytes: &[u8]| {
            for b in bytes {
                h ^= *b as u64;
                h = h.wrapping_mul(0x100000001b3);
            }
            h ^= 0xff;
            h = h.wrapping_mul(0x100000001b3);
        };
        for col in enum_iterator::all::<Column>() {
            for item in self.view.iter_store(col, None, None, IterDirection::Forward) {
                if let Ok((k, v)) = item {
                    eat(&col.id().to_be_bytes());
                    eat(&k);
                    eat(&v);
                }
            }
        }
        let mut d = self.digests.lock().unwrap();
        if let Some(i) = d.iter().position(|x| *x == h) {
            i as i64
        } else {
            d.push(h);
            (d.len() - 1) as i64
        }
    }

    // ---------------------------------------------------------------- subscribers

    /// Take everything the subscribers have received so far; one Broadcast event if there was anything.
    fn drain(&self) {
        let mut items: Vec<Vec<Value>> = vec![vec![]; self.nsubs];
        let mut any = false;
        let mut subs = self.subs.lock().unwrap();
        for (id, rx) in subs.iter_mut() {
            loop {
                match rx.try_recv() {
                    Ok(res) => {
                        let b = &res.sealed_block.entity;
                        items[*id - 1].push(self.token_of_block(bid(b.id()), **b.header().height() as i64));
                        self.held.lock().unwrap().push(res);
                        any = true;
                    }
                    Err(broadcast::error::TryRecvError::Lagged(n)) => {
                        items[*id - 1].push(json!({"h": -(n as i64), "k": "lagged", "txs": []}));
                        any = true;
                    }
                    Err(_) => break,
                }
            }
        }
        if any {
            self.push(3, "Broadcast", json!({"c": self.c(), "items": items}));
        }
    }
}

// ------------------------------------------------------------------ the ports

struct ObsDb {
    inner: Db,
    sh: Arc<Shared>,
}

struct ObsTx<'a> {
    inner: StorageTransaction<&'a Db>,
    sh: Arc<Shared>,
}

impl ImporterDatabase for ObsDb {
    fn latest_block_height(&self) -> StorageResult<Option<BlockHeight>> {
        self.sh.at_port("ReadHeight");
        let r = ImporterDatabase::latest_block_height(&self.inner);
        let val = match &r {
            Ok(Some(h)) => **h as i64,
            Ok(None) => -1,
            Err(_) => -2,
        };
        self.sh.stage("ReadHeight", json!({"c": self.sh.c(), "val": val}));
        r
    }

    fn latest_block_root(&self) -> StorageResult<Option<MerkleRoot>> {
        self.sh.at_port("CheckRoot");
        let r = ImporterDatabase::latest_block_root(&self.inner);
        *self.sh.exp_root.lock().unwrap() = match &r {
            Ok(x) => self.sh.root_class(*x),
            Err(_) => "err".to_string(),
        };
        r
    }

    fn commit_changes(&mut self, changes: StorageChanges) -> StorageResult<()> {
        self.sh.at_port("DbCommit");
        // anything announced before the data is written shows up here, in the worker's program order
        self.sh.drain();
        let r = ImporterDatabase::commit_changes(&mut self.inner, changes);
        let res = match &r {
            Ok(()) => "Ok".to_string(),
            Err(_) => "Err:Storage".to_string(),
        };
        self.sh.stage("DbCommit", json!({"c": self.sh.c(), "res": res, "db": self.sh.project(), "dv": self.sh.dv()}));
        r
    }
}

impl Transactional for ObsDb {
    type Transaction<'a>
        = ObsTx<'a>
    where
        Self: 'a;

    fn storage_transaction(&self, changes: Changes) -> Self::Transaction<'_> {
        ObsTx { inner: Transactional::storage_transaction(&self.inner, changes), sh: self.sh.clone() }
    }
}

impl DatabaseTransaction for ObsTx<'_> {
    fn latest_block_root(&self) -> StorageResult<Option<MerkleRoot>> {
        let r = DatabaseTransaction::latest_block_root(&self.inner);
        let got = match &r {
            Ok(x) => self.sh.root_class(*x),
            Err(_) => "err".to_string(),
        };
        let exp = self.sh.exp_root.lock().unwrap().clone();
        self.sh.stage("CheckRoot", json!({"c": self.sh.c(), "exp": exp, "got": got}));
        r
    }

    fn store_new_block(&mut self, chain_id: &ChainId, block: &SealedBlock) -> StorageResult<bool> {
        self.sh.script_of(bid(block.entity.id()));
        self.sh.at_port("StoreNew");
        let r = DatabaseTransaction::store_new_block(&mut self.inner, chain_id, block);
        let res = match &r {
            Ok(true) => "New",
            Ok(false) => "Found",
            Err(_) => "Err",
        };
        self.sh.stage("StoreNew", json!({"c": self.sh.c(), "res": res}));
        r
    }

    fn into_changes(self) -> Changes {
        DatabaseTransaction::into_changes(self.inner)
    }
}

struct Ver(Arc<Shared>);
impl BlockVerifier for Ver {
    fn verify_block_fields(&self, _consensus: &Consensus, block: &Block) -> anyhow::Result<()> {
        let s = self.0.script_of(bid(block.id()));
        self.0.at_port("Verify");
        let bad = s.map(|s| s.ver == "err").unwrap_or(false);
        self.0.stage("Verify", json!({"c": self.0.c(), "res": if bad { "Err" } else { "Ok" }}));
        if bad { Err(anyhow::anyhow!("scripted verification failure")) } else { Ok(()) }
    }
}

/// The changes an execution hands to the importer: always one fresh unrelated key; "touch" also
/// overwrites the block Merkle metadata with a foreign root, "same" rewrites it with its current value.
fn exec_changes(sh: &Shared, exe: &str) -> Changes {
    let mut changes = Changes::default();
    let n = sh.junk.fetch_add(1, Ordering::SeqCst);
    let mut key = vec![0x77u8; 24];
    key.extend_from_slice(&n.to_be_bytes());
    changes
        .entry(Column::ContractsRawCode.id())
        .or_default()
        .insert(key.into(), WriteOperation::Insert(vec![1, 2, 3].into()));
    let meta = match exe {
        "touch" => Some(DenseMerkleMetadata::new([0xAB; 32], 7)),
        "same" => sh
            .view
            .storage_as_ref::<FuelBlockMerkleMetadata>()
            .get(&DenseMetadataKey::Latest)
            .ok()
            .flatten()
            .map(|m| m.into_owned()),
        _ => None,
    };
    if let Some(m) = meta {
        let mut tx = StorageTransaction::transaction(
            &sh.view,
            fuel_core_storage::transactional::ConflictPolicy::Overwrite,
            changes,
        );
        tx.storage_as_mut::<FuelBlockMerkleMetadata>()
            .insert(&DenseMetadataKey::Latest, &m)
            .unwrap_or_else(|e| die(&format!("metadata write: {e:?}")));
        changes = tx.into_changes();
    }
    changes
}

struct Val(Arc<Shared>);
impl Validator for Val {
    fn validate(&self, block: &Block) -> ExecutorResult<UncommittedValidationResult<Changes>> {
        let s = self.0.script_of(bid(block.id()));
        self.0.at_port("Execute");
        let exe = s.map(|s| s.exe).unwrap_or_else(|| "clean".to_string());
        self.0.stage("Execute", json!({"c": self.0.c(), "res": if exe == "err" { "Err" } else { "Ok" }}));
        if exe == "err" {
            return Err(ExecutorError::MintMissing);
        }
        Ok(UncommittedValidationResult::new(
            ValidationResult { tx_status: vec![], events: vec![] },
            exec_changes(&self.0, &exe),
        ))
    }
}

struct Wp(Arc<Shared>);
impl BlockReconciliationWritePort for Wp {
    fn publish_produced_block(&self, block: &SealedBlock) -> anyhow::Result<()> {
        let s = self.0.script_of(bid(block.entity.id()));
        self.0.at_port("Publish");
        let bad = s.map(|s| s.publ == "err").unwrap_or(false);
        self.0.stage("Publish", json!({"c": self.0.c(), "res": if bad { "Err" } else { "Ok" }}));
        if bad { Err(anyhow::anyhow!("scripted publish failure")) } else { Ok(()) }
    }
}

// ------------------------------------------------------------------ the driver

fn err_kind(e: &fuel_core_importer::error::Error) -> String {
    let s = format!("{e:?}");
    let k: String = s.chars().take_while(|c| c.is_ascii_alphanumeric()).collect();
    format!("Err:{k}")
}

fn paused_rt() -> tokio::runtime::Runtime {
    tokio::runtime::Builder::new_current_thread()
        .enable_time()
        .start_paused(true)
        .build()
        .unwrap_or_else(|e| die(&format!("runtime: {e}")))
}

struct Node {
    sh: Arc<Shared>,
    importer: Arc<Importer>,
}

struct ReqSpec {
    c: i64,
    kind: String,
    tok: Tok,
    exe: String,
    ver: String,
    publ: String,
}

impl ReqSpec {
    fn from(s: &Map<String, Value>) -> ReqSpec {
        ReqSpec {
            c: s.int("c"),
            kind: s.str_("kind").to_string(),
            tok: Tok::from(s.get("b").unwrap_or_else(|| die("request without block"))),
            exe: s.str_("exe").to_string(),
            ver: s.str_("ver").to_string(),
            publ: s.str_("pub").to_string(),
        }
    }
    fn json(&self) -> Value {
        json!({"c": self.c, "kind": self.kind, "b": self.tok.json(), "exe": self.exe, "ver": self.ver, "pub": self.publ})
    }
}

type ReqFut = Pin<Box<dyn Future<Output = String> + Send>>;

impl Node {
    fn new(buf: usize, nsubs: usize) -> Node {
        let view = Db::in_memory();
        let sh = Arc::new(Shared {
            view: view.clone(),
            buf: Mutex::new(vec![]),
            scripts: Mutex::new(HashMap::new()),
            blocks: Mutex::new(HashMap::new()),
            txs: Mutex::new(HashMap::new()),
            cur_c: AtomicI64::new(0),
            cur_exec: AtomicI64::new(0),
            gate: Mutex::new(Gate::default()),
            cv: Condvar::new(),
            subs: Mutex::new(vec![]),
            held: Mutex::new(vec![]),
            digests: Mutex::new(vec![]),
            exp_root: Mutex::new("none".to_string()),
            junk: AtomicU64::new(0),
            nsubs,
        });
        let importer = Importer::new(
            chain_id(),
            Config { max_block_notify_buffer: buf, metrics: false },
            ObsDb { inner: view, sh: sh.clone() },
            Val(sh.clone()),
            Ver(sh.clone()),
            Wp(sh.clone()),
        );
        let n = Node { sh, importer: Arc::new(importer) };
        n.subscribe(1);
        n.subscribe(2);
        let _ = n.sh.dv(); // digest of the empty database = version 0
        n
    }

    fn subscribe(&self, s: usize) {
        let rx = self.importer.subscribe();
        self.sh.subs.lock().unwrap().push((s, rx));
    }

    /// The future of one public call, yielding the result as text.
    fn call(&self, r: &ReqSpec, main: bool) -> ReqFut {
        let sb = mk_block(&r.tok);
        self.sh.register(&r.tok, &sb);
        let script = Script { c: r.c, exe: r.exe.clone(), ver: r.ver.clone(), publ: r.publ.clone() };
        if main {
            self.sh.scripts.lock().unwrap().insert(bid(sb.entity.id()), script);
        } else {
            // a concurrent attempt on the very block in flight must not replace that request's script
            self.sh.scripts.lock().unwrap().entry(bid(sb.entity.id())).or_insert(script);
        }
        let imp = self.importer.clone();
        if r.kind == "commit" {
            let changes = exec_changes(&self.sh, &r.exe);
            let unc = UncommittedResult::new(ImportResult::new_from_local(sb, vec![], vec![]), changes);
            Box::pin(async move {
                match imp.commit_result(unc).await {
                    Ok(()) => "Ok".to_string(),
                    Err(e) => err_kind(&e),
                }
            })
        } else {
            Box::pin(async move {
                match imp.execute_and_commit(sb).await {
                    Ok(()) => "Ok".to_string(),
                    Err(e) => err_kind(&e),
                }
            })
        }
    }

    /// A second request while the first one is parked in a port call: poll it once.
    fn attempt(&self, r: &ReqSpec, tag: u8, pending: &mut Vec<(i64, tokio::runtime::Runtime, ReqFut)>) {
        let prev_c = self.sh.c();
        let rt = paused_rt();
        let mut fut = self.call(r, false);
        let first = rt.block_on(std::future::poll_fn(|cx| Poll::Ready(fut.as_mut().poll(cx))));
        let mut ev = r.json();
        let o = ev.as_object_mut().unwrap();
        match first {
            Poll::Ready(res) if res == "Err:Semaphore" => {
                o.insert("res".into(), json!(res));
                o.insert("db".into(), self.sh.project());
                o.insert("dv".into(), json!(self.sh.dv()));
                self.sh.push(tag, "Lock", ev);
            }
            Poll::Ready(res) => {
                o.insert("res".into(), json!("Ok"));
                self.sh.push(tag, "Lock", ev);
                self.sh.push(tag, "Return", json!({"c": r.c, "res": res, "db": self.sh.project(), "dv": self.sh.dv()}));
            }
            Poll::Pending => {
                // it got past the lock and now waits for the worker
                o.insert("res".into(), json!("Ok"));
                self.sh.push(tag, "Lock", ev);
                pending.push((r.c, rt, fut));
            }
        }
        self.sh.cur_c.store(prev_c, Ordering::SeqCst);
    }

    fn request(&self, t: &mut Trace, r: &ReqSpec, during: &[(String, ReqSpec)]) {
        let sh = &self.sh;
        sh.cur_c.store(r.c, Ordering::SeqCst);
        sh.cur_exec.store(if r.kind == "exec" { 1 } else { 0 }, Ordering::SeqCst);
        {
            let mut g = sh.gate.lock().unwrap();
            *g = Gate::default();
            for d in during {
                if !g.stops.contains(&d.0) {
                    g.stops.push(d.0.clone());
                }
            }
        }
        let fut = self.call(r, true);
        let sh2 = sh.clone();
        let client = std::thread::spawn(move || {
            let rt = paused_rt();
            let res = rt.block_on(fut);
            let mut g = sh2.gate.lock().unwrap();
            g.done = true;
            sh2.cv.notify_all();
            res
        });
        let mut pending = vec![];
        loop {
            let mut g = sh.gate.lock().unwrap();
            while g.arrived.is_empty() && !g.done {
                g = sh.cv.wait(g).unwrap();
            }
            if g.arrived.is_empty() {
                // the call returned: nothing may park any more (a wrongly admitted second request may
                // still be served by the worker)
                g.stops.clear();
                break;
            }
            let at = g.arrived.remove(0);
            drop(g);
            let tag = sh.tag(&at);
            for d in during.iter().filter(|d| d.0 == at) {
                self.attempt(&d.1, tag, &mut pending);
            }
            let mut g = sh.gate.lock().unwrap();
            g.released.push(at);
            sh.cv.notify_all();
        }
        let res = client.join().unwrap_or_else(|_| "Panic".to_string());
        sh.cur_c.store(r.c, Ordering::SeqCst);
        sh.drain();
        let mut ev = r.json();
        let o = ev.as_object_mut().unwrap();
        if res == "Err:Semaphore" {
            o.insert("res".into(), json!(res));
            o.insert("db".into(), sh.project());
            o.insert("dv".into(), json!(sh.dv()));
            sh.push(0, "Lock", ev);
        } else {
            o.insert("res".into(), json!("Ok"));
            sh.push(0, "Lock", ev);
            sh.push(4, "Return", json!({"c": r.c, "res": res, "db": sh.project(), "dv": sh.dv()}));
        }
        for (c, rt, fut) in pending {
            let res = rt.block_on(fut);
            sh.cur_c.store(c, Ordering::SeqCst);
            sh.drain();
            sh.push(4, "Return", json!({"c": c, "res": res, "db": sh.project(), "dv": sh.dv()}));
        }
        self.flush(t);
    }

    fn flush(&self, t: &mut Trace) {
        let mut b = std::mem::take(&mut *self.sh.buf.lock().unwrap());
        b.sort_by_key(|e| e.0); // stable: program order inside one branch is kept
        for (_, ev, v) in b {
            t.event(&ev, v);
        }
    }

    fn seed(&self, t: &mut Trace, what: &str, x: i64) {
        let mut d = self.sh.view.clone();
        let res = match what {
            "cons" => d
                .storage_as_mut::<SealedBlockConsensus>()
                .insert(&(x as u32).into(), &Consensus::PoA(PoAConsensus::default()))
                .map(|_| ()),
            _ => {
                let tx = mk_tx(x);
                let id = tx.id(&chain_id());
                self.sh.txs.lock().unwrap().insert(*id, x);
                d.storage_as_mut::<Transactions>().insert(&id, &tx).map(|_| ())
            }
        };
        let res = if res.is_ok() { "Ok" } else { "Err" };
        t.event("Seed", json!({"what": what, "x": x, "res": res, "db": self.sh.project(), "dv": self.sh.dv()}));
    }

    fn release(&self, t: &mut Trace) {
        self.sh.drain();
        self.flush(t);
        self.sh.held.lock().unwrap().clear();
        t.event("Release", json!({}));
    }
}

fn step(n: &Node, t: &mut Trace, s: &Map<String, Value>) -> Option<String> {
    match s.name() {
        "Req" => {
            let r = ReqSpec::from(s);
            let during: Vec<(String, ReqSpec)> = s
                .get("during")
                .and_then(|d| d.as_array())
                .map(|a| {
                    a.iter()
                        .filter_map(|d| d.as_object())
                        .map(|d| (d.str_("at").to_string(), ReqSpec::from(d)))
                        .collect()
                })
                .unwrap_or_default();
            n.request(t, &r, &during);
            None
        }
        "Seed" => {
            n.seed(t, s.str_("what"), s.int("x"));
            None
        }
        "Release" => {
            n.release(t);
            None
        }
        "Subscribe" => {
            let id = s.int("s") as usize;
            n.subscribe(id);
            t.event("Subscribe", json!({"s": id}));
            None
        }
        other => Some(other.to_string()),
    }
}

fn run(args: &Args) {
    let walks = read_walks(args.req("walks"));
    let buf = args.num("buf", 2) as usize;
    let nsubs = args.num("subs", 3) as usize;
    let mut t = Trace::create(args.req("out"));
    for w in walks {
        t.reset(w.id, json!({}));
        let n = Node::new(buf, nsubs);
        for s in &w.steps {
            if let Some(bad) = step(&n, &mut t, s) {
                die(&format!("unknown action {bad}"));
            }
        }
    }
    t.finish();
}

/// Seeded driver: request sequences with correct, duplicate, skipped, stale and tampered blocks, injected
/// verifier / executor / publisher failures, transaction ids reused across blocks, stray records in the
/// empty database, full notification buffers and concurrent attempts.  The driver looks at results only to
/// choose the next inputs.
fn random(args: &Args) {
    let nwalks = args.num("walks", 100);
    let len = args.num("len", 14);
    let buf = args.num("buf", 2) as usize;
    let nsubs = args.num("subs", 3) as usize;
    let maxh = args.num("maxh", 8) as i64;
    let ntx = args.num("ntx", 6) as i64;
    let mut rng = Rng::new(env_seed() ^ 0x08_08);
    let mut t = Trace::create(args.req("out"));
    let gates = ["ReadHeight", "StoreNew", "Verify", "Execute", "CheckRoot", "Publish", "DbCommit"];
    for wid in 0..nwalks {
        t.reset(wid as i64, json!({}));
        let n = Node::new(buf, nsubs);
        let mut latest: i64 = -1;
        let mut last: Option<Tok> = None;
        let mut used: Vec<i64> = vec![];
        let mut sub3 = false;
        let mut unreleased = 0;
        let mut seeded: Vec<(&str, i64)> = vec![];
        for _ in 0..len {
            let roll = rng.below(100);
            if latest < 0 && roll < 12 {
                let (what, x) = if rng.chance(1, 2) { ("cons", rng.range(0, 2)) } else { ("tx", rng.range(1, ntx)) };
                if !seeded.contains(&(what, x)) {
                    seeded.push((what, x));
                    n.seed(&mut t, what, x);
                }
                continue;
            }
            if roll < 20 && (unreleased > 0 || roll < 3) {
                n.release(&mut t);
                unreleased = 0;
                continue;
            }
            if !sub3 && nsubs >= 3 && roll < 24 {
                n.subscribe(3);
                t.event("Subscribe", json!({"s": 3}));
                sub3 = true;
                continue;
            }
            // choose the block
            let fresh: Vec<i64> = (1..=ntx).filter(|x| !used.contains(x)).collect();
            let pick_txs = |rng: &mut Rng, dup: bool| -> Vec<i64> {
                let mut v = vec![];
                if !fresh.is_empty() && rng.chance(3, 4) {
                    v.push(*rng.pick(&fresh));
                }
                if dup && !used.is_empty() {
                    v.push(*rng.pick(&used));
                } else if dup {
                    v.push(rng.range(1, ntx));
                }
                v.sort();
                v.dedup();
                v
            };
            let shape = rng.below(100);
            let mut tok = if latest < 0 {
                // empty database: genesis mostly, sometimes a PoA block
                let k = if shape < 75 { "G" } else { "P" };
                Tok { h: rng.range(0, 2), k: k.to_string(), txs: pick_txs(&mut rng, shape % 7 == 0) }
            } else if shape < 55 {
                Tok { h: latest + 1, k: "P".to_string(), txs: pick_txs(&mut rng, false) }
            } else if shape < 63 {
                last.clone().unwrap_or(Tok { h: latest, k: "P".to_string(), txs: vec![] }) // duplicate
            } else if shape < 70 {
                Tok { h: latest + 2, k: "P".to_string(), txs: pick_txs(&mut rng, false) } // skipped
            } else if shape < 77 {
                Tok { h: rng.range(0, latest), k: "P".to_string(), txs: pick_txs(&mut rng, false) } // stale
            } else if shape < 88 {
                Tok { h: latest + 1, k: "P".to_string(), txs: pick_txs(&mut rng, true) } // reused transaction
            } else if shape < 94 {
                Tok { h: latest + 1, k: "G".to_string(), txs: pick_txs(&mut rng, false) } // genesis again
            } else {
                Tok { h: 0, k: "P".to_string(), txs: vec![] }
            };
            if tok.h > maxh {
                tok.h = maxh;
            }
            let kind = if tok.k == "G" || rng.chance(1, 2) { "commit" } else { "exec" };
            let kind = if tok.k == "G" && rng.chance(1, 6) { "exec" } else { kind };
            let fault = rng.below(100);
            let (exe, ver, publ) = if kind == "commit" {
                match fault {
                    0..=69 => ("clean", "ok", "ok"),
                    70..=79 => ("touch", "ok", "ok"),
                    80..=89 => ("same", "ok", "ok"),
                    _ => ("clean", "ok", "err"),
                }
            } else {
                match fault {
                    0..=59 => ("clean", "ok", "ok"),
                    60..=69 => ("touch", "ok", "ok"),
                    70..=77 => ("same", "ok", "ok"),
                    78..=88 => ("err", "ok", "ok"),
                    89..=96 => ("clean", "err", "ok"),
                    _ => ("err", "err", "ok"),
                }
            };
            let c = 1 + rng.below(2) as i64;
            let r = ReqSpec { c, kind: kind.to_string(), tok: tok.clone(), exe: exe.to_string(), ver: ver.to_string(), publ: publ.to_string() };
            let mut during = vec![];
            if rng.chance(3, 10) {
                let k = 1 + rng.below(2);
                let mut ats: Vec<usize> = (0..k).map(|_| rng.below(gates.len() as u64) as usize).collect();
                ats.sort();
                for a in ats {
                    let other = ReqSpec {
                        c: 3 - c,
                        kind: if rng.chance(1, 2) { "commit".to_string() } else { "exec".to_string() },
                        tok: Tok { h: latest + 1 + rng.range(0, 1), k: "P".to_string(), txs: vec![] },
                        exe: "clean".to_string(),
                        ver: "ok".to_string(),
                        publ: "ok".to_string(),
                    };
                    during.push((gates[a].to_string(), other));
                }
            }
            let before = n.sh.block_ids().len();
            n.request(&mut t, &r, &during);
            if n.sh.block_ids().len() > before {
                latest = tok.h;
                used.extend(tok.txs.iter().copied());
                last = Some(tok);
                unreleased += 1;
            }
        }
    }
    t.finish();
}

fn main() {
    let args = Args::parse();
    match args.mode.as_str() {
        "run" => run(&args),
        "random" => random(&args),
        m => die(&format!("unknown mode {m}")),
    }
}
