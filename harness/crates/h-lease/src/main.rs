//! C25 harness: REAL `RedisLeaderLeaseAdapter` instances (one per sequencer replica) talking over
//! localhost TCP to the fake Redis nodes of `h-fakeredis`, which execute the adapter's REAL Lua
//! scripts.  A thin driver mirrors the production step of PoA `MainTask` + importer
//! (leader_state -> import reconciled blocks | produce -> publish -> local commit; a failed
//! production is followed by release()).
//!
//! The harness asserts nothing.  It executes TLC walks (`run`) or seeded chaos (`random`) and
//! writes the event log: one `rpc` record per resolved script request (logged by the node under
//! its lock, with the node's state), plus the driver's own records, all ordered by the nodes'
//! global sequence counter.  TLC judges the log against Trace_LeaderLease.

use fuel_core::service::adapters::consensus_module::poa::RedisLeaderLeaseAdapter;
use fuel_core_importer::ports::BlockReconciliationWritePort;
use fuel_core_poa::ports::{BlockReconciliationReadPort, LeaderState};
use fuel_core_types::{
    blockchain::{SealedBlock, block::Block, consensus::Consensus},
    tai64::Tai64,
};
use h_common::*;
use h_fakeredis::{ClientId, Cluster, ExecInfo, Fate, Mode, PendingInfo, Projector, Resp, ScriptCall, Store};
use serde_json::{Map, Value};
use std::{
    collections::HashMap,
    sync::{Arc, Mutex, mpsc},
    time::Duration,
};

const LEASE_KEY: &str = "L";
const EPOCH_KEY: &str = "L:epoch:token";
const STREAM_KEY: &str = "L:block:stream";
const SCRIPT_SUBDIR: &str = "crates/fuel-core/redis_leader_lease_adapter_scripts";
/// the scripts are read from the tree the adapter was built from (VERIF_REPO, default /repo)
fn script_dir() -> String {
    format!("{}/{}", std::env::var("VERIF_REPO").unwrap_or_else(|_| "/repo".to_string()), SCRIPT_SUBDIR)
}
const SCRIPTS: [(&str, &str); 6] = [
    ("check_lease_owner", "check"),
    ("release_lock", "release"),
    ("promote_leader", "promote"),
    ("read_latest_stream_entry", "latest"),
    ("read_stream_entries", "entries"),
    ("write_block", "write"),
];
const TIME_BASE: u64 = 1_000_000;
const WAIT: Duration = Duration::from_secs(8);

fn node_name(i: usize) -> String {
    format!("n{}", i + 1)
}
fn node_idx(s: &str) -> usize {
    s.trim_start_matches('n').parse::<usize>().unwrap_or_else(|_| die(&format!("bad node name {s}"))) - 1
}
fn kind_of(script: &str) -> &'static str {
    SCRIPTS.iter().find(|(n, _)| *n == script).map(|(_, k)| *k).unwrap_or("?")
}

// ------------------------------------------------------------------ blocks
fn replica_index(r: &str) -> u64 {
    (r.as_bytes().first().copied().unwrap_or(b'A') - b'A') as u64 + 1
}
fn make_block(r: &str, k: u64, height: u32) -> SealedBlock {
    let mut block = Block::default();
    block.header_mut().set_block_height(height.into());
    block.header_mut().set_time(Tai64(TIME_BASE + replica_index(r) * 1000 + k));
    block.header_mut().recalculate_metadata();
    SealedBlock { entity: block, consensus: Consensus::PoA(Default::default()) }
}
/// abstract name of a block: producer and per-producer counter, recovered from the header time
fn block_name(b: &SealedBlock) -> Value {
    let t = b.entity.header().time().0;
    if t > TIME_BASE && t < TIME_BASE + 27_000 {
        let x = t - TIME_BASE;
        let p = ((b'A' + (x / 1000 - 1) as u8) as char).to_string();
        json!({"p": p, "k": x % 1000})
    } else {
        json!({"p": "?", "k": 0})
    }
}
fn block_name_of_bytes(data: &[u8]) -> Value {
    match postcard::from_bytes::<SealedBlock>(data) {
        Ok(b) => block_name(&b),
        Err(_) => json!({"p": "?", "k": 0}),
    }
}
fn hb(b: &SealedBlock) -> Value {
    json!({"h": u32::from(*b.entity.header().height()), "b": block_name(b)})
}

// ------------------------------------------------------------------ projection
/// Builds the abstract log records from the raw requests/replies/stores of the fake nodes.
struct Proj {
    /// lease owner token (the adapter's private UUID) -> replica incarnation, learned from traffic
    owners: Mutex<HashMap<Vec<u8>, ClientId>>,
    max_held: usize,
}
fn num(b: &[u8]) -> i64 {
    std::str::from_utf8(b).ok().and_then(|s| s.parse().ok()).unwrap_or(-1)
}
fn rep(t: &str, v: i64, es: Vec<Value>) -> Value {
    json!({"t": t, "v": v, "es": es})
}
impl Proj {
    fn owner(&self, uuid: Option<&Vec<u8>>) -> Value {
        match uuid {
            None => json!({"r": "none", "i": 0}),
            Some(u) => match self.owners.lock().unwrap().get(u) {
                Some(c) => json!({"r": c.r, "i": c.i}),
                None => json!({"r": "?", "i": 0}),
            },
        }
    }
    fn state(&self, store: &Store) -> Value {
        let lock = self.owner(store.strings.get(LEASE_KEY.as_bytes()).map(|v| &v.val));
        let epoch = store.strings.get(EPOCH_KEY.as_bytes()).map(|v| num(&v.val)).unwrap_or(0);
        let mut stream = Vec::new();
        if let Some(s) = store.streams.get(STREAM_KEY.as_bytes()) {
            for e in &s.entries {
                let f = |k: &str| e.fields.iter().find(|(a, _)| a == k.as_bytes()).map(|(_, v)| v.clone());
                stream.push(json!({
                    "h": f("height").map(|v| num(&v)).unwrap_or(-1),
                    "b": f("data").map(|d| block_name_of_bytes(&d)).unwrap_or(json!({"p": "?", "k": 0})),
                    "e": f("epoch").map(|v| num(&v)).unwrap_or(0),
                }));
            }
        }
        json!({"lock": lock, "epoch": epoch, "stream": stream})
    }
    /// the script's reply as the adapter interprets it
    fn result(&self, kind: &str, r: &Resp) -> Value {
        let err_has = |needle: &str| matches!(r, Resp::Error(m) if m.contains(needle));
        match kind {
            "check" | "release" => match r {
                Resp::Int(1) => rep("1", 0, vec![]),
                Resp::Int(_) => rep("0", 0, vec![]),
                _ => rep("fail", 0, vec![]),
            },
            "promote" => match r {
                Resp::Int(v) => rep("tok", *v, vec![]),
                _ if err_has("LOCK_HELD:") => rep("held", 0, vec![]),
                _ => rep("fail", 0, vec![]),
            },
            "latest" => match r {
                Resp::Array(a) if a.len() == 2 => match &a[0] {
                    Resp::Bulk(h) => rep("h", num(h), vec![]),
                    _ => rep("fail", 0, vec![]),
                },
                Resp::Array(_) => rep("none", 0, vec![]),
                _ => rep("fail", 0, vec![]),
            },
            "entries" => match r {
                Resp::Array(a) => {
                    let mut es = Vec::new();
                    for x in a {
                        if let Resp::Array(t) = x {
                            if let (Some(Resp::Int(h)), Some(Resp::Int(e)), Some(Resp::Bulk(d))) = (t.first(), t.get(1), t.get(2)) {
                                es.push(json!({"h": h, "b": block_name_of_bytes(d), "e": e}));
                                continue;
                            }
                        }
                        return rep("fail", 0, vec![]);
                    }
                    rep("es", 0, es)
                }
                _ => rep("fail", 0, vec![]),
            },
            "write" => match r {
                Resp::Bulk(_) => rep("W", 0, vec![]),
                _ if err_has("HEIGHT_EXISTS:") => rep("HE", 0, vec![]),
                _ if err_has("FENCING_ERROR:") => rep("FE", 0, vec![]),
                _ => rep("fail", 0, vec![]),
            },
            _ => rep("fail", 0, vec![]),
        }
    }
    fn request(&self, call: &ScriptCall) -> (&'static str, i64, i64, Value) {
        let kind = kind_of(&call.name);
        let none = json!({"p": "none", "k": 0});
        match kind {
            "write" if call.args.len() >= 4 => (kind, num(&call.args[0]), num(&call.args[2]), block_name_of_bytes(&call.args[3])),
            "entries" if !call.args.is_empty() => (kind, 0, num(&call.args[0]), none),
            _ => (kind, 0, 0, none),
        }
    }
}
impl Projector for Proj {
    fn rpc(&self, i: &ExecInfo) -> Value {
        let kind = kind_of(&i.call.name);
        // learn which adapter incarnation a lease owner token belongs to
        let tok = match kind {
            "check" | "release" | "promote" => i.call.args.first(),
            "write" => i.call.args.get(1),
            _ => None,
        };
        if let Some(t) = tok {
            self.owners.lock().unwrap().entry(t.clone()).or_insert_with(|| i.client.clone());
        }
        let (k, ep, h, b) = self.request(i.call);
        let xres = i.reply.map(|r| self.result(kind, r)).unwrap_or_else(|| rep("fail", 0, vec![]));
        let res = if i.fate == Fate::Ok && !i.late { xres.clone() } else { rep("fail", 0, vec![]) };
        json!({
            "r": i.client.r, "i": i.client.i, "n": node_name(i.node), "k": k, "ep": ep, "h": h, "b": b,
            "f": i.fate.name(), "late": i.late, "res": res, "xres": xres, "st": self.state(i.store),
        })
    }
    fn node_state(&self, _n: usize, store: &Store) -> Value {
        self.state(store)
    }
    fn adjust_fate(&self, call: &ScriptCall, fate: Fate, held: usize) -> Fate {
        let kind = kind_of(&call.name);
        match fate {
            // only a write is worth keeping in flight; reads have no effect; nothing is held above the cap
            Fate::Hold if kind != "write" || held >= self.max_held => Fate::Drop,
            Fate::Lost if matches!(kind, "check" | "latest" | "entries") => Fate::Drop,
            f => f,
        }
    }
}

// ------------------------------------------------------------------ replica threads
enum Cmd {
    LeaderState(u32),
    Publish(Box<SealedBlock>),
    Release,
    Quit,
}
enum Ret {
    Leader(Result<LeaderState, String>),
    Publish(Result<(), String>),
    Release(Result<(), String>),
}
struct Replica {
    name: String,
    inc: u32,
    tx: mpsc::Sender<Cmd>,
    rx: mpsc::Receiver<Ret>,
    /// an adapter call is in flight
    busy: bool,
    /// requests with a smaller id belong to earlier calls (stragglers)
    call_first_id: u64,
    done: Option<Ret>,
    chain: Vec<Value>,
    made: u64,
    /// what the last finished call left to do
    todo: Todo,
}
#[derive(Clone)]
enum Todo {
    None,
    Produce(u32),
    Commit(Box<SealedBlock>),
    Import(Vec<SealedBlock>),
}

fn spawn_replica(cl: &Arc<Cluster>, name: &str, inc: u32, budget: u32, chain: Vec<Value>, made: u64) -> Replica {
    let client = ClientId { r: name.to_string(), i: inc };
    let urls: Vec<String> = (0..cl.node_count()).map(|n| format!("redis://127.0.0.1:{}/", cl.listen(n, client.clone()))).collect();
    let (tx, crx) = mpsc::channel::<Cmd>();
    let (rtx, rx) = mpsc::channel::<Ret>();
    let cl2 = cl.clone();
    std::thread::spawn(move || {
        // Every RPC outcome (reply, error, "timeout") is decided by the scenario, never by the wall
        // clock: the runtime's clock is paused and - because a blocking task is kept parked for
        // the life of the replica, which inhibits tokio's auto-advance - never moves, so neither
        // the adapter's node_timeout nor the redis crate's built-in 500 ms response / 1 s
        // connection timeouts of multiplexed connections can fire while a request waits at a
        // fake node for its fate.
        let rt = tokio::runtime::Builder::new_current_thread().enable_all().start_paused(true).build().expect("tokio runtime");
        let (park_tx, park_rx) = mpsc::channel::<()>();
        rt.spawn_blocking(move || {
            let _ = park_rx.recv();
        });
        let adapter = RedisLeaderLeaseAdapter::new(
            urls,
            LEASE_KEY.to_string(),
            Duration::from_secs(3600),
            Duration::from_secs(60),
            Duration::from_millis(0),
            Duration::from_millis(0),
            1,
            1000,
        )
        .expect("adapter")
        .with_quorum_disruption_budget(budget);
        while let Ok(cmd) = crx.recv() {
            let ret = match cmd {
                Cmd::LeaderState(h) => Ret::Leader(rt.block_on(adapter.leader_state(h.into())).map_err(|e| format!("{e:#}"))),
                Cmd::Publish(b) => Ret::Publish(adapter.publish_produced_block(&b).map_err(|e| format!("{e:#}"))),
                Cmd::Release => Ret::Release(rt.block_on(adapter.release()).map_err(|e| format!("{e:#}"))),
                Cmd::Quit => break,
            };
            if rtx.send(ret).is_err() {
                break;
            }
            cl2.notify();
        }
        // a crash / the end of a walk: no graceful lease release (Drop would try one)
        std::mem::forget(adapter);
        drop(park_tx);
        cl2.notify();
    });
    Replica { name: name.to_string(), inc, tx, rx, busy: false, call_first_id: 0, done: None, chain, made, todo: Todo::None }
}

// ------------------------------------------------------------------ the rig
struct Rig {
    cl: Arc<Cluster>,
    reps: Vec<Replica>,
    budget: u32,
    /// the walk cannot be followed any further: the adapter hung (recorded as an `unexpected`
    /// event) or legitimately took another turn than the walk (e.g. reply arrival order); what it
    /// did is in the log either way and the trace spec judges it
    broken: bool,
}

impl Rig {
    fn new(replicas: &[String], nodes: usize, budget: u32, mode: Mode, max_held: usize) -> Rig {
        let cl = Cluster::new(nodes, Box::new(Proj { owners: Mutex::new(HashMap::new()), max_held }));
        for (file, _) in SCRIPTS {
            let text = std::fs::read(format!("{}/{file}.lua", script_dir())).unwrap_or_else(|e| die(&format!("{file}.lua: {e}")));
            cl.register_script(file, &text);
        }
        cl.set_mode(mode);
        let reps = replicas.iter().map(|r| spawn_replica(&cl, r, 0, budget, Vec::new(), 0)).collect();
        Rig { cl, reps, budget, broken: false }
    }
    fn idx(&self, r: &str) -> usize {
        self.reps.iter().position(|x| x.name == r).unwrap_or_else(|| die(&format!("unknown replica {r}")))
    }
    fn client(&self, ri: usize) -> ClientId {
        ClientId { r: self.reps[ri].name.clone(), i: self.reps[ri].inc }
    }
    /// waiting requests of the replica's CURRENT call (stragglers of earlier calls excluded)
    fn pending_of(&self, ri: usize) -> Vec<PendingInfo> {
        let c = self.client(ri);
        let first = self.reps[ri].call_first_id;
        self.cl.pending().into_iter().filter(|p| p.client == c && p.id >= first).collect()
    }
    fn truncate(&mut self) {
        self.broken = true;
    }
    /// Wait for the replica's call to return and log it (used before replica-local actions).
    fn await_done(&mut self, ri: usize) -> bool {
        if !self.reps[ri].busy {
            return true;
        }
        let cl = self.cl.clone();
        let ok = cl.wait_until(Duration::from_secs(2), || {
            self.poll(ri);
            self.reps[ri].done.is_some()
        });
        if ok {
            self.settle(ri);
        }
        ok && !self.reps[ri].busy
    }
    fn unexpected(&mut self, why: String) {
        if !self.broken {
            self.cl.log_event("unexpected", json!({"why": why}));
        }
        self.broken = true;
    }
    fn poll(&mut self, ri: usize) {
        if self.reps[ri].busy && self.reps[ri].done.is_none() {
            if let Ok(r) = self.reps[ri].rx.try_recv() {
                self.reps[ri].done = Some(r);
            }
        }
    }
    fn start_call(&mut self, ri: usize, cmd: Cmd) {
        let first = self.cl.peek_next_id();
        let r = &mut self.reps[ri];
        r.busy = true;
        r.done = None;
        r.call_first_id = first;
        let _ = r.tx.send(cmd);
    }

    /// Wait until the call of replica `ri` has finished or shows new requests; if it finished,
    /// log its `ret` record and follow the production loop (a failed publication is followed by
    /// release()).  Returns when the replica is quiescent: idle or waiting for RPC resolutions.
    fn settle(&mut self, ri: usize) {
        loop {
            if !self.reps[ri].busy {
                return;
            }
            let c = self.client(ri);
            let first = self.reps[ri].call_first_id;
            let cl = self.cl.clone();
            let rx_ready = {
                // cond: call finished OR requests of this replica are waiting
                let mut finished = false;
                let ok = cl.wait_until(WAIT, || {
                    if self.reps[ri].done.is_none() {
                        if let Ok(r) = self.reps[ri].rx.try_recv() {
                            self.reps[ri].done = Some(r);
                        }
                    }
                    finished = self.reps[ri].done.is_some();
                    finished || cl.pending().iter().any(|p| p.client == c && p.id >= first)
                });
                if !ok {
                    self.unexpected(format!("replica {} neither returned nor sent requests", self.reps[ri].name));
                    return;
                }
                finished
            };
            if !rx_ready {
                return;
            }
            let ret = self.reps[ri].done.take().unwrap();
            self.reps[ri].busy = false;
            let name = self.reps[ri].name.clone();
            match ret {
                Ret::Leader(res) => {
                    let next = self.reps[ri].chain.len() as u32 + 1;
                    let (tag, blocks, todo, err) = match res {
                        Ok(LeaderState::ReconciledFollower) => ("follower", vec![], Todo::None, String::new()),
                        Ok(LeaderState::ReconciledLeader) => ("leader", vec![], Todo::Produce(next), String::new()),
                        Ok(LeaderState::UnreconciledBlocks(bs)) => ("unrec", bs.iter().map(hb).collect(), Todo::Import(bs), String::new()),
                        Err(e) => ("err", vec![], Todo::None, e),
                    };
                    self.reps[ri].todo = todo;
                    self.cl.log_event("ret", json!({"r": name, "call": "leader", "res": tag, "blocks": blocks, "err": err}));
                    return;
                }
                Ret::Publish(res) => {
                    let ok = res.is_ok();
                    self.cl.log_event("ret", json!({"r": name, "call": "publish", "res": if ok { "pubok" } else { "puberr" }, "blocks": [], "err": res.err().unwrap_or_default()}));
                    if ok {
                        return; // todo stays Commit(block)
                    }
                    // MainTask::handle_normal_block_production: release the lease on production failure
                    self.reps[ri].todo = Todo::None;
                    self.start_call(ri, Cmd::Release);
                }
                Ret::Release(res) => {
                    self.cl.log_event("ret", json!({"r": name, "call": "release", "res": if res.is_ok() { "relok" } else { "relerr" }, "blocks": [], "err": res.err().unwrap_or_default()}));
                    return;
                }
            }
        }
    }

    // ---- driver actions (each mirrors one action of the spec) --------------------------------
    fn start(&mut self, ri: usize) {
        if !self.await_done(ri) || !matches!(self.reps[ri].todo, Todo::None) {
            return self.truncate();
        }
        let next = self.reps[ri].chain.len() as u32 + 1;
        self.cl.log_event("start", json!({"r": self.reps[ri].name, "next": next}));
        self.start_call(ri, Cmd::LeaderState(next));
        self.settle(ri);
    }
    fn stepdown(&mut self, ri: usize) {
        if !self.await_done(ri) || !matches!(self.reps[ri].todo, Todo::None) {
            return self.truncate();
        }
        self.cl.log_event("stepdown", json!({"r": self.reps[ri].name}));
        self.start_call(ri, Cmd::Release);
        self.settle(ri);
    }
    fn produce(&mut self, ri: usize) {
        self.await_done(ri);
        let Todo::Produce(h) = self.reps[ri].todo.clone() else {
            return self.truncate();
        };
        self.reps[ri].made += 1;
        let b = make_block(&self.reps[ri].name, self.reps[ri].made, h);
        self.cl.log_event("produce", json!({"r": self.reps[ri].name, "h": h, "b": block_name(&b)}));
        self.reps[ri].todo = Todo::Commit(Box::new(b.clone()));
        self.start_call(ri, Cmd::Publish(Box::new(b)));
        self.settle(ri);
    }
    fn commit(&mut self, ri: usize) {
        let done = self.await_done(ri);
        let Todo::Commit(b) = self.reps[ri].todo.clone() else {
            return self.truncate();
        };
        if !done {
            return self.truncate();
        }
        self.reps[ri].chain.push(block_name(&b));
        self.reps[ri].todo = Todo::None;
        self.cl.log_event("commit", json!({"r": self.reps[ri].name, "chain": self.reps[ri].chain}));
    }
    fn import(&mut self, ri: usize) {
        self.await_done(ri);
        let Todo::Import(mut bs) = self.reps[ri].todo.clone() else {
            return self.truncate();
        };
        let b = bs.remove(0);
        // MainTask: blocks at or below the local height are skipped; execute_and_commit accepts
        // only the next height
        let h = u32::from(*b.entity.header().height());
        let applied = h as usize == self.reps[ri].chain.len() + 1;
        if applied {
            self.reps[ri].chain.push(block_name(&b));
        }
        self.reps[ri].todo = if bs.is_empty() { Todo::None } else { Todo::Import(bs) };
        self.cl.log_event("import", json!({"r": self.reps[ri].name, "h": h, "b": block_name(&b), "applied": applied, "chain": self.reps[ri].chain}));
    }
    fn crash(&mut self, ri: usize) {
        if !self.await_done(ri) {
            return self.truncate();
        }
        let old = self.client(ri);
        let _ = self.reps[ri].tx.send(Cmd::Quit);
        self.cl.kill_client(&old);
        let (name, inc, chain, made) = (self.reps[ri].name.clone(), self.reps[ri].inc + 1, self.reps[ri].chain.clone(), self.reps[ri].made);
        self.cl.log_event("crash", json!({"r": name, "i": inc}));
        self.reps[ri] = spawn_replica(&self.cl, &name, inc, self.budget, chain, made);
    }
    fn expire(&mut self, n: usize) {
        self.cl.expire(n, LEASE_KEY.as_bytes());
    }
    fn lose(&mut self, n: usize) {
        self.cl.wipe(n);
    }

    /// Resolve the waiting requests of replica `ri`'s current call on the nodes of `fates`.
    fn step(&mut self, ri: usize, kind: &str, fates: &[(usize, Fate)]) {
        let cl = self.cl.clone();
        let want: Vec<usize> = fates.iter().map(|(n, _)| *n).collect();
        let mut finished = false;
        let ok = cl.wait_until(WAIT, || {
            self.poll(ri);
            finished = self.reps[ri].done.is_some() || !self.reps[ri].busy;
            let p = self.pending_of(ri);
            finished || want.iter().all(|n| p.iter().any(|x| x.node == *n))
        });
        let pend = self.pending_of(ri);
        let have_all = want.iter().all(|n| pend.iter().any(|x| x.node == *n && kind_of(&x.call.name) == kind));
        if !ok {
            return self.unexpected(format!("Step({}, {kind}): the adapter neither returned nor sent the expected requests", self.reps[ri].name));
        }
        if !have_all {
            // the adapter took another turn than the walk: stop following, the log tells what it did
            self.settle(ri);
            return self.truncate();
        }
        for (n, f) in fates {
            let p = pend.iter().find(|p| p.node == *n).unwrap();
            self.cl.resolve(p.node, p.id, *f);
        }
        self.settle(ri);
    }
    /// A request whose caller has gone on (held by a `hold` fate, or a straggler of a publish
    /// that returned at quorum) executes now (`exec`) or is dropped for good.
    fn late(&mut self, n: usize, q: &Map<String, Value>, exec: bool) {
        let o = q.get("o").and_then(|o| o.as_object()).cloned().unwrap_or_default();
        let want = ClientId { r: o.get("r").and_then(|v| v.as_str()).unwrap_or("").to_string(), i: o.get("i").and_then(|v| v.as_u64()).unwrap_or(0) as u32 };
        let kind = q.get("k").and_then(|v| v.as_str()).unwrap_or("");
        let (h, ep) = (q.get("h").and_then(|v| v.as_i64()).unwrap_or(0), q.get("ep").and_then(|v| v.as_i64()).unwrap_or(0));
        let bname = q.get("b").cloned().unwrap_or(Value::Null);
        let matches = |p: &PendingInfo| {
            p.node == n && p.client == want && kind_of(&p.call.name) == kind
                && (kind != "write" || (num(&p.call.args[2]) == h && num(&p.call.args[0]) == ep && block_name_of_bytes(&p.call.args[3]) == bname))
        };
        if let Some(p) = self.cl.held().into_iter().find(|p| matches(p)) {
            if exec {
                self.cl.late_exec(p.node, p.id);
            } else {
                self.cl.drop_held(p.node, p.id);
            }
            return;
        }
        // a straggler: still waiting at the node although its call has returned
        let stragglers: Vec<PendingInfo> = self.cl.pending().into_iter().filter(|p| matches(p)).collect();
        let ri = self.reps.iter().position(|r| r.name == want.r && r.inc == want.i);
        let first = ri.map(|ri| self.reps[ri].call_first_id).unwrap_or(u64::MAX);
        match stragglers.into_iter().find(|p| p.id < first) {
            Some(p) => {
                self.cl.resolve(p.node, p.id, if exec { Fate::Lost } else { Fate::Drop });
            }
            None => self.truncate(),
        }
    }

    fn finish(mut self, t: &mut Trace) -> Vec<String> {
        // let unfinished calls run out: every waiting request is dropped, returns are logged
        for _ in 0..60 {
            let p = self.cl.pending();
            for x in &p {
                self.cl.resolve(x.node, x.id, Fate::Drop);
            }
            let mut busy = false;
            for ri in 0..self.reps.len() {
                if self.reps[ri].busy {
                    self.poll(ri);
                    if self.reps[ri].done.is_some() {
                        self.settle(ri);
                    }
                    busy |= self.reps[ri].busy;
                }
            }
            if !busy && self.cl.pending().is_empty() {
                break;
            }
            self.cl.wait_until(Duration::from_millis(25), || false);
        }
        let events = self.cl.take_log();
        let cut = events.iter().position(|e| e["ev"] == "unexpected").map(|p| p + 1).unwrap_or(events.len());
        for e in events.into_iter().take(cut) {
            if let Value::Object(mut m) = e {
                let ev = m.remove("ev").and_then(|v| v.as_str().map(|s| s.to_string())).unwrap_or_default();
                t.event(&ev, Value::Object(m));
            }
        }
        for r in &self.reps {
            let _ = r.tx.send(Cmd::Quit);
        }
        self.cl.shutdown();
        self.cl.tool_errors()
    }
}

fn fates_of(v: &Value) -> Vec<(usize, Fate)> {
    let mut out: Vec<(usize, Fate)> = v
        .as_object()
        .unwrap_or_else(|| die("Step without F"))
        .iter()
        .map(|(n, f)| (node_idx(n), Fate::parse(f.as_str().unwrap_or("")).unwrap_or_else(|| die("bad fate"))))
        .collect();
    out.sort_by_key(|x| x.0);
    out
}
fn kind_of_pc(pc: &str) -> &'static str {
    match pc {
        "check" => "check",
        "expand" | "acquire" => "promote",
        "relall" | "release" => "release",
        "latest" => "latest",
        "entries" => "entries",
        "repair" | "publish" => "write",
        _ => "?",
    }
}

/// `run`: execute TLC walks (coarse steps with fused local actions, or fine steps).
fn run(args: &Args) -> Vec<String> {
    let walks = read_walks(args.req("walks"));
    let budget = args.num("budget", 0) as u32;
    let nodes = args.num("nodes", 3) as usize;
    let replicas: Vec<String> = args.get("replicas").unwrap_or("A,B").split(',').map(|s| s.to_string()).collect();
    // test aid: let every step wait this long first (requests then wait at the fake nodes far
    // beyond the client library's built-in timeouts; the outcome must not change)
    let delay = Duration::from_millis(args.num("delay-ms", 0));
    let mut t = Trace::create(args.req("out"));
    let mut errs = Vec::new();
    for w in walks {
        t.reset(w.id, json!({}));
        let mut rig = Rig::new(&replicas, nodes, budget, Mode::Gated, usize::MAX);
        for s in &w.steps {
            if rig.broken {
                break;
            }
            if !delay.is_zero() {
                std::thread::sleep(delay);
            }
            match s.name() {
                "Start" => rig.start(rig.idx(s.str_("r"))),
                "StepDown" => rig.stepdown(rig.idx(s.str_("r"))),
                "Produce" => rig.produce(rig.idx(s.str_("r"))),
                "Commit" => rig.commit(rig.idx(s.str_("r"))),
                "Import" => rig.import(rig.idx(s.str_("r"))),
                "Crash" => rig.crash(rig.idx(s.str_("r"))),
                "Expire" => rig.expire(node_idx(s.str_("n"))),
                "LoseData" => rig.lose(node_idx(s.str_("n"))),
                "LateExec" | "DropLate" => rig.late(
                    node_idx(s.str_("n")),
                    s.get("q").and_then(|q| q.as_object()).unwrap_or_else(|| die("LateExec without q")),
                    s.name() == "LateExec",
                ),
                "Step" => {
                    let ri = rig.idx(s.str_("r"));
                    match s.get("pre").and_then(|v| v.as_str()).unwrap_or("") {
                        "Start" => rig.start(ri),
                        "StepDown" => rig.stepdown(ri),
                        "Produce" => rig.produce(ri),
                        _ => {}
                    }
                    if rig.broken {
                        break;
                    }
                    // a Produce without a fencing token fails before any RPC and goes on to release()
                    rig.step(ri, kind_of_pc(s.str_("pc")), &fates_of(s.get("F").unwrap_or(&Value::Null)));
                    if rig.broken {
                        break;
                    }
                    let post = s.get("post").and_then(|v| v.as_str()).unwrap_or("");
                    let nimp = s.get("nimp").and_then(|v| v.as_u64()).unwrap_or(0);
                    match post {
                        "Commit" => rig.commit(ri),
                        "Import" | "Crash" => {
                            for _ in 0..nimp {
                                if matches!(rig.reps[ri].todo, Todo::Import(_)) {
                                    rig.import(ri);
                                }
                            }
                            if post == "Crash" {
                                rig.crash(ri);
                            }
                        }
                        _ => {}
                    }
                }
                other => die(&format!("unknown action {other}")),
            }
        }
        errs.extend(rig.finish(&mut t));
    }
    t.finish();
    errs
}

/// `random`: seeded chaos.  Whole production steps of randomly chosen replicas with random
/// per-(replica, node) fates, interleaved with lease expiry, late execution of held writes,
/// crashes, stepdowns and budgeted data loss.
fn random(args: &Args) -> Vec<String> {
    let n_walks = args.num("walks", 50);
    let len = args.num("len", 30);
    let budget = args.num("budget", 0) as u32;
    let nodes = args.num("nodes", 3) as usize;
    let max_h = args.num("maxh", 4) as usize;
    let max_inc = args.num("maxinc", 3) as u32;
    let split = args.num("split", 0) == 1;
    let replicas: Vec<String> = args.get("replicas").unwrap_or("A,B").split(',').map(|s| s.to_string()).collect();
    let mut t = Trace::create(args.req("out"));
    let mut errs = Vec::new();
    let mut rng = Rng::new(env_seed() ^ 0xC25);
    for id in 0..n_walks {
        t.reset(id as i64, json!({}));
        let mut rig = Rig::new(&replicas, nodes, budget, Mode::Auto, 2);
        // personality of this walk: how hostile the network is
        let hostile = if split { rng.below(2) } else { rng.below(4) }; // 0 = calm .. 3 = very lossy
        // every third walk: standing asymmetric partitions (each replica cannot reach one node),
        // the setting in which orphaned sub-quorum writes, repair and blind successors meet
        let mut cut = vec![vec![false; nodes]; replicas.len()];
        if split {
            // --split 1: every replica reaches only its own share of the nodes (replica i the
            // nodes n with n mod #replicas = i): with an even node count two disjoint halves
            for (ri, c) in cut.iter_mut().enumerate() {
                for (n, x) in c.iter_mut().enumerate() {
                    *x = n % replicas.len() != ri;
                }
            }
        } else if budget == 0 && rng.below(3) == 0 {
            for c in cut.iter_mut() {
                c[rng.below(nodes as u64) as usize] = true;
            }
        }
        let mut lost_nodes: Vec<usize> = Vec::new();
        for _ in 0..len {
            if rig.broken {
                break;
            }
            let x = rng.below(100);
            if x < 62 {
                let ri = rng.below(rig.reps.len() as u64) as usize;
                if rig.reps[ri].chain.len() >= max_h {
                    continue;
                }
                production_step(&mut rig, ri, &mut rng, hostile, &cut);
            } else if x < 76 {
                let n = rng.below(nodes as u64) as usize;
                rig.expire(n);
            } else if x < 88 {
                let held = rig.cl.held();
                if !held.is_empty() {
                    let p = rng.pick(&held).clone();
                    rig.cl.late_exec(p.node, p.id);
                }
            } else if x < 92 {
                let ri = rng.below(rig.reps.len() as u64) as usize;
                if rig.reps[ri].inc < max_inc {
                    rig.crash(ri);
                }
            } else if x < 96 {
                let ri = rng.below(rig.reps.len() as u64) as usize;
                set_switches(&rig, ri, &mut rng, hostile, &cut);
                rig.stepdown(ri);
                rig.cl.clear_switches();
            } else {
                let n = rng.below(nodes as u64) as usize;
                if lost_nodes.contains(&n) || (lost_nodes.len() as u32) < budget {
                    if !lost_nodes.contains(&n) {
                        lost_nodes.push(n);
                    }
                    rig.lose(n);
                }
            }
        }
        errs.extend(rig.finish(&mut t));
    }
    t.finish();
    errs
}

fn set_switches(rig: &Rig, ri: usize, rng: &mut Rng, hostile: u64, cut: &[Vec<bool>]) {
    let c = rig.client(ri);
    // per node: a standing partition of this walk, sometimes a partition for the whole call,
    // otherwise independent fates per request
    for n in 0..rig.cl.node_count() {
        let partitioned = cut[ri][n] || rng.chance(hostile, 8);
        for _ in 0..12 {
            let f = if partitioned {
                Fate::Drop
            } else {
                // a held request is only kept for writes (see Proj::adjust_fate), so "hold" is
                // offered generously: late and straggling writes are what the property is about
                match rng.below(100) {
                    x if x < 100 - 14 * hostile => Fate::Ok,
                    x if x < 100 - 10 * hostile => Fate::Drop,
                    x if x < 100 - 6 * hostile => Fate::Lost,
                    _ => Fate::Hold,
                }
            };
            rig.cl.push_switch(&c, n, f);
        }
    }
}

/// One iteration of the production loop of replica `ri`, as MainTask + importer run it.
fn production_step(rig: &mut Rig, ri: usize, rng: &mut Rng, hostile: u64, cut: &[Vec<bool>]) {
    set_switches(rig, ri, rng, hostile, cut);
    rig.start(ri);
    match rig.reps[ri].todo.clone() {
        Todo::Produce(_) => {
            // a crash between the leader-state check and the production
            if rng.chance(1, 25) && rig.reps[ri].inc < 3 {
                rig.cl.clear_switches();
                return rig.crash(ri);
            }
            rig.produce(ri);
            if matches!(rig.reps[ri].todo, Todo::Commit(_)) {
                // a crash between publication and local commit
                if rng.chance(1, 12) && rig.reps[ri].inc < 3 {
                    rig.crash(ri);
                } else {
                    rig.commit(ri);
                }
            }
        }
        Todo::Import(bs) => {
            for _ in 0..bs.len() {
                if matches!(rig.reps[ri].todo, Todo::Import(_)) {
                    rig.import(ri);
                }
            }
        }
        _ => {}
    }
    rig.cl.clear_switches();
}

fn main() {
    let args = Args::parse();
    let errs = match args.mode.as_str() {
        "run" => run(&args),
        "random" => random(&args),
        m => die(&format!("unknown mode {m}")),
    };
    if !errs.is_empty() {
        // e.g. a Lua construct outside the interpreter's subset: a tool error, never a violation
        for e in errs.iter().take(5) {
            eprintln!("tool error: {e}");
        }
        std::process::exit(2);
    }
}
