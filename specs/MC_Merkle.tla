---------------------------- MODULE MC_Merkle ----------------------------
EXTENDS Merkle, Json
View == vars
EmitEdge == PrintT(<<"EDGE", ToJson([src |-> StateRec, act |-> act', dst |-> StateRec'])>>)
=============================================================================
