---------------------------- MODULE KVIter ----------------------------
(* C11 — every storage backend stores and iterates like a sorted map.                              *)
(*   crates/storage/src/iter.rs                  iterator()            -> MemIter   (BTreeMap reference) *)
(*   crates/fuel-core/src/state/in_memory/memory_store.rs  commit_changes / _insert_changes -> MemCommit *)
(*   crates/fuel-core/src/state/rocks_db.rs      _iter_store, reverse_prefix_iter, next_prefix -> RocksIter *)
(*                                               commit_changes / _populate_batch               -> RocksCommit *)
(*   crates/fuel-core/src/state/historical_rocksdb.rs  commit_changes (ChangesList merge)       -> HistCommit *)
(* `store` is what the backend holds (transcription); `m` is the ghost sorted-map model the property talks   *)
(* about; `Iter` is the oracle: the entries of a column with the prefix, at/after (forward) or at/before      *)
(* (reverse) the start key, in lexicographic byte order.                                                      *)
EXTENDS Integers, Sequences, FiniteSets, FiniteSetsExt, SequencesExt, TLC

CONSTANTS Bytes,       \* key alphabet (byte values)
          MaxLen,      \* keys are byte strings of length 0..MaxLen
          Cols,        \* column names
          Vals,        \* values (positive ints); 0 encodes "absent"/"remove"
          Backends,    \* subset of {"mem","rocks","hist-none","hist-full","hist-r1","hist-r2"}
          MaxOps,      \* MC enumeration only: operations per change set
          MaxList      \* MC enumeration only: change sets per list (0 = only single change sets)

Keys == UNION {[1..n -> Bytes] : n \in 0..MaxLen}
Min2(a, b) == IF a <= b THEN a ELSE b

(* ---- lexicographic byte order ---------------------------------------------------------------------------*)
Lt(a, b) ==
  \/ \E i \in 1..Min2(Len(a), Len(b)) : a[i] < b[i] /\ \A j \in 1..(i - 1) : a[j] = b[j]
  \/ Len(a) < Len(b) /\ \A j \in 1..Len(a) : a[j] = b[j]
Le(a, b) == a = b \/ Lt(a, b)
HasPrefix(k, p) == Len(p) <= Len(k) /\ \A i \in 1..Len(p) : k[i] = p[i]

\* a column's content: a functional set of <<key, value>>
Sorted(C) == SetToSortSeq(C, LAMBDA x, y : Lt(x[1], y[1]))
KeysSeq(kv) == [i \in 1..Len(kv) |-> kv[i][1]]

(* ---- the oracle ------------------------------------------------------------------------------------------*)
\* hp/hs: prefix/start given;  d \in {"f","r"}
InContract(hp, p, hs, s) == (hp /\ hs) => HasPrefix(s, p)     \* rocks_db.rs: "If the `start` doesn't have the same `prefix`, return nothing" (TODO in the code)
Sel(C, hp, p, hs, s, d) ==
  {e \in C : /\ hp => HasPrefix(e[1], p)
             /\ hs => (IF d = "f" THEN Le(s, e[1]) ELSE Le(e[1], s))}
Iter(C, hp, p, hs, s, d) ==
  LET q == Sorted(Sel(C, hp, p, hs, s, d)) IN IF d = "f" THEN q ELSE Reverse(q)

(* ---- transcription: crates/storage/src/iter.rs `iterator` over a BTreeMap --------------------------------*)
From(T, k) == SelectSeq(T, LAMBDA e : Le(k, e[1]))          \* tree.range(k..)
UpTo(T, k) == SelectSeq(T, LAMBDA e : Le(e[1], k))          \* tree.range(..=k)
TakeWhilePrefix(q, p) ==                                     \* .take_while(|(key, _)| key.starts_with(prefix))
  LET bad == {i \in 1..Len(q) : ~HasPrefix(q[i][1], p)} IN
  IF bad = {} THEN q ELSE SubSeq(q, 1, (CHOOSE i \in bad : \A j \in bad : i <= j) - 1)
MemIter(C, hp, p, hs, s, d) ==
  LET T == Sorted(C) IN
  CASE ~hp /\ ~hs -> IF d = "f" THEN T ELSE Reverse(T)
    [] hp /\ ~hs  -> LET r == TakeWhilePrefix(From(T, p), p) IN IF d = "f" THEN r ELSE Reverse(r)
    [] ~hp /\ hs  -> IF d = "f" THEN From(T, s) ELSE Reverse(UpTo(T, s))
    [] hp /\ hs   -> IF d = "f" THEN TakeWhilePrefix(From(T, s), p)
                                ELSE TakeWhilePrefix(Reverse(UpTo(T, s)), p)

(* ---- transcription: rocks_db.rs `_iter_store` (raw iterator = seek / seek_for_prev on the sorted keys) ---*)
\* next_prefix: smallest byte string greater than every string with the prefix; <<>> encodes None (overflow).
\* (/repo commit ef7854c556 "fix: rocksdb reverse prefix iteration ..."; before it trailing 0xFF bytes were not
\* truncated and a key equal to the successor ended the iteration at once)
RECURSIVE NextPrefix(_)
NextPrefix(p) ==
  IF p = <<>> THEN <<>>
  ELSE IF p[Len(p)] < 255 THEN [p EXCEPT ![Len(p)] = p[Len(p)] + 1]
  ELSE NextPrefix(SubSeq(p, 1, Len(p) - 1))
SeekFwd(T, k) == From(T, k)                  \* IteratorMode::From(k, Forward): seek(k), next()...
SeekBwd(T, k) == Reverse(UpTo(T, k))         \* IteratorMode::From(k, Reverse): seek_for_prev(k), prev()...
ReversePrefixIter(T, p) ==
  LET np == NextPrefix(p) IN
  IF np = <<>> THEN TakeWhilePrefix(Reverse(T), p)                  \* IteratorMode::End
  ELSE LET it == SeekBwd(T, np)
           \* the key equal to `np` itself (not in the prefix) is skipped
           it2 == IF it # <<>> /\ it[1][1] = np THEN Tail(it) ELSE it IN
       TakeWhilePrefix(it2, p)
RocksIter(C, hp, p, hs, s, d) ==
  LET T == Sorted(C) IN
  CASE ~hp /\ ~hs -> IF d = "f" THEN T ELSE Reverse(T)               \* IteratorMode::Start / End
    \* forward: prefix_same_as_start, or total_order_seek when the prefix is shorter than the column's fixed
    \* prefix extractor (/repo commit 742356ea35; before it such a prefix crashed inside RocksDB) - both are
    \* a seek to the prefix followed by take_while
    [] hp /\ ~hs  -> IF d = "r" THEN ReversePrefixIter(T, p) ELSE TakeWhilePrefix(SeekFwd(T, p), p)
    [] ~hp /\ hs  -> IF d = "f" THEN SeekFwd(T, s) ELSE SeekBwd(T, s)
    \* (total_order_seek when the prefix is shorter than the column's fixed prefix extractor, /repo commit
    \* 8d30af0512; before it prefix-seek mode hid matching keys of other prefix sections once they were in SSTs)
    [] hp /\ hs   -> IF ~HasPrefix(s, p) THEN <<>>
                     ELSE TakeWhilePrefix(IF d = "f" THEN SeekFwd(T, s) ELSE SeekBwd(T, s), p)
BackendIter(b, C, hp, p, hs, s, d) ==
  IF b = "mem" THEN MemIter(C, hp, p, hs, s, d) ELSE RocksIter(C, hp, p, hs, s, d)

(* ---- change sets -----------------------------------------------------------------------------------------*)
\* a change set is a sequence of operations [c, k, v] with pairwise distinct (c, k); v = 0 is Remove.
\* a commit carries a sequence L of change sets; aslist = FALSE means StorageChanges::Changes(L[1]).
OpSet(cs) == {cs[i] : i \in 1..Len(cs)}
ApplyCS(S, cs) ==
  [c \in Cols |-> {e \in S[c] : ~\E o \in OpSet(cs) : o.c = c /\ o.k = e[1]}
                  \cup {<<o.k, o.v>> : o \in {x \in OpSet(cs) : x.c = c /\ x.v # 0}}]
RECURSIVE ApplyList(_, _)
ApplyList(S, L) == IF L = <<>> THEN S ELSE ApplyList(ApplyCS(S, Head(L)), Tail(L))
\* the same (column, key) written by two change sets of one commit
Conflict(L) == \E i \in 1..Len(L), j \in 1..Len(L) :
                 i < j /\ \E o1 \in OpSet(L[i]), o2 \in OpSet(L[j]) : o1.c = o2.c /\ o1.k = o2.k

\* All three backends: a conflicting list is rejected and nothing is written, otherwise the change sets
\* are applied in order.  How they get there differs (kept as separate operators on purpose).
\* (/repo commits 4d3e7351a6: MemoryStore used to apply the change sets before it found the conflict;
\*  da2e4690c3: HistoricalRocksDB used to collect the list into a map keyed by column, so a later change set
\*  replaced an earlier one's writes to the same column and conflicts went unnoticed.)
\*  MemoryStore: conflict pre-check, then per change set insert/remove under the column locks
\*  RocksDb: one WriteBatch filled change set by change set with a conflict finder, then a single write
\*  HistoricalRocksDB: policy NoRewind -> RocksDb path; otherwise the list is MERGED per column into one
\*   change set (conflict -> error), wrapped in a transaction that also writes the history, then RocksDb path
MemCommit(S, L)   == IF Conflict(L) THEN <<"Err:Conflict", S>> ELSE <<"Ok", ApplyList(S, L)>>
RocksCommit(S, L) == IF Conflict(L) THEN <<"Err:Conflict", S>> ELSE <<"Ok", ApplyList(S, L)>>
Merged(L) == FoldLeft(LAMBDA acc, cs : acc \o cs, <<>>, L)
HistCommit(S, L, b) ==
  IF b = "hist-none" THEN RocksCommit(S, L)
  ELSE IF Conflict(L) THEN <<"Err:Conflict", S>> ELSE RocksCommit(S, <<Merged(L)>>)
BackendCommit(b, S, L) ==
  CASE b = "mem" -> MemCommit(S, L)
    [] b = "rocks" -> RocksCommit(S, L)
    [] OTHER -> HistCommit(S, L, b)

VARIABLES backend,   \* "none" before New
          store,     \* [Cols -> set of <<key, val>>]: what the backend holds
          m,         \* ghost: the sorted-map model
          q,         \* last query and its result (kept out of VIEW)
          act
vars == <<backend, store, m>>

Empty == [c \in Cols |-> {}]
NoQuery == [c |-> "none"]
Init == backend = "none" /\ store = Empty /\ m = Empty /\ q = NoQuery /\ act = [name |-> "Init"]

\* the property's rule for the model: an accepted commit applies its change sets in order
GhostCommit(L, res) == m' = IF res = "Ok" THEN ApplyList(m, L) ELSE m

New(b) ==
  /\ backend = "none"
  /\ backend' = b
  /\ UNCHANGED <<store, m, q>>
  /\ act' = [name |-> "New", backend |-> b]

Commit(L, aslist) ==
  /\ backend # "none"
  /\ ~aslist => Len(L) = 1
  /\ LET r == BackendCommit(backend, store, L) IN
     /\ store' = r[2]
     /\ GhostCommit(L, r[1])
     /\ act' = [name |-> "Commit", L |-> L, list |-> aslist, res |-> r[1]]
  /\ q' = NoQuery            \* a result describes the content it was taken from
  /\ UNCHANGED backend

\* close the store and open it again from the same directory (not for the in-memory store): the content
\* is durable, and is afterwards read from SST files instead of the memtable
Reopen ==
  /\ backend \notin {"none", "mem"}
  /\ q' = NoQuery
  /\ UNCHANGED vars
  /\ act' = [name |-> "Reopen"]

Query(c, hp, p, hs, s, d) ==
  /\ backend # "none"
  /\ InContract(hp, p, hs, s)
  /\ LET kv == BackendIter(backend, store[c], hp, p, hs, s, d) IN
     /\ q' = [c |-> c, hp |-> hp, p |-> p, hs |-> hs, s |-> s, d |-> d, kv |-> kv, keys |-> KeysSeq(kv)]
     /\ act' = [name |-> "Query", c |-> c, hp |-> hp, p |-> p, hs |-> hs, s |-> s, d |-> d]
  /\ UNCHANGED vars

(* ---- MC enumeration of change lists ------------------------------------------------------------------------*)
OpsU == [c : Cols, k : Keys, v : Vals \cup {0}]
CSets == {S \in UNION {kSubset(n, OpsU) : n \in 0..MaxOps} : \A o1, o2 \in S : (o1.c = o2.c /\ o1.k = o2.k) => o1 = o2}
CSeqs == {SetToSeq(S) : S \in CSets}
Lists == UNION {[1..n -> CSeqs] : n \in 1..MaxList}
OptKeys == {<<FALSE, <<>>>>} \cup {<<TRUE, k>> : k \in Keys}

Next ==
  \/ \E b \in Backends : New(b)
  \/ \E cs \in CSeqs : Commit(<<cs>>, FALSE)
  \/ \E L \in Lists : Commit(L, TRUE)
  \/ Reopen
  \/ \E c \in Cols, op \in OptKeys, os \in OptKeys, d \in {"f", "r"} : Query(c, op[1], op[2], os[1], os[2], d)

Spec == Init /\ [][Next]_<<vars, q, act>>
\* for the oracle configuration (AllQueriesExact is a state invariant, Query steps add nothing)
NextNoQuery ==
  \/ \E b \in Backends : New(b)
  \/ \E cs \in CSeqs : Commit(<<cs>>, FALSE)
  \/ \E L \in Lists : Commit(L, TRUE)
SpecNoQuery == Init /\ [][NextNoQuery]_<<vars, q, act>>

(* ---- the property ---------------------------------------------------------------------------------------------*)
\* every backend holds exactly what the sorted-map model holds
ContentsAgree == store = m
\* the last iteration returned exactly the oracle's entries, in the oracle's order (keys-only iteration too)
QueryExact ==
  q.c # "none" =>
    LET o == Iter(m[q.c], q.hp, q.p, q.hs, q.s, q.d) IN q.kv = o /\ q.keys = KeysSeq(o)
\* MC form: in every reachable state every in-contract query of the backend's algorithm equals the oracle
AllQueriesExact ==
  backend # "none" =>
    \A c \in Cols, op \in OptKeys, os \in OptKeys, d \in {"f", "r"} :
      InContract(op[1], op[2], os[1], os[2]) =>
        BackendIter(backend, store[c], op[1], op[2], os[1], os[2], d) = Iter(m[c], op[1], op[2], os[1], os[2], d)

StateRec == [backend |-> backend, store |-> store, m |-> m]
=============================================================================
