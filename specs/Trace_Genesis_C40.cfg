SPECIFICATION TSpec
CONSTANTS
  Migs <- AllMigs
  Worlds = "unused"
  GroupSizes = {}
  Encodings = {}
  MaxCrashes = 0
  WithDrop = FALSE
  ClearOffEarly = FALSE
INVARIANT ImportedEqualsExportedCarried
INVARIANT FinalEqualsUninterrupted
INVARIANT EachGroupOnce
INVARIANT FinalDigestsEqualUninterrupted
INVARIANT ResumeCompletes
POSTCONDITION TraceAccepted
CHECK_DEADLOCK FALSE
