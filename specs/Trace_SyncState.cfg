SPECIFICATION TSpec
CONSTANT MaxH = 4
INVARIANT Trichotomy
INVARIANT Shape
PROPERTY CommittedMonotone
POSTCONDITION TraceAccepted
CHECK_DEADLOCK FALSE
