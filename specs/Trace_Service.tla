---------------------------- MODULE Trace_Service ----------------------------
(* Trace validation of the real fuel_core_services::ServiceRunner against Service.             *)
(* STRICT=1: every event must be the spec's own action with the logged result and the logged    *)
(* state/phase/entry counters/await results.  STRICT=0 (observe): those variables are bound to   *)
(* what the implementation logged, the ghosts (stopReq, ended) follow the spec's rules, and only *)
(* the invariants/properties judge.  `pan` (run_task's private got_panic) is never logged: the  *)
(* spec's action chooses it in strict mode; it is irrelevant in observe mode.                   *)
EXTENDS Service, Json, IOUtils, Sequences

Rec == ndJsonDeserialize(IOEnv.TRACE)
Strict == IOEnv.STRICT = "1"

VARIABLE l
tvars == <<vars, act, l>>

IsEv(e) == l <= Len(Rec) /\ Rec[l].ev = e /\ l' = l + 1

TInit == Init /\ l = 1

TReset == /\ IsEv("reset")
          /\ cfg' = NoCfg /\ st' = "NotStarted" /\ ph' = "Idle" /\ pan' = FALSE /\ ent' = NoEnt
          /\ aw' = [c \in Clients |-> "none"] /\ stopReq' = FALSE /\ ended' = FALSE
          /\ act' = [name |-> "reset"]

LoggedIs(r) == st' = r.st /\ ph' = r.ph /\ ent' = r.ent /\ aw' = r.aw

\* A: the spec's action (strict).  G: the ghost updates of that action (observe).
Bind(A, G) == LET r == Rec[l] IN
  IF Strict THEN A /\ LoggedIs(r)
            ELSE LoggedIs(r) /\ G /\ pan' = pan /\ act' = [name |-> r.ev]

Same == cfg' = cfg /\ stopReq' = stopReq /\ ended' = ended

TNew   == IsEv("New") /\ LET r == Rec[l] IN
            Bind(New(r.init, r.run), cfg' = [init |-> r.init, run |-> r.run] /\ stopReq' = stopReq /\ ended' = ended)
TStart == IsEv("Start") /\ LET r == Rec[l] IN Bind(Start /\ act'.res = r.res, Same)
TStop  == IsEv("Stop") /\ LET r == Rec[l] IN
            Bind(Stop /\ act'.res = r.res, GhostStop /\ cfg' = cfg /\ ended' = ended)
TWake  == IsEv("Wake") /\ Bind(Wake, Same)
TTaskInit == IsEv("TaskInit") /\ LET r == Rec[l] IN Bind(TaskInit(r.o), Same)
TRun      == IsEv("Run") /\ LET r == Rec[l] IN Bind(Run(r.o), Same)
TShutdown == IsEv("Shutdown") /\ LET r == Rec[l] IN Bind(Shutdown(r.o), Same)
TAwaitBegin == IsEv("AwaitBegin") /\ LET r == Rec[l] IN Bind(AwaitBegin(r.c), Same)
TAwaitPoll  == IsEv("AwaitPoll") /\ LET r == Rec[l] IN Bind(AwaitPoll(r.c), Same)
TEnd   == IsEv("End") /\ Bind(End, ended' = TRUE /\ cfg' = cfg /\ stopReq' = stopReq)

TNext == TReset \/ TNew \/ TStart \/ TStop \/ TWake \/ TTaskInit \/ TRun \/ TShutdown
         \/ TAwaitBegin \/ TAwaitPoll \/ TEnd
TSpec == TInit /\ [][TNext]_tvars

TraceAccepted ==
  LET d == TLCGet("stats").diameter IN
  IF d - 1 = Len(Rec) THEN PrintT(<<"TRACE-ACCEPTED", Len(Rec)>>)
  ELSE PrintT(<<"TRACE-REJECTED", d>>) /\ PrintT(Rec[d])
=============================================================================
