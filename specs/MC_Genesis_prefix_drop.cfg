SPECIFICATION Spec
CONSTANTS
  Migs = {"Coins -> Coins", "ContractsState -> ContractsState", "Coins -> OwnedCoins"}
  Worlds <- MCWorlds
  GroupSizes = {0, 1}
  Encodings = {"parquet"}
  MaxCrashes = 1
  WithDrop = TRUE
  ClearOffEarly = TRUE
VIEW View
INVARIANT FinalEqualsUninterrupted
INVARIANT EachGroupOnce
CHECK_DEADLOCK FALSE
