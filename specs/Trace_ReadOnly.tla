---------------------------- MODULE Trace_ReadOnly ----------------------------
(* Trace validation of a real fuel-core node (harness h-node) against ReadOnly.                              *)
(* STRICT=1: every event must be the specification's own action with the logged answer and the logged        *)
(* post-state, and the state logged BEFORE a read-only request must be the current one.                      *)
(* STRICT=0 (observe): height, databases and pool are bound to what the implementation logged after the      *)
(* request, the ghost memo follows GhostMemo with the logged answers; ReadOnlyFrame and Repeatable judge.    *)
EXTENDS ReadOnly, Json, IOUtils

Rec == ndJsonDeserialize(IOEnv.TRACE)
Strict == IOEnv.STRICT = "1"

VARIABLE l
tvars == <<vars, act, l>>

IsEv(e) == l <= Len(Rec) /\ Rec[l].ev = e /\ l' = l + 1
ToSet(s) == {s[i] : i \in 1..Len(s)}

LHeight(st) == st.h
LOn(st) == [blocks |-> [i \in 1..Len(st.on.blocks) |-> ToSet(st.on.blocks[i])],
            spent |-> ToSet(st.on.spent), ctr |-> st.on.ctr, dg |-> st.on.dg]
LOff(st) == [synced |-> st.off.synced, owned |-> ToSet(st.off.owned), dg |-> st.off.dg]
LChain(st) == <<LHeight(st), LOn(st), LOff(st), ToSet(st.ptx), ToSet(st.psp)>>
PostIs(st) == /\ height' = LHeight(st) /\ onchain' = LOn(st) /\ offchain' = LOff(st)
              /\ poolTxs' = ToSet(st.ptx) /\ poolSpent' = ToSet(st.psp)

TInit == Init /\ l = 1

\* a fresh node after its setup (genesis + the block that deploys the counter): must be the Init state
TReset == /\ IsEv("reset")
          /\ LET st == Rec[l].st IN
             IF Strict THEN /\ height' = 1
                            /\ onchain' = [blocks |-> <<>>, spent |-> {}, ctr |-> 0, dg |-> 0]
                            /\ offchain' = [synced |-> 1, owned |-> Coins, dg |-> 0]
                            /\ poolTxs' = {} /\ poolSpent' = {}
                            /\ LChain(st) = <<height', onchain', offchain', poolTxs', poolSpent'>>
                       ELSE PostIs(st)
          /\ memo' = <<>>
          /\ act' = [name |-> "reset"]

\* A: the specification's action, G: its ghost update
Bind(A, G) == LET r == Rec[l] IN
  IF Strict THEN A /\ PostIs(r.st)
            ELSE PostIs(r.st) /\ G /\ act' = [name |-> r.ev]

Ans(a, dg) == [e |-> a.e, r |-> a.r, dg |-> dg]
SameAnswer(r) == act'.res = [e |-> r.ans.e, r |-> r.ans.r]
PreIs(r) == Strict => LChain(r.pre) = chain

TSubmit == IsEv("Submit") /\ LET r == Rec[l] IN
             Bind(r.res = "ok" /\ Submit([k |-> r.k, c |-> r.c]), GhostForget)
TProduce == IsEv("Produce") /\ LET r == Rec[l] IN Bind(r.res = "ok" /\ Produce, GhostForget)
TDryRun == IsEv("DryRun") /\ LET r == Rec[l] IN
             /\ PreIs(r)
             /\ Bind(DryRun(r.txs, r.at, r.uv, r.rec, r.gp, r.ans.dg) /\ SameAnswer(r),
                     GhostMemo(Req("DryRun", r.txs, r.at, r.uv, r.rec, r.gp, "", ""), Ans(r.ans, r.ans.dg)))
TEst == IsEv("Est") /\ LET r == Rec[l] IN
             /\ PreIs(r)
             /\ Bind(Est(r.p, r.ans.dg) /\ SameAnswer(r),
                     GhostMemo(Req("Est", <<>>, 0, 0, FALSE, 0, r.p, ""), Ans(r.ans, r.ans.dg)))
TAsm == IsEv("Asm") /\ LET r == Rec[l] IN
             /\ PreIs(r)
             /\ Bind(Asm(r.k, r.who, r.ans.dg) /\ SameAnswer(r),
                     GhostMemo(Req("Asm", <<>>, 0, 0, FALSE, 0, r.k, r.who),
                               Ans(r.ans, IF AsmDet(r.who) \/ r.ans.e # "" THEN r.ans.dg ELSE -1)))

TTick == IsEv("Tick") /\ Bind(Tick, GhostForget)

TNext == TReset \/ TSubmit \/ TProduce \/ TTick \/ TDryRun \/ TEst \/ TAsm
TSpec == TInit /\ [][TNext]_tvars

TraceAccepted ==
  LET d == TLCGet("stats").diameter IN
  IF d - 1 = Len(Rec) THEN PrintT(<<"TRACE-ACCEPTED", Len(Rec)>>)
  ELSE PrintT(<<"TRACE-REJECTED", d>>) /\ PrintT(Rec[d])
=============================================================================
