SPECIFICATION SimSpec
CONSTANT Configs <- CfgAll
CONSTANT TPS = 2
CONSTANT H0 = 1
CONSTANT T0 = 10
CONSTANT Advs = {1, 2, 3}
CONSTANT Skews <- MCSkews
CONSTANT ImportDts = {0, 1, 3}
CONSTANT ManualStarts <- MCStarts
CONSTANT ManualNs = {1, 2}
CONSTANT FailKinds = {"produce", "seal", "commit", "import", "signer"}
CONSTANT Leaders <- MCLeaders
CONSTANT PeerCounts = {0, 1}
CONSTANT MaxNow = 40
CONSTANT MaxBlocks = 12
CONSTRAINT Bounded
ACTION_CONSTRAINT EnvWhenQuiet
INVARIANT TypeOK
INVARIANT ReqNextHeight
INVARIANT ReqTimeMonotone
INVARIANT SealedBeforeCommit
INVARIANT IntervalSpacing
INVARIANT TaskKnowsHeight
INVARIANT EmitWalk
CHECK_DEADLOCK FALSE
