---------------------------- MODULE MC_BlockRules ----------------------------
EXTENDS BlockRules, Json
View == vars
EmitEdge == PrintT(<<"EDGE", ToJson([src |-> StateRec, act |-> act', dst |-> StateRec'])>>)
=============================================================================
