SPECIFICATION TSpec
CONSTANT NTx = 2
CONSTANT Kinds = {"Sub", "PSucc", "PFail", "Succ", "Fail", "Sq", "PSq"}
CONSTANT Cap = 2
CONSTANT SubTtl = 3
CONSTANT CacheTtl = 2
CONSTANT Buf = 3
CONSTANT MaxSubs = 0
CONSTANT MaxPub = 0
CONSTANT MaxClock = 0
CONSTANT Ticks = {}
INVARIANT InOrderNoDup
INVARIANT NothingAfterFinal
INVARIANT NothingAfterEnd
INVARIANT DrainedSubscriberGetsEverythingUpToFirstFinal
POSTCONDITION TraceAccepted
CHECK_DEADLOCK FALSE
