---------------------------- MODULE Trace_LeaderLease ----------------------------
(* Trace validation of the real RedisLeaderLeaseAdapter + the real Lua scripts (executed by   *)
(* the fake Redis nodes of h-fakeredis) against LeaderLease, at per-RPC granularity.          *)
(*                                                                                            *)
(* Events (harness/crates/h-lease), ordered by the fake nodes' global sequence counter:       *)
(*   rpc      one resolved script request, logged by the node under its lock: who, which      *)
(*            script, arguments, fate, reply, node state (lock owner, epoch, stream) after it *)
(*   start / stepdown / produce / commit / import / crash / ret   the thin production driver  *)
(*   expire / lose                                                scenario events on a node   *)
(* STRICT=1: every rpc must be the request LeaderLease's replica program sends in its current *)
(* phase (script, epoch token, height, block), must have the reply and the node state that    *)
(* LuaExec computes, and every adapter call must return what Decide says.                     *)
(* STRICT=0: node states and chains are bound to what was logged; only the invariants judge.  *)
EXTENDS LeaderLease, Json, IOUtils

Rec == ndJsonDeserialize(IOEnv.TRACE)
Strict == IOEnv.STRICT = "1"

VARIABLES l,        \* index of the next event
          lastres   \* [Replica -> result of the adapter call decided last] (strict mode)
tvars == <<vars, act, l, lastres>>

IsEv(e) == l <= Len(Rec) /\ Rec[l].ev = e /\ l' = l + 1
NodeOfIdx(i) == <<"n1", "n2", "n3", "n4", "n5">>[i + 1]

NoRes == [r \in Replica |-> ""]
TInit == Init /\ l = 1 /\ lastres = NoRes

TReset ==
  /\ IsEv("reset")
  /\ lock' = [n \in Node |-> NoOwner] /\ epoch' = [n \in Node |-> 0] /\ stream' = [n \in Node |-> <<>>]
  /\ lost' = {} /\ inc' = [r \in Replica |-> 0] /\ token' = [r \in Replica |-> -1]
  /\ chain' = [r \in Replica |-> <<>>] /\ made' = [r \in Replica |-> 0]
  /\ rs' = [r \in Replica |-> IdleRS] /\ late' = {}
  /\ act' = [name |-> "reset"] /\ lastres' = NoRes

NodeIs(n, st) == lock'[n] = st.lock /\ epoch'[n] = st.epoch /\ stream'[n] = st.stream
BindNode(n, st) ==
  /\ lock' = [lock EXCEPT ![n] = st.lock] /\ epoch' = [epoch EXCEPT ![n] = st.epoch]
  /\ stream' = [stream EXCEPT ![n] = st.stream]
Replicas == <<inc, token, chain, made, rs, late>>

\* A script request was resolved on node e.n.  Strict mode: it is either the execution of a
\* request its caller had given up on (LateExec / DropLate; a straggler of a publish that had
\* already returned is resolved like any other request, but nobody looks at the reply), or the
\* request the replica program sends in its current phase.
TRpc ==
  /\ IsEv("rpc")
  /\ LET e == Rec[l]
         q == Req(e.k, [r |-> e.r, i |-> e.i], e.ep, e.h, e.b)
         m == [n |-> e.n, q |-> q]
     IN IF Strict
        THEN \/ /\ e.f \in {"ok", "lost"} /\ LateExec(m)
                /\ act'.res = e.xres.t /\ NodeIs(e.n, e.st) /\ UNCHANGED lastres
             \/ /\ ~e.late /\ e.f = "drop" /\ DropLate(m) /\ NodeIs(e.n, e.st) /\ UNCHANGED lastres
             \/ /\ ~e.late /\ e.f = "hold" /\ m \in late /\ NS(e.n) = e.st
                /\ UNCHANGED <<vars, lastres>> /\ act' = [name |-> "rpc"]
             \/ /\ ~e.late
                /\ e.r \in Replica /\ inc[e.r] = e.i
                /\ rs[e.r].pc \in PhasePcs
                /\ ReqOf(e.r, rs[e.r], token[e.r]) = q          \* what the adapter sent
                /\ e.f \in {"ok", "lost"} => LuaExec(NS(e.n), q).rep = e.xres   \* what the script answered
                /\ Step(e.r, (e.n :> e.f))
                /\ NodeIs(e.n, e.st)
                /\ lastres' = IF act'.res # "" THEN [lastres EXCEPT ![e.r] = act'.res] ELSE lastres
        ELSE /\ BindNode(e.n, e.st)
             /\ UNCHANGED <<lost, Replicas, lastres>>
             /\ act' = [name |-> "rpc"]

Local1(A, name) == (IF Strict THEN A ELSE UNCHANGED vars /\ act' = [name |-> name]) /\ UNCHANGED lastres

TStart    == IsEv("start")    /\ LET e == Rec[l] IN Local1(Start(e.r) /\ rs'[e.r].next = e.next, "start")
TStepDown == IsEv("stepdown") /\ LET e == Rec[l] IN Local1(StepDown(e.r), "stepdown")
\* without a fencing token publish_produced_block fails before any RPC
TProduce  == IsEv("produce")  /\ LET e == Rec[l] IN
               /\ IF Strict THEN Produce(e.r) /\ act'.h = e.h /\ act'.b = e.b ELSE UNCHANGED vars /\ act' = [name |-> "produce"]
               /\ lastres' = IF Strict /\ token[e.r] = -1 THEN [lastres EXCEPT ![e.r] = "puberr"] ELSE lastres
TCrash    == IsEv("crash")    /\ LET e == Rec[l] IN Local1(Crash(e.r) /\ inc'[e.r] = e.i, "crash")

TCommit ==
  /\ IsEv("commit")
  /\ LET e == Rec[l] IN
       IF Strict THEN Commit(e.r) /\ chain'[e.r] = e.chain
       ELSE /\ chain' = [chain EXCEPT ![e.r] = e.chain]
            /\ UNCHANGED <<lock, epoch, stream, lost, inc, token, made, rs, late>>
            /\ act' = [name |-> "commit"]
  /\ UNCHANGED lastres
TImport ==
  /\ IsEv("import")
  /\ LET e == Rec[l] IN
       IF Strict THEN Import(e.r) /\ chain'[e.r] = e.chain
       ELSE /\ chain' = [chain EXCEPT ![e.r] = e.chain]
            /\ UNCHANGED <<lock, epoch, stream, lost, inc, token, made, rs, late>>
            /\ act' = [name |-> "import"]
  /\ UNCHANGED lastres

\* the adapter call returned (logged when the driver notices): it must be what the deciding step
\* of the spec said
TRet ==
  /\ IsEv("ret")
  /\ LET e == Rec[l] IN
       /\ Strict => /\ lastres[e.r] = e.res
                    /\ e.res = "unrec" => rs[e.r].pc = "import" /\ rs[e.r].recon = e.blocks
       /\ UNCHANGED <<vars, lastres>>
       /\ act' = [name |-> "ret"]

TExpire ==
  /\ IsEv("expire")
  /\ LET e == Rec[l]  n == NodeOfIdx(e.n) IN
       IF Strict
       THEN /\ IF e.was THEN Expire(n) ELSE lock[n] = NoOwner /\ UNCHANGED vars /\ act' = [name |-> "expire"]
            /\ NodeIs(n, e.st)
       ELSE BindNode(n, e.st) /\ UNCHANGED <<lost, Replicas>> /\ act' = [name |-> "expire"]
  /\ UNCHANGED lastres
TLose ==
  /\ IsEv("lose")
  /\ LET e == Rec[l]  n == NodeOfIdx(e.n) IN
       IF Strict THEN LoseData(n) /\ NodeIs(n, e.st)
       ELSE /\ BindNode(n, e.st) /\ lost' = lost \cup {n} /\ UNCHANGED Replicas
            /\ act' = [name |-> "LoseData", n |-> n]
  /\ UNCHANGED lastres

\* the driver could not follow its walk (the adapter did something the walk did not expect):
\* never accepted in strict mode, no judgement in observe mode
TUnexpected == IsEv("unexpected") /\ ~Strict /\ UNCHANGED <<vars, lastres>> /\ act' = [name |-> "unexpected"]

TNext == \/ TReset \/ TRpc \/ TStart \/ TStepDown \/ TProduce \/ TCrash \/ TCommit \/ TImport
         \/ TRet \/ TExpire \/ TLose \/ TUnexpected
TSpec == TInit /\ [][TNext]_tvars

\* more data-loss nodes than the configured budget is outside the property's premise
WithinBudget == Cardinality(lost) <= Budget

TraceAccepted ==
  LET d == TLCGet("stats").diameter IN
  IF d - 1 = Len(Rec) THEN PrintT(<<"TRACE-ACCEPTED", Len(Rec)>>)
  ELSE PrintT(<<"TRACE-REJECTED", d>>) /\ PrintT(Rec[d])
=============================================================================
