SPECIFICATION SimSpec
CONSTANT NKeys = 2
CONSTANT Vals = {1, 2}
CONSTANT MaxH = 5
CONSTANT Policies = {"none", "full", "r1", "r2", "r3"}
CONSTANT SimDepth = 14
INVARIANT DumpBehaviour
INVARIANT LatestExact
INVARIANT ViewExactOrNoHistory
CHECK_DEADLOCK FALSE
