SPECIFICATION TSpec
CONSTANTS
  Replica = {"A", "B"}
  Node = {"n1", "n2", "n3", "n4"}
  NoReplica = "none"
  MaxHeight = 4
  MaxEpoch = 999
  MaxMade = 999
  MaxLate = 99
  MaxInc = 9
  Budget = 0
  LateKinds = {"write", "promote", "release"}
  EarlyStop = FALSE
INVARIANT NoFork
INVARIANT AtMostOneQuorumBlockPerHeight
INVARIANT OneOwnerPerNode
PROPERTY EpochMonotone
POSTCONDITION TraceAccepted
CHECK_DEADLOCK FALSE
