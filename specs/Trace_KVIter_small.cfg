SPECIFICATION TSpec
CONSTANT Bytes = {0, 255}
CONSTANT MaxLen = 1
CONSTANT Cols = {"a"}
CONSTANT Vals = {1}
CONSTANT Backends = {"mem", "rocks", "hist-none", "hist-full", "hist-r1", "hist-r2"}
CONSTANT MaxOps = 0
CONSTANT MaxList = 0
INVARIANT ContentsAgree
INVARIANT PointsAgree
INVARIANT QueryExact
POSTCONDITION TraceAccepted
CHECK_DEADLOCK FALSE
