SPECIFICATION Spec
CONSTANT MaxKey = 5
CONSTANT MaxSize = 6
VIEW View
INVARIANT PageLen
INVARIANT FlagsExact
INVARIANT EveryEntryOnceInOrder
INVARIANT ErrorsOnlyForBadArgs
CHECK_DEADLOCK FALSE
