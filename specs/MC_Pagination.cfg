SPECIFICATION Spec
CONSTANT MaxKey = 5
CONSTANT MaxSize = 6
VIEW View
INVARIANT EveryEntryOnceInOrder
INVARIANT PageLen
INVARIANT FlagsExact
INVARIANT ErrorsOnlyForBadArgs
CHECK_DEADLOCK FALSE
