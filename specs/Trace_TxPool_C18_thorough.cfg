SPECIFICATION TSpec
CONSTANTS
  MaxTxs = 4
  MaxGas = 7
  MaxSize = 6
  ChainLimit = 4
  PendingPct = 50
  MaxHeight = 3
INVARIANT NoPanic
POSTCONDITION TraceAccepted
CHECK_DEADLOCK FALSE
PROPERTY ExtractPost
PROPERTY ParentBeforeChild
