SPECIFICATION MCSpec
CONSTANT MaxBlocks = 2
CONSTANT MaxTry = 2
CONSTANT WalkLen = 0
CONSTANT TxIds = {"t1", "t2", "t3", "t4", "t7", "t10"}
CONSTANT Recipients = {"none", "c1"}
CONSTANT GasPrices = {1}
VIEW View
INVARIANT PhaseOk
INVARIANT ExecutedOnce
INVARIANT ProcessedRecorded
INVARIANT DupRejected
CHECK_DEADLOCK FALSE
