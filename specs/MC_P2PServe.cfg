SPECIFICATION Spec
CONSTANTS
  MaxH = 3
  HdrLimits = {1, 3}
  TxLimits = {1, 2}
  PoolN = 2
  MaxIds = 3
VIEW View
INVARIANT CacheSubsetChain
PROPERTY ServedEqualsDatabase
PROPERTY OverLimitRefused
PROPERTY CodecFaithful
CHECK_DEADLOCK FALSE
