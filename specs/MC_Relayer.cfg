SPECIFICATION Spec
CONSTANT MaxH = 6
CONSTANT Deploys = {0, 2}
CONSTANT PageSizes = {1, 2, 3, 4, 5}
CONSTANT MaxLogsSet = {2}
CONSTANT GrowThreshold = 2
CONSTANT DaSet <- MCDaOne
CONSTANT MaxRpc = 6
VIEW View
CONSTRAINT Bounded
INVARIANT StoredEqualsDa
INVARIANT NoGapNoRewrite
PROPERTY SyncedMonotone
CHECK_DEADLOCK FALSE
