SPECIFICATION TSpec
INVARIANT PhaseOk
INVARIANT ExecutedOnce
INVARIANT ProcessedRecorded
INVARIANT DupRejected
POSTCONDITION TraceAccepted
CHECK_DEADLOCK FALSE
