SPECIFICATION TSpec
INVARIANT PhaseOk
INVARIANT ExecutedOnce
INVARIANT DupRejected
POSTCONDITION TraceAccepted
CHECK_DEADLOCK FALSE
