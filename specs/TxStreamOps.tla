---------------------------- MODULE TxStreamOps ----------------------------
(* Constant-level transcription of the per-subscriber stream automaton            *)
(* `TxUpdateStream` (crates/services/tx_status_manager/src/tx_status_stream.rs).  *)
(* Shared by TxStatusStream.tla (B1 binding of the automaton alone) and           *)
(* TxStatus.tla (the automaton inside Sender::try_send).                          *)
(*                                                                                *)
(* A status is a record [k |-> kind, n |-> tag]; kinds follow TransactionStatus:  *)
(*   Sub  PSucc PFail            not final                                         *)
(*   Succ Fail Sq PSq            final (TransactionStatus::is_final)              *)
(* The message FailedStatus is [k |-> "FS", n |-> 0]; "no message" is NoMsg.      *)
(* A stream state is [s |-> name of the State variant, h |-> <<held statuses>>].  *)
EXTENDS Integers, Sequences

StatusKinds == {"Sub", "PSucc", "PFail", "Succ", "Fail", "Sq", "PSq"}
FinalKinds  == {"Succ", "Fail", "Sq", "PSq"}
PreKinds    == {"PSucc", "PFail"}

Stat(k, n) == [k |-> k, n |-> n]
FS    == Stat("FS", 0)
NoMsg == Stat("none", 0)

IsStatusMsg(m) == m.k \in StatusKinds
\* TxStatusMessage::is_final
IsFinalMsg(m) == m.k = "FS" \/ m.k \in FinalKinds

SS(s, h) == [s |-> s, h |-> h]
SEmpty  == SS("Empty", <<>>)
SFailed == SS("Failed", <<>>)
SClosed == SS("Closed", <<>>)

(* ---- TxUpdateStream::add_msg --------------------------------------------*)
SAddMsg(st, m) ==
  CASE st.s = "Empty" ->
         IF m.k = "Sub" THEN SS("Submitted", <<m>>)
         ELSE IF m.k \in PreKinds THEN SS("Preconfirmed", <<m>>)
         ELSE IF m.k = "FS" THEN SFailed
         ELSE SS("EarlySuccess", <<m>>)
    [] st.s = "Submitted" ->
         IF m.k = "Sub" THEN SS("Submitted", <<m>>)
         ELSE IF m.k \in PreKinds THEN SS("Preconfirmed", <<m>>)
         ELSE IF m.k = "FS" THEN SS("LateFailed", st.h)
         ELSE SS("Success", <<st.h[1], m>>)
    [] st.s = "Preconfirmed" ->
         IF m.k = "FS" THEN SS("LateFailed", st.h)
         ELSE SS("Success", <<st.h[1], m>>)
    [] OTHER -> st

(* ---- TxUpdateStream::add_failure ----------------------------------------*)
SAddFailure(st) ==
  CASE st.s \in {"Submitted", "Preconfirmed"} -> SS("LateFailed", st.h)
    [] st.s = "Empty" -> SFailed
    [] OTHER -> st

(* ---- TxUpdateStream::close_recv -----------------------------------------*)
SCloseRecv(st) == SClosed

(* ---- TxUpdateStream::try_next : [st |-> new state, out |-> message]-------*)
STryNext(st) ==
  CASE st.s \in {"Submitted", "Preconfirmed"} -> [st |-> SEmpty, out |-> st.h[1]]
    [] st.s = "Empty" -> [st |-> SEmpty, out |-> NoMsg]
    [] st.s \in {"EarlySuccess", "SenderClosed"} -> [st |-> SClosed, out |-> st.h[1]]
    [] st.s = "Failed" -> [st |-> SClosed, out |-> FS]
    [] st.s = "LateFailed" -> [st |-> SFailed, out |-> st.h[1]]
    [] st.s = "Success" -> [st |-> SS("SenderClosed", <<st.h[2]>>), out |-> st.h[1]]
    [] st.s = "Closed" -> [st |-> SClosed, out |-> NoMsg]

SIsClosed(st) == st.s = "Closed"

(* ---- helpers on sequences -------------------------------------------------*)
\* a is a subsequence of b (order kept, multiplicities respected): greedy matching
RECURSIVE IsSubSeqFrom(_, _, _, _)
IsSubSeqFrom(a, i, b, j) ==
  IF i > Len(a) THEN TRUE
  ELSE IF j > Len(b) THEN FALSE
  ELSE IF a[i] = b[j] THEN IsSubSeqFrom(a, i + 1, b, j + 1)
  ELSE IsSubSeqFrom(a, i, b, j + 1)
IsSubSeq(a, b) == IsSubSeqFrom(a, 1, b, 1)

SelectStatus(seq) == SelectSeq(seq, IsStatusMsg)
=============================================================================
