---------------------------- MODULE Trace_KV ----------------------------
(* Trace validation of the real StorageTransaction / InMemoryTransaction / InMemoryStorage   *)
(* against KV.  Every event carries: arguments, result `res`, depth `d`, the top              *)
(* transaction's `Changes` (`ch`), what `get` returns for every cell at the top (`view`)      *)
(* and the detached sibling change sets (`det`).  Arrays are indexed (col-1)*2+key over the   *)
(* 2 x 2 cell grid the harness always projects.                                               *)
(* STRICT=1: the event must be the spec's own action with the logged result and post-state.   *)
(* STRICT=0: the implementation-side variables are bound to the log, the ghosts follow the    *)
(* map model, only the invariants / properties judge.                                         *)
EXTENDS KV, Json, IOUtils

Rec == ndJsonDeserialize(IOEnv.TRACE)
Strict == IOEnv.STRICT = "1"

CellsFour == {<<1, 1>>, <<1, 2>>, <<2, 1>>, <<2, 2>>}

VARIABLE l
tvars == <<vars, act, l>>

IsEv(e) == l <= Len(Rec) /\ Rec[l].ev = e /\ l' = l + 1
Idx(c) == (c[1] - 1) * 2 + c[2]
Arr(a) == [c \in Cells |-> a[Idx(c)]]

TInit == Init /\ l = 1
TReset ==
  /\ IsEv("reset")
  /\ base' = EmptyMap /\ stack' = <<>> /\ det' = <<>> /\ view' = EmptyMap
  /\ gmaps' = <<EmptyMap>> /\ gwr' = <<>> /\ gdet' = <<>>
  /\ act' = [name |-> "reset"]

\* strict: the logged post-state is the spec's post-state
PostMatches(r) ==
  /\ Len(stack') = r.d
  /\ r.d >= 1 => stack'[r.d].ch = Arr(r.ch)
  /\ view' = Arr(r.view)
  /\ det' = [i \in 1..Len(r.det) |-> Arr(r.det[i])]
\* observe: bind the implementation-side variables to the log (lower frames keep their value)
ObsBind(r, pol) ==
  /\ stack' = LET s == IF r.d = D + 1 THEN Append(stack, [ch |-> NoChanges, pol |-> pol])
                       ELSE SubSeq(stack, 1, r.d)
              IN IF r.d >= 1 THEN [s EXCEPT ![r.d].ch = Arr(r.ch)] ELSE s
  /\ base' = IF r.d = 0 THEN Arr(r.view) ELSE base
  /\ view' = Arr(r.view)
  /\ det' = [i \in 1..Len(r.det) |-> Arr(r.det[i])]

\* a panic of the code under test is logged as data: never a step of the spec (strict), judged by
\* NoPanic on the label (observe)
Bind(r, Act, G, a) ==
  IF Strict THEN ~r.panic /\ Act /\ PostMatches(r) /\ act' = a
            ELSE ObsBind(r, "O") /\ G /\ act' = a @@ [panic |-> r.panic]

Cell(r) == <<r.col, r.key>>
TBegin == IsEv("Begin") /\ LET r == Rec[l] IN
  IF Strict THEN ~r.panic /\ Begin(r.pol) /\ PostMatches(r)
            ELSE ObsBind(r, r.pol) /\ GhostBegin /\ act' = [name |-> "Begin", pol |-> r.pol, panic |-> r.panic]
TPut == IsEv("Put") /\ LET r == Rec[l] IN
  Bind(r, Put(Cell(r), r.v), GhostWrite(Cell(r), r.v), AW("Put", Cell(r), r.v, r.res))
TWrite == IsEv("Write") /\ LET r == Rec[l] IN
  Bind(r, Write(Cell(r), r.v), GhostWrite(Cell(r), r.v), AW("Write", Cell(r), r.v, r.res))
TReplace == IsEv("Replace") /\ LET r == Rec[l] IN
  Bind(r, Replace(Cell(r), r.v), GhostWrite(Cell(r), r.v), AW("Replace", Cell(r), r.v, r.res))
TTake == IsEv("Take") /\ LET r == Rec[l] IN
  Bind(r, Take(Cell(r)), GhostWrite(Cell(r), 0), AC("Take", Cell(r), r.res))
TDelete == IsEv("Delete") /\ LET r == Rec[l] IN
  Bind(r, Delete(Cell(r)), GhostWrite(Cell(r), 0), AC("Delete", Cell(r), r.res))
TGet == IsEv("Get") /\ LET r == Rec[l] IN
  Bind(r, Get(Cell(r)), GhostSame, AC("Get", Cell(r), r.res))
TExists == IsEv("Exists") /\ LET r == Rec[l] IN
  Bind(r, Exists(Cell(r)), GhostSame, AC("Exists", Cell(r), r.res))
TSize == IsEv("Size") /\ LET r == Rec[l] IN
  Bind(r, Size(Cell(r)), GhostSame, AC("Size", Cell(r), r.res))
TReadExact == IsEv("ReadExact") /\ LET r == Rec[l] IN
  Bind(r, ReadExact(Cell(r), r.off, r.n), GhostSame, AR("ReadExact", Cell(r), r.off, r.n, r.res))
TReadZero == IsEv("ReadZero") /\ LET r == Rec[l] IN
  Bind(r, ReadZero(Cell(r), r.off, r.n), GhostSame, AR("ReadZero", Cell(r), r.off, r.n, r.res))
TDrop == IsEv("Drop") /\ LET r == Rec[l] IN
  Bind(r, Drop, GhostDrop, [name |-> "Drop"])
TDetach == IsEv("Detach") /\ LET r == Rec[l] IN
  Bind(r, Detach, GhostDetach, [name |-> "Detach"])
TCommit == IsEv("Commit") /\ LET r == Rec[l] IN
  Bind(r, Commit,
       GhostCommit(Applied(D - 1, Pop, stack', gwr[D], r.res = "ok")),
       [name |-> "Commit", res |-> r.res])
TMerge == IsEv("Merge") /\ LET r == Rec[l] IN
  Bind(r, Merge(r.j),
       GhostMerge(r.j, Applied(D, stack, stack', gdet[r.j].w, r.res = "ok")),
       [name |-> "Merge", j |-> r.j, res |-> r.res])
TDropDet == IsEv("DropDet") /\ LET r == Rec[l] IN
  Bind(r, DropDet(r.j), GhostDropDet(r.j), [name |-> "DropDet", j |-> r.j])

TNext == \/ TReset \/ TBegin \/ TPut \/ TWrite \/ TReplace \/ TTake \/ TDelete
         \/ TGet \/ TExists \/ TSize \/ TReadExact \/ TReadZero
         \/ TDrop \/ TDetach \/ TCommit \/ TMerge \/ TDropDet
TSpec == TInit /\ [][TNext]_tvars

TraceAccepted ==
  LET d == TLCGet("stats").diameter IN
  IF d - 1 = Len(Rec) THEN PrintT(<<"TRACE-ACCEPTED", Len(Rec)>>)
  ELSE PrintT(<<"TRACE-REJECTED", d>>) /\ PrintT(Rec[d])
=============================================================================
