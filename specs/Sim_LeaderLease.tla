---------------------------- MODULE Sim_LeaderLease ----------------------------
(* -simulate instance of LeaderLease (binding B2): a history variable collects the action      *)
(* labels and every simulated behaviour of WalkLen steps is printed once as a walk for the     *)
(* harness.  The next-state relation is WEIGHTED (TLC picks uniformly among the generated       *)
(* successors, duplicates included) so that walks make progress: successful RPCs and the        *)
(* production loop are more likely than faults, crashes and stepdowns.                          *)
EXTENDS LeaderLease, Json, SequencesExt

CONSTANTS WalkLen,       \* length of the printed walks
          OkWeight       \* how many times the fate "ok" is offered per RPC

VARIABLE hist
SimInit == Init /\ hist = <<>>

WF(k) == [i \in 1..OkWeight |-> "ok"] \o SetToSeq(FatesOf(k) \ {"ok"})

FineStep ==
  \E r \in Replica : rs[r].pc \in PhasePcs /\
     \E n \in Targets(rs[r]) : \E i \in 1..Len(WF(KindOf(rs[r].pc))) : Step(r, (n :> WF(KindOf(rs[r].pc))[i]))
\* coarse steps: all RPCs fine (offered OkWeight times), or one / two target nodes share a fault
FaultSets(T) == { {m} : m \in T } \cup { {m1, m2} : m1, m2 \in T }
CoarseStep ==
  \E r \in Replica : \E pre \in {"", "Start", "StepDown", "Produce"} :
     /\ PreOk(r, pre)
     /\ LET s == Eff(r, pre).s  T == Targets(s)  k == KindOf(s.pc) IN
          \/ \E w \in 1..OkWeight : GStep(r, pre, [n \in T |-> "ok"], TRUE)
          \/ \E B \in FaultSets(T) : \E f \in FatesOf(k) \ {"ok"} :
                GStep(r, pre, [n \in T |-> IF n \in B THEN f ELSE "ok"], TRUE)
Progress(r) == Start(r) \/ Produce(r) \/ Commit(r) \/ Import(r)

NextFineW ==
  \/ FineStep
  \/ \E r \in Replica : \E w \in 1..4 : Progress(r)
  \/ \E r \in Replica : StepDown(r) \/ Crash(r)
  \/ Env
  \/ \E m \in late : DropLate(m)
NextCoarseW == CoarseStep \/ (\E r \in Replica : Crash(r)) \/ Env

\* evaluated only for states ON the simulated path: prints the behaviour once it is WalkLen long
Dump == Len(hist) >= WalkLen /\ PrintT(<<"WALK", ToJson(hist)>>) /\ FALSE /\ UNCHANGED <<vars, act, hist>>
SimFine   == SimInit /\ [][(Len(hist) < WalkLen /\ NextFineW   /\ hist' = Append(hist, act')) \/ Dump]_<<vars, act, hist>>
SimCoarse == SimInit /\ [][(Len(hist) < WalkLen /\ NextCoarseW /\ hist' = Append(hist, act')) \/ Dump]_<<vars, act, hist>>
=============================================================================
