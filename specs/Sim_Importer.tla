---------------------------- MODULE Sim_Importer ----------------------------
(* Simulation instance: carries the action history so that `tlc -simulate` behaviours can be replayed  *)
(* on the real Importer (vlib.sim_walks; checks/C08.py folds the stage actions back into requests).    *)
(* Sampling policy only: requests concentrate on heights around the next one, and the second client's  *)
(* attempts are tried at every fourth step.                                                            *)
EXTENDS MC_Importer, Sequences
CONSTANT SimDepth      \* only complete behaviours of this many steps are printed
VARIABLE hist
\* promising blocks (genesis on the empty database, the next PoA block otherwise) come with every script,
\* the others (stale, duplicate height, skipped, genesis again, PoA on empty) in the plain form only
SimReqs == LET L == Latest(db)
               Plain(r) == r.exe = "clean" /\ r.ver = "ok" /\ r.pub = "ok"
           IN
  {r \in Req : IF L = -1 THEN /\ r.b.h <= 1
                              /\ r.b.k = "P" => (Plain(r) /\ r.b.txs = {})
               ELSE /\ r.b.h \in {L, L + 1, L + 2}
                    /\ (r.b.h # L + 1 \/ r.b.k = "G") => (Plain(r) /\ r.b.txs = {})}
SimInit == Init /\ hist = <<>>
SimStep ==
  \/ \E r \in SimReqs : Lock(1 + (Len(hist) % 2), r)
  \/ Len(hist) % 4 = 1 /\ \E c \in Clients, r \in FailReqs : LockFail(c, r)
  \/ \E c \in Clients : ReadHeight(c) \/ StoreNew(c) \/ Verify(c) \/ Execute(c) \/ CheckRoot(c)
                        \/ Publish(c) \/ DbCommit(c) \/ Broadcast(c) \/ Return(c)
  \/ \E x \in Heights \cup AllTxs : Seed("cons", x) \/ Seed("tx", x)
  \/ Release
  \/ \E s \in SubIds : Subscribe(s)
SimNext == SimStep /\ hist' = Append(hist, act')
SimSpec == SimInit /\ [][SimNext]_<<vars, act, hist>>
EmitWalk == Len(hist) # SimDepth \/ PrintT(<<"WALK", ToJson(hist)>>)
=============================================================================
