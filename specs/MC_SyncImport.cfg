SPECIFICATION ISpec
CONSTANT MaxH = 3
CONSTANT Size = 2
CONSTANT Peers = {1, 2}
CONSTANT HVs = {1, 2}
CONSTANT MaxRounds = 2
VIEW IView
INVARIANT ExecutedConsecutive
INVARIANT NeverExecutedUnchecked
INVARIANT BadPeersReported
INVARIANT StatusTrichotomy
CHECK_DEADLOCK FALSE
