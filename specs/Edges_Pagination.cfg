SPECIFICATION Spec
CONSTANT MaxKey = 5
CONSTANT MaxSize = 6
VIEW View
ACTION_CONSTRAINT EmitEdge
CHECK_DEADLOCK FALSE
