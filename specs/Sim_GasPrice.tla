---------------------------- MODULE Sim_GasPrice ----------------------------
(* Simulation instance: carries the action history so that `tlc -simulate` behaviours can be *)
(* replayed on the real AlgorithmUpdaterV1 (vlib.sim_walks).                                  *)
EXTENDS MC_GasPrice, Sequences
VARIABLE hist
SimInit == Init /\ hist = <<>>
SimNext == Next /\ hist' = Append(hist, act')
SimSpec == SimInit /\ [][SimNext]_<<vars, act, hist>>
EmitWalk == PrintT(<<"WALK", ToJson(hist)>>)
=============================================================================
