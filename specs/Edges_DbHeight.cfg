SPECIFICATION Spec
CONSTANT MaxH = 4
VIEW View
ACTION_CONSTRAINT EmitEdge
CHECK_DEADLOCK FALSE
