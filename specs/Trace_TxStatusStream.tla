---------------------------- MODULE Trace_TxStatusStream ----------------------------
(* Trace validation of the real TxUpdateStream against TxStatusStream.            *)
(* STRICT=1: each event is the spec's own action with the logged state / output.  *)
(* STRICT=0: `st` is bound to the logged state, ghosts follow the Ghost operators *)
(* with the logged output; the invariants judge.                                  *)
EXTENDS TxStatusStream, Json, IOUtils

Rec == ndJsonDeserialize(IOEnv.TRACE)
Strict == IOEnv.STRICT = "1"

VARIABLE l
tvars == <<vars, act, l>>

IsEv(e) == l <= Len(Rec) /\ Rec[l].ev = e /\ l' = l + 1
\* JSON arrays arrive as sequences (possibly empty)
ToSeq(a) == [i \in 1..Len(a) |-> Stat(a[i].k, a[i].n)]
Logged(r) == SS(r.st.s, ToSeq(r.st.h))
LMsg(o) == Stat(o.k, o.n)

TInit == Init /\ l = 1

TReset == /\ IsEv("reset")
          /\ st' = SEmpty /\ ins' = <<>> /\ outs' = <<>> /\ endLen' = -1
          /\ act' = [name |-> "reset"]

\* is_closed() as logged must agree with the logged state name in both modes (harness sanity)
Bind(A, G) == LET r == Rec[l] IN
  IF Strict THEN A /\ st' = Logged(r) /\ r.closed = SIsClosed(st')
            ELSE st' = Logged(r) /\ G /\ act' = [name |-> r.ev]

TAddMsg == IsEv("AddMsg") /\ LET r == Rec[l] IN
             Bind(AddMsg(Stat(r.k, r.n)) /\ r.res = "ok", GhostAddMsg(Stat(r.k, r.n), Logged(r)))
TAddFailure == IsEv("AddFailure") /\ LET r == Rec[l] IN
             Bind(AddFailure /\ r.res = "ok", GhostQuiet(Logged(r)))
TCloseRecv == IsEv("CloseRecv") /\ LET r == Rec[l] IN
             Bind(CloseRecv /\ r.res = "ok", GhostQuiet(Logged(r)))
TTryNext == IsEv("TryNext") /\ LET r == Rec[l] IN
             Bind(TryNext /\ LMsg(r.out) = STryNext(st).out, GhostTryNext(LMsg(r.out), Logged(r)))

TNext == TReset \/ TAddMsg \/ TAddFailure \/ TCloseRecv \/ TTryNext
TSpec == TInit /\ [][TNext]_tvars

\* reset steps are exempt from the action property
ClosedAbsorbingT == [][(SIsClosed(st) /\ act'.name # "reset") => SIsClosed(st')]_tvars

TraceAccepted ==
  LET d == TLCGet("stats").diameter IN
  IF d - 1 = Len(Rec) THEN PrintT(<<"TRACE-ACCEPTED", Len(Rec)>>)
  ELSE PrintT(<<"TRACE-REJECTED", d>>) /\ PrintT(Rec[d])
=============================================================================
