SPECIFICATION TSpec
INVARIANT PhaseOk
INVARIANT WasmEqualsNative
INVARIANT ValidateAccepts
INVARIANT BlockAsSpec
INVARIANT CommitIsProduced
POSTCONDITION TraceAccepted
CHECK_DEADLOCK FALSE
