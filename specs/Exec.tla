------------------------------- MODULE Exec -------------------------------
(* C01-C06 — the block executor (crates/services/executor/src/executor.rs,   *)
(* crates/services/upgradable-executor/src/executor.rs).                      *)
(*                                                                            *)
(* One action per step of BlockExecutor::produce_block / validate_block:      *)
(*   Setup            genesis: Coins/Messages/Contracts tables, relayer log   *)
(*   ProduceBegin     Components{header_to_produce, gas_price, coinbase}      *)
(*   ImportDa(h)      process_da: one relayer.get_events(h) call              *)
(*   ForcedTx         process_relayed_txs: one relayed transaction            *)
(*   Ask              process_l2_txs: one TransactionsSource::next call       *)
(*   TryTx            one source transaction: Skip(reason) / Ok / Revert      *)
(*   Mint             produce_mint_tx / execute_mint                          *)
(*   ProduceEnd       PartialFuelBlock::generate, ExecutionResult             *)
(*   Validate         validate_block of the produced block (same parent)      *)
(*   Tamper           validate_block of a deliberately altered block          *)
(*   Commit / Abort   the Changes of production are written / dropped         *)
(*                                                                            *)
(* Every action is  Guard /\ Effect.  The guard is the transcription of what  *)
(* the code decides (skip reason, revert, mint fields, event list ...) from   *)
(* the working state; the effect folds the decided outcome into the working   *)
(* state `w` and the block accumulator `blk`.  Gas, fee, size and digests are *)
(* never computed here: they are arguments (logged by the implementation or   *)
(* chosen abstractly by MC_Exec) and the invariants relate them.              *)
(* Trace_Exec uses Guard/\Effect in strict mode and Effect alone in observe   *)
(* mode; `chain`, `prod`, `vals`, `tampers`, `daCalls`, `asks` are bound to   *)
(* what the implementation logged, everything else follows the rules below.   *)
EXTENDS Integers, Sequences, FiniteSets, TLC, SequencesExt

VARIABLES
  phase,    \* "unborn" | "idle" | "producing" | "produced" | "failed" | "committed"
  cfg,      \* genesis + transaction descriptors + relayer log + limits (fixed by Setup)
  chain,    \* committed state as read back from the database tables
  prev,     \* `chain` before the last Commit
  w,        \* working state of the block storage transaction, computed by the rules
  blk,      \* execution data of the block being produced, computed by the rules
  prod,     \* what production returned (block, statuses, events, digests) as logged
  vals,     \* results of validating the produced block, as logged
  tampers,  \* results of validating tampered variants of the produced block, as logged
  gh,       \* ghosts: everything ever spent / created / executed / imported
  act

vars == <<phase, cfg, chain, prev, w, blk, prod, vals, tampers, gh>>

Base == "A0"                       \* the base asset
None == "none"

(* ------------------------------------------------------------------------ *)
(* small helpers                                                             *)
(* ------------------------------------------------------------------------ *)
Ids(S) == {x.id : x \in S}
SeqSum(s, F(_)) == FoldLeft(LAMBDA a, x : a + F(x), 0, s)
NoDup(s) == \A i, j \in DOMAIN s : i # j => s[i] # s[j]
Pick(S) == CHOOSE x \in S : TRUE
MapSeq(s, F(_)) == FoldLeft(LAMBDA a, x : Append(a, F(x)), <<>>, s)
Max2(a, b) == IF a >= b THEN a ELSE b

CoinId(t, i) == [t |-> t, i |-> i]
Ev(k, id, o, am, as) == [k |-> k, id |-> id, o |-> o, am |-> am, as |-> as]
EvId(k, id) == Ev(k, id, "", 0, "")
\* identifiers of messages / transactions share the event record shape of coins
NameId(n) == CoinId(n, 0)

Proj(s) == [coins |-> s.coins, msgs |-> s.msgs, contracts |-> s.contracts, processed |-> s.processed]
EvIds(evs, k) == {evs[i].id : i \in {j \in DOMAIN evs : evs[j].k = k}}
EmptyState == [coins |-> {}, msgs |-> {}, contracts |-> {}, processed |-> {}, h |-> 0, da |-> 0]
NoCfg == [coins |-> <<>>, msgs |-> <<>>, contracts |-> <<>>, relayer |-> <<>>, txs |-> <<>>,
          processed0 |-> <<>>, gasLimit |-> 0, sizeLimit |-> 0, maxTx |-> 0, roots |-> <<>>, da0 |-> 0]
NoBlk == [h |-> 0, da |-> 0, gp |-> 0, cb |-> None, stage |-> "none",
          txs |-> <<>>, skipped |-> <<>>, fees |-> 0, gas |-> 0, size |-> 0, count |-> 0,
          events |-> <<>>, msgCount |-> 0, daCalls |-> <<>>, inbox |-> <<>>, forced |-> <<>>,
          asks |-> <<>>, foundMint |-> FALSE, mint |-> [id |-> "", idx |-> 0 - 1, gp |-> 0, amt |-> 0, cb |-> "none"]]
NoMint == [id |-> "", idx |-> 0 - 1, gp |-> 0, amt |-> 0, cb |-> None]
NoDg == [ch |-> "", st |-> "", ev |-> ""]
NoProd == [ok |-> FALSE, err |-> "", txs |-> <<>>, kinds |-> <<>>, statuses |-> <<>>, sizes |-> <<>>,
           events |-> <<>>, msgCount |-> 0, inbox |-> "", da |-> 0, h |-> 0, mint |-> NoMint, dg |-> NoDg]
NoGh == [spent |-> {}, created |-> {}, executed |-> <<>>, imported |-> {}]

Init ==
  /\ phase = "unborn" /\ cfg = NoCfg /\ chain = EmptyState /\ prev = EmptyState /\ w = EmptyState
  /\ blk = NoBlk /\ prod = NoProd /\ vals = <<>> /\ tampers = <<>> /\ gh = NoGh
  /\ act = [name |-> "Init"]

Tx(id) == Pick({t \in ToSet(cfg.txs) : t.id = id})
IsTx(id) == \E t \in ToSet(cfg.txs) : t.id = id
RootOf(p, d) == LET S == {r \in ToSet(cfg.roots) : r.p = p /\ r.d = d}
                IN IF S = {} THEN "?" ELSE Pick(S).root
RelayerAt(h) == IF h \in DOMAIN cfg.relayer THEN cfg.relayer[h] ELSE <<>>

(* ------------------------------------------------------------------------ *)
(* Setup                                                                      *)
(* ------------------------------------------------------------------------ *)
GenesisState(c) ==
  [coins |-> ToSet(c.coins), msgs |-> ToSet(c.msgs),
   contracts |-> {[id |-> x, slots |-> {}, bals |-> {}, utxo |-> CoinId("genesis", 0)] : x \in ToSet(c.contracts)},
   processed |-> ToSet(c.processed0), h |-> 0, da |-> c.da0]

SetupGuard(c, st) == phase = "unborn" /\ st = GenesisState(c)
SetupEffect(c, st) ==
  /\ phase' = "idle" /\ cfg' = c /\ chain' = st /\ prev' = st /\ w' = st
  /\ gh' = [spent |-> {}, created |-> Ids(st.coins), executed |-> c.processed0, imported |-> Ids(st.msgs)]
  /\ UNCHANGED <<blk, prod, vals, tampers>>
  /\ act' = [name |-> "Setup"]
Setup(c, st) == SetupGuard(c, st) /\ SetupEffect(c, st)

(* ------------------------------------------------------------------------ *)
(* AddTx: a new transaction becomes known (late-bound descriptors of the driver) *)
(* ------------------------------------------------------------------------ *)
AddTxGuard(d) == phase \in {"idle", "committed"} /\ ~IsTx(d.id)
AddTxEffect(d) ==
  /\ cfg' = [cfg EXCEPT !.txs = Append(@, d)]
  /\ UNCHANGED <<phase, chain, prev, w, blk, prod, vals, tampers, gh>>
  /\ act' = [name |-> "AddTx", id |-> d.id]
AddTx(d) == AddTxGuard(d) /\ AddTxEffect(d)

(* ------------------------------------------------------------------------ *)
(* ProduceBegin                                                               *)
(* ------------------------------------------------------------------------ *)
\* hd = [h, da, gp, cb].  The harness always asks for height chain.h + 1 and da >= chain.da.
BeginGuard(hd) == phase \in {"idle", "committed"} /\ hd.h = chain.h + 1 /\ hd.da >= chain.da
BeginEffect(hd) ==
  /\ phase' = "producing"
  /\ w' = chain
  /\ blk' = [NoBlk EXCEPT !.h = hd.h, !.da = hd.da, !.gp = hd.gp, !.cb = hd.cb, !.stage = "da"]
  /\ prod' = NoProd /\ vals' = <<>> /\ tampers' = <<>>
  /\ UNCHANGED <<cfg, chain, prev, gh>>
  /\ act' = [name |-> "ProduceBegin", h |-> hd.h, da |-> hd.da, gp |-> hd.gp, cb |-> hd.cb]
ProduceBegin(hd) == BeginGuard(hd) /\ BeginEffect(hd)

(* ------------------------------------------------------------------------ *)
(* process_da: for da_height in prev.da + 1 ..= header.da { get_events }     *)
(* ------------------------------------------------------------------------ *)
NextDa == IF blk.daCalls = <<>> THEN chain.da + 1 ELSE blk.daCalls[Len(blk.daCalls)] + 1

\* the events the executor derives from one relayer event, in order
DaEventOf(e) ==
  IF e.k = "msg" THEN <<Ev("MI", NameId(e.id), e.o, e.am, "")>>
  ELSE IF e.valid THEN <<>> ELSE <<EvId("FF", NameId(e.id))>>
DaEvents(es) == FoldLeft(LAMBDA a, e : a \o DaEventOf(e), <<>>, es)
DaMsgs(es, h) == {[id |-> e.id, o |-> e.o, am |-> e.am, da |-> h, data |-> e.data] : e \in {x \in ToSet(es) : x.k = "msg"}}
DaForced(es) == SelectSeq(es, LAMBDA e : e.k = "tx" /\ e.valid)

DaStep(s, b, h) ==
  LET es == RelayerAt(h) IN
  [s |-> [s EXCEPT !.msgs = {m \in @ : m.id \notin Ids(DaMsgs(es, h))} \cup DaMsgs(es, h)],
   b |-> [b EXCEPT !.daCalls = Append(@, h),
                   !.events = @ \o DaEvents(es),
                   !.inbox = @ \o MapSeq(es, LAMBDA e : e.id),
                   !.forced = @ \o MapSeq(DaForced(es), LAMBDA e : e.id)]]

ImportDaGuard(h) == phase = "producing" /\ blk.stage = "da" /\ h = NextDa /\ h <= blk.da
ImportDaEffect(h) ==
  /\ w' = DaStep(w, blk, h).s
  /\ blk' = DaStep(w, blk, h).b
  /\ UNCHANGED <<phase, cfg, chain, prev, prod, vals, tampers, gh>>
  /\ act' = [name |-> "ImportDa", h |-> h]
ImportDa(h) == ImportDaGuard(h) /\ ImportDaEffect(h)

DaDone == NextDa > blk.da

(* ------------------------------------------------------------------------ *)
(* one transaction: checks in the order the executor applies them            *)
(* ------------------------------------------------------------------------ *)
CoinsWith(s, id) == {c \in s.coins : c.id = id}
MsgsWith(s, id) == {m \in s.msgs : m.id = id}
HasContract(s, c) == \E x \in s.contracts : x.id = c

\* verify_inputs_exist_and_values_match: reason of the first failing input, "" if none
InputReason(s, in, da) ==
  IF in.k = "coin" THEN
    LET C == CoinsWith(s, CoinId(in.id, in.i)) IN
    IF C = {} THEN "CoinDoesNotExist"
    ELSE IF \E c \in C : c.o = in.o /\ c.am = in.am /\ c.as = in.as THEN "" ELSE "CoinMismatch"
  ELSE IF in.k = "contract" THEN (IF HasContract(s, in.id) THEN "" ELSE "ContractDoesNotExist")
  ELSE
    LET M == MsgsWith(s, in.id) IN
    IF M = {} THEN "MessageDoesNotExist"
    ELSE IF \E m \in M : m.da > da THEN "MessageSpendTooEarly"
    ELSE IF \E m \in M : m.o = in.o /\ m.am = in.am /\ m.data = in.data THEN "" ELSE "MessageMismatch"

RECURSIVE InputsReason(_, _, _, _)
InputsReason(s, ins, i, da) ==
  IF i > Len(ins) THEN ""
  ELSE LET r == InputReason(s, ins[i], da) IN IF r # "" THEN r ELSE InputsReason(s, ins, i + 1, da)

\* execute_transaction up to the VM: duplicate id, basic checks, input checks, deploy-twice
ExecReasonIn(s, b, tx, gp) ==
  IF b.foundMint THEN "MintIsNotLastTransaction"
  ELSE IF tx.id \in s.processed THEN "TransactionIdCollision"
  ELSE IF tx.exp >= 0 /\ b.h > tx.exp THEN "Expired"
  \* check_common_part: at least one coin or message-coin input (NoSpendableInput); fee not covered
  ELSE IF tx.bad = "basic" \/ ~\E i \in DOMAIN tx.ins : tx.ins[i].k = "coin" \/ (tx.ins[i].k = "msg" /\ ~tx.ins[i].data)
       THEN "InvalidTransaction"
  ELSE LET r == InputsReason(s, tx.ins, 1, b.da) IN
       IF r # "" THEN r
       \* into_ready: the fee at this gas price must fit max_fee_limit (the generator only makes 0 too small)
       ELSE IF tx.mf = 0 /\ gp > 0 THEN "InvalidTransaction"
       ELSE IF tx.kind = "create" /\ HasContract(s, tx.c) THEN "VmExecution"
       ELSE ""
ExecReason(tx, gp) == ExecReasonIn(w, blk, tx, gp)

\* process_l2_txs: the gas check precedes everything else
L2Reason(tx, r) ==
  IF r.maxGas > cfg.gasLimit - blk.gas THEN "GasOverflow" ELSE ExecReason(tx, blk.gp)

WillRevert(tx) == tx.kind = "script" /\ (tx.end # "ret" \/ \E i \in DOMAIN tx.ops : tx.ops[i].op = "callrvrt")

(* ---- effects of an executed transaction -------------------------------- *)
\* spend_input_utxos
SpendEvents(tx, reverted) ==
  FoldLeft(LAMBDA a, in :
             IF in.k = "coin" THEN Append(a, EvId("CX", CoinId(in.id, in.i)))
             ELSE IF in.k = "msg" /\ ~(in.data /\ reverted) THEN Append(a, EvId("MX", NameId(in.id)))
             ELSE a, <<>>, tx.ins)
SpentCoins(tx) == {CoinId(in.id, in.i) : in \in {x \in ToSet(tx.ins) : x.k = "coin"}}
SpentMsgs(tx, reverted) == {in.id : in \in {x \in ToSet(tx.ins) : x.k = "msg" /\ ~(x.data /\ reverted)}}

\* persist_output_utxos / insert_coin: outputs with the amounts of the executed transaction
IsCoinOut(o) == o.k \in {"coin", "change", "variable"}
NewCoins(tx, r) ==
  {[id |-> CoinId(tx.id, i - 1), o |-> r.outs[i].to, am |-> r.outs[i].am, as |-> tx.outs[i].as] :
     i \in {j \in DOMAIN tx.outs : IsCoinOut(tx.outs[j]) /\ r.outs[j].am > 0}}
CreateEvents(tx, r) ==
  FoldLeft(LAMBDA a, i :
             IF IsCoinOut(tx.outs[i]) /\ r.outs[i].am > 0
             THEN Append(a, Ev("CC", CoinId(tx.id, i - 1), r.outs[i].to, r.outs[i].am, tx.outs[i].as))
             ELSE a, <<>>, [i \in DOMAIN tx.outs |-> i])

\* contract storage: the script's operations, committed only when the script does not revert
SetSlot(c, k, v) == [c EXCEPT !.slots = {s \in @ : s.k # k} \cup {[k |-> k, v |-> v]}]
BalOf(c, as) == LET B == {b \in c.bals : b.as = as} IN IF B = {} THEN 0 ELSE Pick(B).am
\* balance_increase / balance_decrease do not touch the table when the amount is zero
AddBal(c, as, d) == IF d = 0 THEN c ELSE [c EXCEPT !.bals = {b \in @ : b.as # as} \cup {[as |-> as, am |-> BalOf(c, as) + d]}]
OnContract(cs, id, F(_)) == {IF c.id = id THEN F(c) ELSE c : c \in cs}
ApplyOp(cs, op) ==
  IF op.op \in {"call", "callrvrt"} THEN
    OnContract(cs, op.c, LAMBDA c : IF op.fwd > 0 THEN AddBal(SetSlot(c, op.slot, op.val), Base, op.fwd)
                                     ELSE SetSlot(c, op.slot, op.val))
  ELSE IF op.op = "ctro" THEN OnContract(cs, op.c, LAMBDA c : AddBal(c, Base, 0 - op.am))
  ELSE cs
ApplyOps(cs, ops) == FoldLeft(ApplyOp, cs, ops)

\* ContractsLatestUtxo follows every contract output, also for reverted scripts
TouchUtxos(cs, tx) ==
  LET touched == {i \in DOMAIN tx.outs : tx.outs[i].k = "contract"} IN
  {IF \E i \in touched : tx.ins[tx.outs[i].in + 1].id = c.id
   THEN [c EXCEPT !.utxo = CoinId(tx.id, Pick({i \in touched : tx.ins[tx.outs[i].in + 1].id = c.id}) - 1)]
   ELSE c : c \in cs}
Created(tx) ==
  IF tx.kind = "create"
  THEN {[id |-> tx.c, slots |-> {}, bals |-> {},
         utxo |-> CoinId(tx.id, Pick({i \in DOMAIN tx.outs : tx.outs[i].k = "created"}) - 1)]}
  ELSE {}

ApplyTxState(s, tx, r) ==
  LET reverted == r.res = "Revert" IN
  [s EXCEPT
     !.coins = {c \in @ : c.id \notin SpentCoins(tx)} \cup NewCoins(tx, r),
     !.msgs = {m \in @ : m.id \notin SpentMsgs(tx, reverted)},
     !.contracts = TouchUtxos(IF reverted THEN @ ELSE ApplyOps(@, tx.ops), tx) \cup Created(tx),
     !.processed = @ \cup {tx.id}]

ApplyTxBlk(b, tx, r) ==
  LET reverted == r.res = "Revert" IN
  [b EXCEPT
     !.txs = Append(@, [id |-> tx.id, res |-> r.res, fee |-> r.fee, gas |-> r.gas, size |-> r.size,
                        outs |-> r.outs, msgs |-> r.msgs]),
     !.fees = @ + r.fee, !.gas = @ + r.gas, !.size = @ + r.size, !.count = @ + 1,
     !.events = @ \o SpendEvents(tx, reverted) \o CreateEvents(tx, r),
     !.msgCount = @ + (IF reverted THEN 0 ELSE r.msgs)]

\* what the executed transaction's outputs must look like (amount of change is not predicted)
OutsShape(tx, r) ==
  /\ Len(r.outs) = Len(tx.outs)
  /\ \A i \in DOMAIN tx.outs :
       LET o == tx.outs[i] IN
       /\ o.k = "coin" => r.outs[i].am = o.am /\ r.outs[i].to = o.to
       /\ o.k = "change" => r.outs[i].to = o.to /\ r.outs[i].am >= 0
       /\ o.k = "variable" => (IF r.res = "Revert" THEN r.outs[i].am = 0
                                ELSE r.outs[i].am = SeqSum(tx.ops, LAMBDA op : IF op.op \in {"tro", "ctro"} /\ op.out = i - 1 THEN op.am ELSE 0))

(* ------------------------------------------------------------------------ *)
(* ForcedTx: relayed transactions run first, at gas price 0, no gas check    *)
(* ------------------------------------------------------------------------ *)
ForcedGuard(id, r) ==
  /\ phase = "producing" /\ blk.stage = "da" /\ DaDone /\ blk.forced # <<>> /\ id = Head(blk.forced)
  /\ IsTx(id)
  /\ LET tx == Tx(id) reason == ExecReason(tx, 0) IN
     IF reason # "" THEN r.res = "Fail" /\ r.reason = reason
     ELSE /\ r.res = (IF WillRevert(tx) THEN "Revert" ELSE "Ok") /\ OutsShape(tx, r)
ForcedEffect(id, r) ==
  LET tx == Tx(id) IN
  /\ IF r.res \notin {"Ok", "Revert"} \/ ~IsTx(id)
     THEN /\ w' = w
          /\ blk' = [blk EXCEPT !.forced = Tail(@), !.events = Append(@, EvId("FF", NameId(id)))]
     ELSE /\ w' = ApplyTxState(w, tx, r)
          /\ blk' = [ApplyTxBlk(blk, tx, r) EXCEPT !.forced = Tail(@)]
  /\ UNCHANGED <<phase, cfg, chain, prev, prod, vals, tampers, gh>>
  /\ act' = [name |-> "ForcedTx", id |-> id, res |-> r.res]
ForcedTx(id, r) == ForcedGuard(id, r) /\ ForcedEffect(id, r)

ForcedDone == DaDone /\ blk.forced = <<>>

(* ------------------------------------------------------------------------ *)
(* Ask: TransactionsSource::next(remaining gas, remaining count, remaining size) *)
(* ------------------------------------------------------------------------ *)
AskGuard(q) ==
  /\ phase = "producing" /\ blk.stage \in {"da", "l2"} /\ ForcedDone
  /\ q.gas = Max2(0, cfg.gasLimit - blk.gas)
  /\ q.n = Max2(0, cfg.maxTx - blk.count)
  /\ q.size = Max2(0, cfg.sizeLimit - blk.size)
AskEffect(q) ==
  /\ blk' = [blk EXCEPT !.stage = "l2", !.asks = Append(@, [gas |-> q.gas, n |-> q.n, size |-> q.size,
                                           usedGas |-> blk.gas, usedSize |-> blk.size, count |-> blk.count])]
  /\ UNCHANGED <<phase, cfg, chain, prev, w, prod, vals, tampers, gh>>
  /\ act' = [name |-> "Ask"]
Ask(q) == AskGuard(q) /\ AskEffect(q)

(* ------------------------------------------------------------------------ *)
(* TryTx                                                                      *)
(* ------------------------------------------------------------------------ *)
TryGuard(id, r) ==
  /\ phase = "producing" /\ blk.stage = "l2" /\ IsTx(id)
  /\ LET tx == Tx(id) reason == L2Reason(tx, r) IN
     IF reason # "" THEN r.res = "Skip" /\ r.reason = reason
     ELSE /\ r.res = (IF WillRevert(tx) THEN "Revert" ELSE "Ok") /\ OutsShape(tx, r)
          /\ r.gas <= r.maxGas
TryEffect(id, r) ==
  LET tx == Tx(id) IN
  /\ IF r.res \notin {"Ok", "Revert"} \/ ~IsTx(id)
     THEN /\ w' = w
          /\ blk' = [blk EXCEPT !.skipped = Append(@, [id |-> id, reason |-> r.reason])]
     ELSE /\ w' = ApplyTxState(w, tx, r)
          /\ blk' = ApplyTxBlk(blk, tx, r)
  /\ UNCHANGED <<phase, cfg, chain, prev, prod, vals, tampers, gh>>
  /\ act' = [name |-> "TryTx", id |-> id, res |-> r.res]
TryTx(id, r) == TryGuard(id, r) /\ TryEffect(id, r)

(* ------------------------------------------------------------------------ *)
(* Mint: produce_mint_tx + execute_mint                                      *)
(* ------------------------------------------------------------------------ *)
MintAmount == IF blk.cb = None THEN 0 ELSE blk.fees
MintGuard(m) ==
  /\ phase = "producing" /\ blk.stage = "l2" /\ ~blk.foundMint
  /\ m.idx = blk.count /\ m.gp = blk.gp /\ m.cb = blk.cb /\ m.amt = MintAmount
  /\ m.id \notin w.processed
  /\ blk.cb # None => HasContract(w, blk.cb)
MintState(s, m) ==
  [s EXCEPT
     !.contracts = IF m.cb = None THEN @
                   ELSE OnContract(@, m.cb, LAMBDA c : [AddBal(c, Base, m.amt) EXCEPT !.utxo = CoinId(m.id, 0)]),
     !.processed = @ \cup {m.id}]
MintBlk(b, m) ==
  [b EXCEPT !.txs = Append(@, [id |-> m.id, res |-> "Ok", fee |-> 0, gas |-> 0, size |-> 0, outs |-> <<>>, msgs |-> 0]),
            !.count = @ + 1, !.foundMint = TRUE, !.stage = "minted", !.mint = m]
MintEffect(m) ==
  /\ w' = MintState(w, m)
  /\ blk' = MintBlk(blk, m)
  /\ UNCHANGED <<phase, cfg, chain, prev, prod, vals, tampers, gh>>
  /\ act' = [name |-> "Mint", idx |-> m.idx, amt |-> m.amt]
Mint(m) == MintGuard(m) /\ MintEffect(m)

(* ------------------------------------------------------------------------ *)
(* ProduceEnd: what produce_without_commit returned                           *)
(* ------------------------------------------------------------------------ *)
\* production fails as a whole when the coinbase contract does not exist (execute_mint's input check)
ProduceFails == blk.cb # None /\ ~HasContract(w, blk.cb)

EndGuard(p) ==
  /\ phase = "producing"
  /\ IF p.ok
     THEN /\ blk.stage = "minted"
          /\ p.txs = MapSeq(blk.txs, LAMBDA e : e.id)
          /\ p.events = blk.events
          /\ p.msgCount = blk.msgCount
          /\ p.da = blk.da /\ p.h = blk.h
          /\ p.inbox = RootOf(chain.da, blk.da)
          /\ \A i \in DOMAIN p.statuses :
               /\ p.statuses[i].id = blk.txs[i].id /\ p.statuses[i].res = blk.txs[i].res
               /\ p.statuses[i].fee = blk.txs[i].fee /\ p.statuses[i].gas = blk.txs[i].gas
          /\ Len(p.statuses) = Len(blk.txs)
     \* a failed production returns no per-transaction result: only the relayer calls are known
     ELSE blk.stage \in {"da", "l2"} /\ ProduceFails /\ p.err = "ContractDoesNotExist"
EndEffect(p) ==
  /\ phase' = IF p.ok THEN "produced" ELSE "failed"
  /\ prod' = p
  /\ UNCHANGED <<cfg, chain, prev, w, blk, vals, tampers, gh>>
  /\ act' = [name |-> "ProduceEnd", ok |-> p.ok]
ProduceEnd(p) == EndGuard(p) /\ EndEffect(p)

(* ------------------------------------------------------------------------ *)
(* Validate: validate_block on the same parent.  The abstract replay below   *)
(* is the validation path: no source, no skips, no gas check, mint checked.  *)
(* ------------------------------------------------------------------------ *)
\* ---- abstract validate_block: DA import, relayed transactions, then the block's transactions
\* with no source, no skipping and no gas check; the mint is checked instead of constructed.
RangeSeq(a, b) == [i \in 1..Max2(0, b - a + 1) |-> a + i - 1]
ReplayInit == [s |-> chain, b |-> [NoBlk EXCEPT !.h = blk.h, !.da = blk.da, !.gp = blk.gp, !.cb = blk.cb, !.stage = "da"], ok |-> TRUE]
ReplayDa(st) == FoldLeft(LAMBDA a, h : [s |-> DaStep(a.s, a.b, h).s, b |-> DaStep(a.s, a.b, h).b, ok |-> TRUE], st, RangeSeq(chain.da + 1, blk.da))
ReplayExec(st, e) ==
  IF ~st.ok THEN st
  ELSE IF e.id = blk.mint.id THEN
    LET m == blk.mint IN
    IF st.b.foundMint \/ m.idx # st.b.count \/ m.amt # (IF m.cb = None THEN 0 ELSE st.b.fees)
       \/ (m.cb # None /\ ~HasContract(st.s, m.cb)) \/ m.id \in st.s.processed
    THEN [st EXCEPT !.ok = FALSE]
    ELSE [s |-> MintState(st.s, m), b |-> MintBlk(st.b, m), ok |-> TRUE]
  ELSE IF ~IsTx(e.id) \/ ExecReasonIn(st.s, st.b, Tx(e.id), IF st.b.stage = "da" THEN 0 ELSE blk.mint.gp) # "" THEN [st EXCEPT !.ok = FALSE]
  ELSE [s |-> ApplyTxState(st.s, Tx(e.id), e), b |-> ApplyTxBlk(st.b, Tx(e.id), e), ok |-> TRUE]
ReplayForced(st0) ==
  FoldLeft(LAMBDA st, id :
             IF ~st.ok THEN st
             ELSE IF ExecReasonIn(st.s, st.b, Tx(id), 0) # ""
                  THEN [st EXCEPT !.b.events = Append(@, EvId("FF", NameId(id)))]
             ELSE IF st.b.count + 1 > Len(blk.txs) \/ blk.txs[st.b.count + 1].id # id THEN [st EXCEPT !.ok = FALSE]
             ELSE ReplayExec(st, blk.txs[st.b.count + 1]),
           st0, st0.b.forced)
ReplayRest(st0) == FoldLeft(ReplayExec, [st0 EXCEPT !.b.stage = "l2"], SubSeq(blk.txs, st0.b.count + 1, Len(blk.txs)))
Replayed == ReplayRest(ReplayForced(ReplayDa(ReplayInit)))
ReplayAccepts ==
  LET r == Replayed IN
  /\ r.ok /\ r.b.foundMint
  /\ Proj(r.s) = Proj(w) /\ r.b.events = blk.events /\ r.b.msgCount = blk.msgCount
  /\ MapSeq(r.b.txs, LAMBDA e : e.id) = MapSeq(blk.txs, LAMBDA e : e.id)
  /\ r.b.fees = blk.fees /\ r.b.gas = blk.gas

ValidateGuard(v) ==
  /\ phase = "produced" /\ Len(vals) < 2
  /\ v.res = "Accept" /\ v.dg = prod.dg
  /\ v.daCalls = blk.daCalls
ValidateEffect(v) ==
  /\ vals' = Append(vals, v)
  /\ UNCHANGED <<phase, cfg, chain, prev, w, blk, prod, tampers, gh>>
  /\ act' = [name |-> "Validate"]
Validate(v) == ValidateGuard(v) /\ ValidateEffect(v)

\* validation of a block that deviates from the produced one in exactly one way
TamperKinds == {"mintInflate", "mintAmount", "mintGasPrice", "mintIndex", "noMint", "mintNotLast", "mintRecipient", "dupTx", "dupInBlock", "dropTx"}
TamperReason(kind) ==
  CASE kind = "mintAmount" -> "CoinbaseAmountMismatch"
    [] kind = "mintInflate" -> "CoinbaseAmountMismatch"
    [] kind = "mintGasPrice" -> "Rejected"   \* validation takes the gas price from the mint itself; only the header commits to it
    [] kind = "mintIndex" -> "MintHasUnexpectedIndex"
    [] kind = "noMint" -> "MintMissing"
    [] kind = "mintNotLast" -> "MintMissing"
    [] kind = "mintRecipient" -> "Rejected"
    [] kind = "dupTx" -> "TransactionIdCollision"
    [] kind = "dupInBlock" -> "TransactionIdCollision"
    [] kind = "dropTx" -> "Rejected"
    [] OTHER -> "Rejected"
TamperGuard(t) ==
  /\ phase = "produced" /\ t.kind \in TamperKinds
  /\ t.res = "Reject"
  /\ TamperReason(t.kind) # "Rejected" => t.reason = TamperReason(t.kind)
TamperEffect(t) ==
  /\ tampers' = Append(tampers, t)
  /\ UNCHANGED <<phase, cfg, chain, prev, w, blk, prod, vals, gh>>
  /\ act' = [name |-> "Tamper", kind |-> t.kind]
Tamper(t) == TamperGuard(t) /\ TamperEffect(t)

(* ------------------------------------------------------------------------ *)
(* Commit / Abort                                                             *)
(* ------------------------------------------------------------------------ *)

CommitGuard(st) ==
  /\ phase = "produced"
  /\ Proj(st) = Proj(w) /\ st.h = blk.h /\ st.da = blk.da
CommitEffect(st) ==
  /\ phase' = "committed" /\ chain' = st /\ prev' = chain
  /\ gh' = [spent |-> gh.spent \cup EvIds(prod.events, "CX") \cup EvIds(prod.events, "MX"),
            created |-> gh.created \cup EvIds(prod.events, "CC"),
            executed |-> gh.executed \o prod.txs,
            imported |-> gh.imported \cup {e.t : e \in EvIds(prod.events, "MI")}]
  /\ UNCHANGED <<cfg, w, blk, prod, vals, tampers>>
  /\ act' = [name |-> "Commit"]
Commit(st) == CommitGuard(st) /\ CommitEffect(st)

AbortGuard == phase = "failed"
AbortEffect ==
  /\ phase' = "idle" /\ w' = chain /\ blk' = NoBlk /\ prod' = NoProd
  /\ UNCHANGED <<cfg, chain, prev, vals, tampers, gh>>
  /\ act' = [name |-> "Abort"]
Abort == AbortGuard /\ AbortEffect

(* ======================================================================== *)
(* Properties                                                                 *)
(* ======================================================================== *)
Produced == phase \in {"produced", "committed"}
Committed == phase = "committed"

(* ---- C01 ----------------------------------------------------------------*)
\* every validation of the produced block is accepted with the digests of production
ValidateAccepts ==
  Produced => \A i \in DOMAIN vals : vals[i].res = "Accept" /\ vals[i].dg = prod.dg
\* the block handed to validation is the one the rules derive (transactions, events, roots, statuses)
BlockAsSpec ==
  Produced =>
    /\ prod.txs = MapSeq(blk.txs, LAMBDA e : e.id)
    /\ MapSeq(prod.statuses, LAMBDA e : e.res) = MapSeq(blk.txs, LAMBDA e : e.res)
\* the abstract validation path accepts the produced block with the same effects
ReplayOk == phase = "produced" => ReplayAccepts
\* what is committed is what validation accepted
CommitIsProduced == Committed => Proj(chain) = Proj(w)

(* ---- C02 ----------------------------------------------------------------*)
\* impl-logged events of the produced block
PE == prod.events
SpentExisted ==
  Produced => \A i \in DOMAIN PE :
    /\ PE[i].k = "CX" => \/ PE[i].id \in Ids((IF Committed THEN prev ELSE chain).coins)
                         \/ \E j \in 1..(i - 1) : PE[j].k = "CC" /\ PE[j].id = PE[i].id
    /\ PE[i].k = "MX" => \/ PE[i].id.t \in Ids((IF Committed THEN prev ELSE chain).msgs)
                         \/ \E j \in 1..(i - 1) : PE[j].k = "MI" /\ PE[j].id = PE[i].id
SpentOnce ==
  /\ phase = "produced" => \A i \in DOMAIN PE : PE[i].k \in {"CX", "MX"} =>
        /\ PE[i].id \notin gh.spent
        /\ \A j \in DOMAIN PE : (j # i /\ PE[j].k = PE[i].k) => PE[j].id # PE[i].id
CreatedFresh ==
  /\ phase = "produced" => \A i \in DOMAIN PE : PE[i].k = "CC" =>
        /\ PE[i].am > 0
        /\ PE[i].id \notin gh.created
        /\ \A j \in DOMAIN PE : (j # i /\ PE[j].k = "CC") => PE[j].id # PE[i].id
  /\ \A c \in chain.coins : c.am > 0
\* unspent' = (unspent \ consumed) \cup created, record by record
EventsAreDiff ==
  Committed =>
    LET cx == EvIds(PE, "CX") cc == {PE[i] : i \in {j \in DOMAIN PE : PE[j].k = "CC"}}
        mx == {e.t : e \in EvIds(PE, "MX")} mi == {PE[i] : i \in {j \in DOMAIN PE : PE[j].k = "MI"}} IN
    /\ chain.coins = {c \in prev.coins : c.id \notin cx}
                     \cup {[id |-> e.id, o |-> e.o, am |-> e.am, as |-> e.as] : e \in {x \in cc : x.id \notin cx}}
    /\ Ids(chain.msgs) = (Ids(prev.msgs) \ mx) \cup ({e.id.t : e \in mi} \ mx)
    /\ \A m \in chain.msgs : m \in prev.msgs \/ \E e \in mi : e.id.t = m.id /\ e.o = m.o /\ e.am = m.am
CoinsAsSpec == Committed => chain.coins = w.coins /\ chain.msgs = w.msgs
EventsAsSpec == Produced /\ prod.ok => prod.events = blk.events

(* ---- C03 ----------------------------------------------------------------*)
MintRules ==
  Produced =>
    LET n == Len(prod.txs) IN
    /\ n >= 1
    /\ prod.kinds[n] = "mint" /\ \A i \in 1..(n - 1) : prod.kinds[i] # "mint"
    /\ prod.mint.id = prod.txs[n]
    /\ prod.mint.idx = n - 1
    /\ prod.mint.gp = blk.gp
    /\ prod.mint.cb = blk.cb
    /\ prod.mint.amt = (IF blk.cb = None THEN 0 ELSE SeqSum(prod.statuses, LAMBDA s : s.fee))
Limits ==
  Produced =>
    /\ SeqSum(prod.statuses, LAMBDA s : s.gas) <= cfg.gasLimit
    /\ SeqSum(prod.sizes, LAMBDA s : s) <= cfg.sizeLimit
    /\ Len(prod.txs) - 1 <= cfg.maxTx
\* the source is asked for exactly what is left
AskedWhatIsLeft ==
  \A i \in DOMAIN blk.asks : LET q == blk.asks[i] IN
    /\ q.gas = Max2(0, cfg.gasLimit - q.usedGas)
    /\ q.size = Max2(0, cfg.sizeLimit - q.usedSize)
    /\ q.n = Max2(0, cfg.maxTx - q.count)
TamperedRejected == \A i \in DOMAIN tampers : tampers[i].res = "Reject"
MintTamperedRejected == \A i \in DOMAIN tampers : tampers[i].kind \in {"mintInflate", "mintAmount", "mintGasPrice", "mintIndex", "noMint", "mintNotLast"} => tampers[i].res = "Reject"

(* ---- C04 ----------------------------------------------------------------*)
StateOf(cs) == {[id |-> c.id, slots |-> c.slots, bals |-> c.bals] : c \in cs}
\* contract state and balances are those of the successful scripts only; retryable messages of
\* reverted scripts stay; skipped transactions leave nothing
RevertFrame ==
  Committed =>
    /\ StateOf(chain.contracts) = StateOf(w.contracts)
    /\ chain.msgs = w.msgs
    /\ chain.coins = w.coins
    /\ prod.msgCount = blk.msgCount
SkipFrame ==
  Produced /\ prod.ok =>
    /\ prod.events = blk.events
    /\ \A i \in DOMAIN blk.skipped : LET id == blk.skipped[i].id IN
         \/ \E j \in DOMAIN blk.txs : blk.txs[j].id = id      \* the same id executed before/after in this block
         \/ /\ id \notin ToSet(prod.txs)
            /\ Committed => (id \in chain.processed <=> id \in prev.processed)

(* ---- C05 ----------------------------------------------------------------*)
RelayerRange(p, d) == FoldLeft(LAMBDA a, h : a \o RelayerAt(h), <<>>, RangeSeq(p + 1, d))
ParentDa == IF Committed THEN prev.da ELSE chain.da
DaExact == Produced /\ prod.ok => blk.daCalls = RangeSeq(ParentDa + 1, prod.da)
ImportedInOrder ==
  Produced /\ prod.ok =>
    LET mi == SelectSeq(PE, LAMBDA e : e.k = "MI")
        ms == SelectSeq(RelayerRange(ParentDa, prod.da), LAMBDA e : e.k = "msg") IN
    /\ Len(mi) = Len(ms)
    /\ \A i \in DOMAIN mi : mi[i].id.t = ms[i].id /\ mi[i].am = ms[i].am /\ mi[i].o = ms[i].o
MessageImportedOnce ==
  phase = "produced" =>
    LET mi == SelectSeq(PE, LAMBDA e : e.k = "MI") IN
    /\ NoDup(mi) /\ \A i \in DOMAIN mi : mi[i].id.t \notin gh.imported
ForcedExecutedOrFailed ==
  Produced /\ prod.ok =>
    \A e \in ToSet(RelayerRange(ParentDa, prod.da)) : e.k = "tx" =>
       \/ e.id \in ToSet(prod.txs)
       \/ \E i \in DOMAIN PE : PE[i].k = "FF" /\ PE[i].id.t = e.id
InboxRoot == Produced /\ prod.ok => prod.inbox = RootOf(ParentDa, prod.da)
MessagesLand == Committed => \A e \in ToSet(RelayerRange(prev.da, chain.da)) : e.k = "msg" =>
                   (e.id \in Ids(chain.msgs) \/ \E i \in DOMAIN PE : PE[i].k = "MX" /\ PE[i].id.t = e.id)

(* ---- C06 ----------------------------------------------------------------*)
ExecutedOnce ==
  /\ NoDup(gh.executed)
  /\ phase = "produced" => NoDup(prod.txs) /\ ToSet(prod.txs) \cap ToSet(gh.executed) = {}
\* the id check can only stop a repetition of what was recorded: every id executed by a committed block
\* (mint included) is in the ProcessedTransactions table read back after the commit
ProcessedRecorded == Committed => ToSet(prod.txs) \subseteq chain.processed
DupRejected == \A i \in DOMAIN tampers : tampers[i].kind \in {"dupTx", "dupInBlock"} => tampers[i].res = "Reject"

(* ---- C07 ----------------------------------------------------------------*)
\* The harness built with the wasm strategy runs every produce / validate / tampered validate with both
\* Executor::native and Executor::wasm on the same parent state and inputs; the events of the primary
\* strategy are the trace (accepted by this spec), the other strategy's outcome is in the `other` field:
\* same success, same block id, same digests of Changes / statuses / events, same skipped list, or the
\* same error class.
HasOther(r) == "other" \in DOMAIN r
WasmEqualsNative ==
  /\ (phase \in {"produced", "committed", "failed"} /\ HasOther(prod)) =>
        /\ prod.other.ok = prod.ok
        /\ prod.ok => /\ prod.other.bid = prod.bid /\ prod.other.dg = prod.dg
                      /\ prod.other.skipped = prod.skippedIds
        /\ ~prod.ok => prod.other.err = prod.err
  /\ \A i \in DOMAIN vals : HasOther(vals[i]) =>
        /\ vals[i].other.res = vals[i].res /\ vals[i].other.reason = vals[i].reason
        /\ vals[i].other.dg = vals[i].dg
  /\ \A i \in DOMAIN tampers : HasOther(tampers[i]) =>
        tampers[i].other.res = tampers[i].res /\ tampers[i].other.reason = tampers[i].reason

(* ---- type/sanity ----------------------------------------------------------*)
PhaseOk == phase \in {"unborn", "idle", "producing", "produced", "failed", "committed"}

StateRec == [phase |-> phase, chain |-> chain, w |-> w, blk |-> blk]
=============================================================================
