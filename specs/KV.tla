---------------------------- MODULE KV ----------------------------
(* C10 — storage transactions (crates/storage/src/transactional.rs, kv_store.rs,          *)
(* structured_storage.rs).                                                                 *)
(*                                                                                         *)
(* Implementation side (transcribed): a base store (`InMemoryStorage`) and a stack of      *)
(* `StorageTransaction`s, each an overlay `Changes` map  cell -> Insert(v) | Remove  plus   *)
(* a `ConflictPolicy`.  One action per public call of KeyValueInspect / KeyValueMutate /   *)
(* StorageTransaction::{transaction, commit, into_inner, into_changes} /                   *)
(* Modifiable::commit_changes.  A finished sibling is a detached `Changes` value (`det`)   *)
(* that is later merged into the current top with `commit_changes`.                        *)
(*                                                                                         *)
(* Ghost side (what the property talks about): `gmaps` is the plain map model — one full   *)
(* map per nesting level, copied on Begin; `gwr` / `gdet` remember which cells each         *)
(* transaction wrote.                                                                      *)
EXTENDS Integers, Sequences, FiniteSets, TLC

CONSTANTS CellSet,       \* set of <<column, key>> pairs (small ints); keys ordered as ints
          NVals,         \* value ids 1..NVals (0 = absent)
          MaxDepth,      \* nesting bound
          MaxDet,        \* bound on detached sibling change sets
          Pols,          \* subset of {"F", "O"}  (ConflictPolicy::Fail / Overwrite)
          Offs, Lens,    \* offsets / buffer lengths used by read_exact / read_zerofill
          Reads          \* BOOLEAN: are Get / Exists / Size explored (bounds the graph only)

Cells == CellSet
Vals  == 1..NVals
\* the concrete byte strings behind the value ids (the harness uses the same table)
Bytes(v) == CASE v = 1 -> <<17>>
              [] v = 2 -> <<49, 50, 51>>
              [] v = 3 -> <<33>>
              [] OTHER -> <<>>
VLen(v) == Len(Bytes(v))

\* change-map codes: -1 = no entry, 0 = WriteOperation::Remove, v = WriteOperation::Insert(v)
NoChanges == [c \in Cells |-> -1]
EmptyMap  == [c \in Cells |-> 0]
ColOf(c) == c[1]
KeyOf(c) == c[2]

VARIABLES base,          \* [Cells -> 0..NVals]   InMemoryStorage contents
          stack,         \* Seq of [ch: [Cells -> -1..NVals], pol: "F"|"O"]
          det,           \* Seq of change maps (finished siblings, `into_changes()`)
          view,          \* what `get` returns for every cell at the top (impl side, logged)
          gmaps,         \* ghost: Seq of full maps, gmaps[d+1] = model of the view at depth d
          gwr,           \* ghost: Seq of sets of cells written in frame d
          gdet,          \* ghost: Seq of [w: cells written, m: model map] per detached sibling
          act

vars == <<base, stack, det, view, gmaps, gwr, gdet>>
D == Len(stack)

(* ---- transcription of the read path: get_from_changes, else self.storage.<op> -------*)
RECURSIVE Lookup(_, _, _, _)
Lookup(b, st, d, c) ==
  IF d = 0 THEN b[c]
  ELSE IF st[d].ch[c] # -1 THEN st[d].ch[c]          \* Insert(v) -> v ; Remove -> 0 (None)
  ELSE Lookup(b, st, d - 1, c)
ViewAt(b, st, d) == [c \in Cells |-> Lookup(b, st, d, c)]

Zeros(n) == [i \in 1..n |-> 0]
Min(a, b) == IF a <= b THEN a ELSE b
\* result records of the read operations
RNF  == [k |-> "nf",  n |-> 0, buf |-> <<>>]        \* StorageReadError::KeyNotFound
ROOB == [k |-> "oob", n |-> 0, buf |-> <<>>]        \* StorageReadError::OutOfBounds
ROk(n, buf) == [k |-> "ok", n |-> n, buf |-> buf]
\* read_exact: value.get(offset..offset+buf_len) else OutOfBounds; Ok(buf_len)
ReadExactOf(v, off, n) ==
  IF v = 0 THEN RNF
  ELSE IF off + n > VLen(v) THEN ROOB
  ELSE ROk(n, SubSeq(Bytes(v), off + 1, off + n))
\* read_zerofill: split_at_checked(offset) else OutOfBounds; copy, zero-fill; Ok(value.len())
ReadZeroOf(v, off, n) ==
  IF v = 0 THEN RNF
  ELSE IF off > VLen(v) THEN ROOB
  ELSE LET m == Min(n, VLen(v) - off) IN
       ROk(VLen(v), SubSeq(Bytes(v), off + 1, off + m) \o Zeros(n - m))
SizeOf(v) == IF v = 0 THEN -1 ELSE VLen(v)

(* ---- transcription of Modifiable::commit_changes --------------------------------------*)
Overlay(old, ch) == [c \in Cells |-> IF ch[c] # -1 THEN ch[c] ELSE old[c]]
\* InMemoryStorage::commit_changes: Insert -> insert, Remove -> remove; never fails
BaseApply(b, ch) == [c \in Cells |-> IF ch[c] = -1 THEN b[c] ELSE ch[c]]
ColsIn(ch) == {ColOf(c) : c \in {x \in Cells : ch[x] # -1}}
Conflicts(pch, ch) == {c \in Cells : ch[c] # -1 /\ pch[c] # -1}
\* InMemoryTransaction::commit_changes under ConflictPolicy::Fail with a conflict: the columns
\* are visited in HashMap order; columns visited before the failing one (all conflict-free)
\* are applied completely, the failing column up to its first conflicting key (BTreeMap order).
PartialResults(pch, ch) ==
  LET cf == Conflicts(pch, ch)
      badCols == {ColOf(c) : c \in cf}
      okCols  == ColsIn(ch) \ badCols
      FirstBad(col) == CHOOSE k \in {KeyOf(c) : c \in {x \in cf : ColOf(x) = col}} :
                         \A c \in cf : ColOf(c) = col => k <= KeyOf(c)
  IN { [c \in Cells |->
          IF ch[c] # -1 /\ (ColOf(c) \in done \/ (ColOf(c) = fc /\ KeyOf(c) < FirstBad(fc)))
          THEN ch[c] ELSE pch[c]] : done \in SUBSET okCols, fc \in badCols }

(* ---- ghost operators (shared with the trace spec's observe mode) ----------------------*)
GhostWrite(c, v) ==
  /\ gmaps' = [gmaps EXCEPT ![D + 1][c] = v]
  /\ gwr' = [gwr EXCEPT ![D] = @ \cup {c}]
  /\ gdet' = gdet
GhostSame == gmaps' = gmaps /\ gwr' = gwr /\ gdet' = gdet
GhostBegin ==
  /\ gmaps' = Append(gmaps, gmaps[D + 1])
  /\ gwr' = Append(gwr, {})
  /\ gdet' = gdet
GhostDrop ==
  /\ gmaps' = SubSeq(gmaps, 1, D)
  /\ gwr' = SubSeq(gwr, 1, D - 1)
  /\ gdet' = gdet
GhostDetach ==
  /\ gmaps' = SubSeq(gmaps, 1, D)
  /\ gwr' = SubSeq(gwr, 1, D - 1)
  /\ gdet' = Append(gdet, [w |-> gwr[D],
                           m |-> [c \in Cells |-> IF c \in gwr[D] THEN gmaps[D + 1][c] ELSE 0]])
RemoveAt(s, j) == SubSeq(s, 1, j - 1) \o SubSeq(s, j + 1, Len(s))
\* net changes g = [w, m] applied to level p (0 = base); `applied` = the cells that were applied
\* (all of g.w on success; what the implementation actually applied on a rejected merge)
MergedMap(old, g, applied) == [c \in Cells |-> IF c \in applied THEN g.m[c] ELSE old[c]]
GhostMergeMaps(p, g, applied, gm, gw) ==
  /\ gmaps' = [gm EXCEPT ![p + 1] = MergedMap(gm[p + 1], g, applied)]
  /\ gwr' = IF p = 0 THEN gw ELSE [gw EXCEPT ![p] = @ \cup applied]
GhostCommit(applied) ==        \* top frame into its parent, then pop
  /\ GhostMergeMaps(D - 1, [w |-> gwr[D], m |-> gmaps[D + 1]], applied,
                    SubSeq(gmaps, 1, D), SubSeq(gwr, 1, D - 1))
  /\ gdet' = gdet
GhostMerge(j, applied) ==      \* detached sibling j into the current top
  /\ GhostMergeMaps(D, gdet[j], applied, gmaps, gwr)
  /\ gdet' = RemoveAt(gdet, j)
GhostDropDet(j) == gmaps' = gmaps /\ gwr' = gwr /\ gdet' = RemoveAt(gdet, j)

(* ---- actions ------------------------------------------------------------------------*)
Init ==
  /\ base = EmptyMap /\ stack = <<>> /\ det = <<>> /\ view = EmptyMap
  /\ gmaps = <<EmptyMap>> /\ gwr = <<>> /\ gdet = <<>>
  /\ act = [name |-> "Init"]

ViewOK == view' = ViewAt(base', stack', Len(stack'))
\* act records: cell operations carry col/key, writes the value id, reads offset/length
AW(name, c, v, res) == [name |-> name, col |-> ColOf(c), key |-> KeyOf(c), v |-> v, res |-> res]
AC(name, c, res) == [name |-> name, col |-> ColOf(c), key |-> KeyOf(c), res |-> res]
AR(name, c, off, n, res) ==
  [name |-> name, col |-> ColOf(c), key |-> KeyOf(c), off |-> off, n |-> n, res |-> res]

\* StorageTransaction::transaction(storage, policy, Default::default())
Begin(pol) ==
  /\ D < MaxDepth
  /\ stack' = Append(stack, [ch |-> NoChanges, pol |-> pol])
  /\ UNCHANGED <<base, det>> /\ ViewOK /\ GhostBegin
  /\ act' = [name |-> "Begin", pol |-> pol]

SetTop(c, code) == stack' = [stack EXCEPT ![D].ch[c] = code]
Old(c) == Lookup(base, stack, D, c)

\* put / write: changes.entry(col).or_default().insert(key, Insert(value))
Put(c, v) ==
  /\ D >= 1 /\ SetTop(c, v) /\ UNCHANGED <<base, det>> /\ ViewOK /\ GhostWrite(c, v)
  /\ act' = AW("Put", c, v, 0)
Write(c, v) ==
  /\ D >= 1 /\ SetTop(c, v) /\ UNCHANGED <<base, det>> /\ ViewOK /\ GhostWrite(c, v)
  /\ act' = AW("Write", c, v, VLen(v))
\* replace: Occupied -> old operation's value ; Vacant -> self.storage.get
Replace(c, v) ==
  /\ D >= 1 /\ SetTop(c, v) /\ UNCHANGED <<base, det>> /\ ViewOK /\ GhostWrite(c, v)
  /\ act' = AW("Replace", c, v, Old(c))
Take(c) ==
  /\ D >= 1 /\ SetTop(c, 0) /\ UNCHANGED <<base, det>> /\ ViewOK /\ GhostWrite(c, 0)
  /\ act' = AC("Take", c, Old(c))
Delete(c) ==
  /\ D >= 1 /\ SetTop(c, 0) /\ UNCHANGED <<base, det>> /\ ViewOK /\ GhostWrite(c, 0)
  /\ act' = AC("Delete", c, 0)

\* reads (at any depth, depth 0 = the default methods of KeyValueInspect on the base store)
Same == UNCHANGED <<base, stack, det, view>> /\ GhostSame
Get(c)    == Reads /\ Same /\ act' = AC("Get", c, Old(c))
Exists(c) == Reads /\ Same /\ act' = AC("Exists", c, Old(c) # 0)
Size(c)   == Reads /\ Same /\ act' = AC("Size", c, SizeOf(Old(c)))
ReadExact(c, off, n) ==
  Same /\ act' = AR("ReadExact", c, off, n, ReadExactOf(Old(c), off, n))
ReadZero(c, off, n) ==
  Same /\ act' = AR("ReadZero", c, off, n, ReadZeroOf(Old(c), off, n))

Pop == SubSeq(stack, 1, D - 1)
\* into_inner().0 : the transaction is discarded
Drop ==
  /\ D >= 1 /\ stack' = Pop /\ UNCHANGED <<base, det>> /\ ViewOK /\ GhostDrop
  /\ act' = [name |-> "Drop"]
\* into_changes(): the finished sibling's change set is kept for a later commit_changes
Detach ==
  /\ D >= 1 /\ Len(det) < MaxDet
  /\ stack' = Pop /\ det' = Append(det, stack[D].ch) /\ UNCHANGED base /\ ViewOK /\ GhostDetach
  /\ act' = [name |-> "Detach"]

\* commit_changes(ch) into level p of stack `st` (0 = base): the possible outcomes
MergeResults(st, p, ch) ==
  IF p = 0 THEN {[ok |-> TRUE, b |-> BaseApply(base, ch), s |-> st]}
  ELSE IF st[p].pol = "O" \/ Conflicts(st[p].ch, ch) = {}
  THEN {[ok |-> TRUE, b |-> base, s |-> [st EXCEPT ![p].ch = Overlay(st[p].ch, ch)]]}
  ELSE {[ok |-> FALSE, b |-> base, s |-> [st EXCEPT ![p].ch = r]] : r \in PartialResults(st[p].ch, ch)}

Applied(p, oldst, newst, w, ok) ==
  IF ok \/ p = 0 THEN w ELSE {c \in Cells : newst[p].ch[c] # oldst[p].ch[c]}

\* StorageTransaction::commit(): storage.commit_changes(take(changes)) on the parent
Commit ==
  /\ D >= 1
  /\ \E r \in MergeResults(Pop, D - 1, stack[D].ch) :
       /\ base' = r.b /\ stack' = r.s
       /\ GhostCommit(Applied(D - 1, Pop, r.s, gwr[D], r.ok))
       /\ act' = [name |-> "Commit", res |-> IF r.ok THEN "ok" ELSE "err"]
  /\ UNCHANGED det /\ ViewOK
\* parent.commit_changes(sibling_changes)
Merge(j) ==
  /\ j \in 1..Len(det)
  /\ \E r \in MergeResults(stack, D, det[j]) :
       /\ base' = r.b /\ stack' = r.s
       /\ GhostMerge(j, Applied(D, stack, r.s, gdet[j].w, r.ok))
       /\ act' = [name |-> "Merge", j |-> j, res |-> IF r.ok THEN "ok" ELSE "err"]
  /\ det' = RemoveAt(det, j) /\ ViewOK
DropDet(j) ==
  /\ j \in 1..Len(det)
  /\ det' = RemoveAt(det, j) /\ UNCHANGED <<base, stack, view>> /\ GhostDropDet(j)
  /\ act' = [name |-> "DropDet", j |-> j]

Next ==
  \/ \E pol \in Pols : Begin(pol)
  \/ \E c \in Cells : \/ \E v \in Vals : Put(c, v) \/ Write(c, v) \/ Replace(c, v)
                      \/ Take(c) \/ Delete(c) \/ Get(c) \/ Exists(c) \/ Size(c)
                      \/ \E off \in Offs, n \in Lens : ReadExact(c, off, n) \/ ReadZero(c, off, n)
  \/ Drop \/ Detach \/ Commit
  \/ \E j \in 1..MaxDet : Merge(j) \/ DropDet(j)

Spec == Init /\ [][Next]_<<vars, act>>

(* ---- the property ------------------------------------------------------------------------*)
\* Reads through the transaction at the top return the model map: own pending writes and
\* removals, else the underlying storage; after commit the parent holds exactly the child's
\* net changes, after drop nothing changed; at depth 0 this is the base store's content.
ReadYourWrites == view = gmaps[D + 1]
\* every level of the implementation-side structure agrees with the model (stronger, MC side)
AllLevels == \A d \in 0..D : ViewAt(base, stack, d) = gmaps[d + 1]
Shape == Len(gmaps) = D + 1 /\ Len(gwr) = D /\ Len(gdet) = Len(det)

\* results of the individual operations against the model map of the pre-state
ModelCell == gmaps[D + 1][<<act'.col, act'.key>>]
ResultsExact == [][
  /\ act'.name = "Get"       => act'.res = ModelCell
  /\ act'.name = "Exists"    => act'.res = (ModelCell # 0)
  /\ act'.name = "Size"      => act'.res = SizeOf(ModelCell)
  /\ act'.name = "ReadExact" => act'.res = ReadExactOf(ModelCell, act'.off, act'.n)
  /\ act'.name = "ReadZero"  => act'.res = ReadZeroOf(ModelCell, act'.off, act'.n)
  /\ act'.name \in {"Replace", "Take"} => act'.res = ModelCell
  /\ act'.name = "Write"     => act'.res = VLen(act'.v)
  ]_<<vars, act>>

\* committing / merging a change set is rejected exactly when the receiving transaction has the
\* fail-on-conflict policy and both wrote the same key
ConflictExact == [][
  /\ act'.name = "Commit" =>
       (act'.res = "err") = (D >= 2 /\ stack[D - 1].pol = "F" /\ gwr[D] \cap gwr[D - 1] # {})
  /\ act'.name = "Merge" =>
       (act'.res = "err") = (D >= 1 /\ stack[D].pol = "F" /\ gdet[act'.j].w \cap gwr[D] # {})
  ]_<<vars, act>>

\* no operation panics (trace validation adds the field `panic` to the label of a logged event)
NoPanic == [][("panic" \in DOMAIN act') => ~act'.panic]_<<vars, act>>

StateRec == [base |-> base, stack |-> stack, det |-> det]
=============================================================================
