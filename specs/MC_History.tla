---------------------------- MODULE MC_History ----------------------------
EXTENDS History, Json
View_ == vars
\* one line per step of a simulated behaviour: level (1 = first step after Init) and the action
EmitStep == PrintT(<<"STEP", ToJson([n |-> TLCGet("level"), act |-> act'])>>)
=============================================================================
