---------------------------- MODULE MC_SyncState ----------------------------
EXTENDS SyncState, Json
View == vars
EmitEdge == PrintT(<<"EDGE", ToJson([src |-> StateRec, act |-> act', dst |-> StateRec'])>>)
=============================================================================
