---------------------------- MODULE Trace_History ----------------------------
(* Trace validation of Database<OnChain> over HistoricalRocksDB against History.                     *)
(* Logged: results, cached height, latest state (typed reads through latest_view), and for View      *)
(* events the outcome of view_at + typed reads.  The history tables (hset/hdiff/dup) are private to  *)
(* the store: they follow the transcription in both modes and are judged through the views.          *)
EXTENDS History, Json, IOUtils, Sequences

Rec == ndJsonDeserialize(IOEnv.TRACE)
Strict == IOEnv.STRICT = "1"

VARIABLE l
tvars == <<vars, lv, act, l>>

IsEv(e) == l <= Len(Rec) /\ Rec[l].ev = e /\ l' = l + 1

TInit == Init /\ l = 1

TReset == /\ IsEv("reset")
          /\ policy' = "unborn" /\ cached' = -1 /\ latest' = Base
          /\ hset' = {} /\ hdiff' = [h \in Heights |-> {}] /\ dup' = {}
          /\ truth' = [h \in -1..MaxH |-> Base] /\ gh' = -1
          /\ lv' = NoView /\ act' = [name |-> "reset"]

Logged(r) == cached' = r.cached /\ latest' = r.latest

TNew == IsEv("New") /\ LET r == Rec[l] IN New(r.policy)
TRestart == IsEv("Restart") /\ LET r == Rec[l] IN
  IF Strict THEN Restart(r.policy) /\ Logged(r)
  ELSE /\ policy' = r.policy /\ Logged(r)
       /\ UNCHANGED <<hset, hdiff, dup, truth, gh, lv>>
       /\ act' = [name |-> "Restart", policy |-> r.policy]

TCommit == IsEv("Commit") /\ LET r == Rec[l] IN
  IF Strict THEN Commit(r.w) /\ r.res = "Ok" /\ Logged(r)
  ELSE /\ Logged(r)
       /\ IF r.res = "Ok" THEN CommitHist(cached + 1, r.w) ELSE UNCHANGED <<hset, hdiff, dup>>
       /\ GhostCommit(r.w, r.res)
       /\ lv' = NoView
       /\ UNCHANGED policy
       /\ act' = [name |-> "Commit", w |-> r.w, res |-> r.res]

TRollback == IsEv("Rollback") /\ LET r == Rec[l] IN
  IF Strict THEN Rollback /\ r.res = RollbackRes /\ Logged(r)
  ELSE /\ Logged(r)
       /\ RollbackHist(r.res)
       /\ GhostRollback(r.res)
       /\ lv' = NoView
       /\ UNCHANGED policy
       /\ act' = [name |-> "Rollback", res |-> r.res]

TView == IsEv("View") /\ LET r == Rec[l] IN
  IF Strict THEN View(r.h) /\ lv'.ok = r.ok /\ lv'.st = r.st
  ELSE /\ lv' = [h |-> r.h, ok |-> r.ok, st |-> r.st]
       /\ UNCHANGED vars
       /\ act' = [name |-> "View", h |-> r.h]

TNext == TReset \/ TNew \/ TRestart \/ TCommit \/ TRollback \/ TView
TSpec == TInit /\ [][TNext]_tvars

TraceAccepted ==
  LET d == TLCGet("stats").diameter IN
  IF d - 1 = Len(Rec) THEN PrintT(<<"TRACE-ACCEPTED", Len(Rec)>>)
  ELSE PrintT(<<"TRACE-REJECTED", d>>) /\ PrintT(Rec[d])
=============================================================================
