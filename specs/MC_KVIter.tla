---------------------------- MODULE MC_KVIter ----------------------------
EXTENDS KVIter, Json
View == vars
EmitEdge == PrintT(<<"EDGE", ToJson([src |-> StateRec, act |-> act', dst |-> StateRec'])>>)
=============================================================================
