SPECIFICATION TSpec
INVARIANT AcceptedOnlyIfRules
INVARIANT ValidAccepted
INVARIANT MutationDetected
INVARIANT TxValidityAgrees
POSTCONDITION TraceAccepted
CHECK_DEADLOCK FALSE
