SPECIFICATION TSpec
CONSTANT MaxH = 8
CONSTANT Size = 2
CONSTANT Peers = {1, 2}
CONSTANT HVs = {1, 2}
CONSTANT MaxRounds = 1000
INVARIANT ExecutedConsecutive
INVARIANT NeverExecutedUnchecked
INVARIANT BadPeersReported
INVARIANT StatusTrichotomy
POSTCONDITION TraceAccepted
CHECK_DEADLOCK FALSE
