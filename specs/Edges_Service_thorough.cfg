SPECIFICATION Spec
CONSTANT NC = 3
CONSTANT MaxRun = 3
VIEW View
ACTION_CONSTRAINT EmitEdge
CHECK_DEADLOCK FALSE
