---------------------------- MODULE MC_GasPrice ----------------------------
EXTENDS GasPrice, Json
View == vars
Cfg(id, minExec, execPct, factor, minDa, maxDa, daPct, pc, dc, thr, dec, cap, norm, blkAct, exec0, da0, cpb0, act0) ==
  [id |-> id, minExec |-> minExec, execPct |-> execPct, factor |-> factor, minDa |-> minDa, maxDa |-> maxDa,
   daPct |-> daPct, pc |-> pc, dc |-> dc, thr |-> thr, dec |-> dec, cap |-> cap, norm |-> norm,
   blkAct |-> blkAct, exec0 |-> exec0, da0 |-> da0, cpb0 |-> cpb0, act0 |-> act0, h0 |-> 0]
MCConfigs == {
  Cfg(1, 1, 10, 10, 1, 20, 10, 4, 2, 50, 1, 1, 1, 30, 100, 100, 1, 3),
  Cfg(2, 0, 50, 1, 0, 5, 50, 1, 0, 50, 2, 1, 0, 60, 4, 3, 2, 1),
  Cfg(3, 2, 1, 100, 3, 2, 100, 7, 3, 100, 0, 0, 2, 0, 300, 300, 0, 2) }
MCConfigsQuick == {c \in MCConfigs : c.id \in {1, 2}}
\* DA record updates can repeat forever (the known cost only grows): bound the exploration
Bounded == known <= 1000
\* one step of a simulated behaviour, printed for the replay (workers 1 keeps them in order)
EmitStep == PrintT(<<"STEP", TLCGet("level"), ToJson(act')>>)
=============================================================================
