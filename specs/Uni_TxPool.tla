---------------------------- MODULE Uni_TxPool ----------------------------
(* Prints the universe of TxPool.tla (templates, initial chain view, constraint menu, constants) as JSON; *)
(* the harness builds the real transactions from exactly this table.                                      *)
EXTENDS TxPool, Json
ASSUME PrintT(<<"UNIVERSE", ToJson([tpl |-> Tpl, order |-> AllTx, db |-> InitDb, cstr |-> Cstr,
                                    consts |-> [MaxTxs |-> MaxTxs, MaxGas |-> MaxGas, MaxSize |-> MaxSize,
                                                ChainLimit |-> ChainLimit, PendingPct |-> PendingPct]])>>)
UNext == FALSE /\ UNCHANGED <<vars, act>>
=============================================================================
