SPECIFICATION Spec
CONSTANTS
  MaxH = 4
  HdrLimits = {0, 2, 4}
  TxLimits = {0, 1, 3}
  PoolN = 2
  MaxIds = 3
VIEW View
INVARIANT CacheSubsetChain
PROPERTY ServedEqualsDatabase
PROPERTY OverLimitRefused
PROPERTY CodecFaithful
CHECK_DEADLOCK FALSE
