SPECIFICATION TSpec
CONSTANT MaxH = 3
CONSTANT Shapes = {}
CONSTANT OneShot = FALSE
INVARIANT ContiguousOnly
INVARIANT RangeFaithful
INVARIANT RoundTrip
POSTCONDITION TraceAccepted
CHECK_DEADLOCK FALSE
