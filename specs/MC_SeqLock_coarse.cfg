SPECIFICATION Spec
CONSTANT NW = 2
CONSTANT NRd = 2
CONSTANT NReads = 1
CONSTANT FineRead = FALSE
VIEW View
INVARIANT NoTornRead
INVARIANT NotOlderThanCompletedWrite
CHECK_DEADLOCK FALSE
