---------------------------- MODULE Trace_SyncImport ----------------------------
(* Trace validation of the real fuel_core_sync::import::Import (harness h-syncimport) against         *)
(* SyncImport.  STRICT=1: every logged port call must be the spec's own action of the chunk pipeline  *)
(* / execution loop it belongs to, with the logged response, and Begin / End must produce the logged  *)
(* range and status.  STRICT=0 (observe): the status is bound to what the implementation logged, the  *)
(* ghosts (checked headers, owed reports, committed height) follow the logged calls, and only the     *)
(* invariants judge.                                                                                  *)
EXTENDS MC_SyncImport, IOUtils

Rec == ndJsonDeserialize(IOEnv.TRACE)
Strict == IOEnv.STRICT = "1"

VARIABLES l,
          hp,      \* observe mode: peer that served the headers of a height in this round
          ckok,    \* observe mode: heights whose header passed the check in this round
          asked    \* observe mode: range starts whose headers were requested in this round
tvars == <<ivars, act, l, hp, ckok, asked>>
aux == <<hp, ckok, asked>>

IsEv(e) == l <= Len(Rec) /\ Rec[l].ev = e /\ l' = l + 1
Logged(st) == St(st.k, st.lo, st.hi)
NoHp == [h \in Heights |-> 0]

TInit == IInit /\ l = 1 /\ hp = NoHp /\ ckok = {} /\ asked = {}

TReset ==
  /\ IsEv("reset")
  /\ status' = Comm(0) /\ gc' = 0 /\ go' = -1
  /\ cache' = [h \in Heights |-> "n"] /\ cv' = [h \in Heights |-> 0]
  /\ rnd' = NoRound /\ chunks' = <<>> /\ xi' = 1 /\ xj' = 0 /\ nok' = 0 /\ xstop' = FALSE
  /\ pend' = <<>> /\ rounds' = 0
  /\ checked' = {} /\ owed' = <<>> /\ flags' = {}
  /\ hp' = NoHp /\ ckok' = {} /\ asked' = {}
  /\ act' = [name |-> "reset"]

Obs(G) == G /\ act' = [name |-> Rec[l].ev]
\* variables the observe mode never uses
Unused == UNCHANGED <<cache, cv, chunks, xi, xj, xstop, pend, rounds>>

TObserve == IsEv("Observe") /\ LET r == Rec[l] IN
  IF Strict THEN IObserve(r.h) /\ status' = Logged(r.st) /\ r.res = ObserveStatus(status, r.h)[2] /\ UNCHANGED aux
  ELSE Obs(/\ status' = Logged(r.st) /\ GhostObserve(r.h)
           /\ UNCHANGED <<rnd, nok, checked, owed, flags>> /\ Unused /\ UNCHANGED aux)

TBegin == IsEv("Begin") /\ LET r == Rec[l] IN
  IF Strict THEN Begin /\ rnd'.lo = r.lo /\ rnd'.hi = r.hi /\ UNCHANGED aux
  ELSE Obs(/\ rnd' = [on |-> TRUE, lo |-> r.lo, hi |-> r.hi] /\ nok' = 0
           /\ hp' = NoHp /\ ckok' = {} /\ asked' = {}
           /\ UNCHANGED <<status, gc, go, checked, owed, flags>> /\ Unused)

Resp(r) == IF r.resp.kind = "ok" /\ "hs" \in DOMAIN r.resp
           THEN [kind |-> "ok", hs |-> [j \in DOMAIN r.resp.hs |-> Hdr(r.resp.hs[j].h, r.resp.hs[j].hv)]]
           ELSE r.resp

TGetHeaders == IsEv("GetHeaders") /\ LET r == Rec[l] IN
  IF Strict
  THEN /\ \E i \in DOMAIN chunks : chunks[i].s = r.lo /\ chunks[i].e = r.hi /\ GetHeaders(i, r.p, Resp(r))
       /\ UNCHANGED aux
  ELSE LET n == r.hi - r.lo
           g == IF r.resp.kind = "ok" THEN GoodPrefix(Resp(r).hs, r.lo, n, 1) ELSE 0
           short == r.resp.kind = "ok" /\ g # n
       IN Obs(/\ owed' = IF short THEN Append(owed, Fault(r.p, {"MissingBlockHeaders"})) ELSE owed
              /\ hp' = [h \in Heights |-> IF h >= r.lo /\ h < r.hi THEN r.p ELSE hp[h]]
              /\ asked' = asked \cup {r.lo}
              /\ UNCHANGED <<status, gc, go, rnd, nok, checked, flags, ckok>> /\ Unused)

TCheckHeader == IsEv("CheckHeader") /\ LET r == Rec[l] IN
  IF Strict
  THEN /\ \E i \in DOMAIN chunks : chunks[i].st = "chk" /\ chunks[i].s + chunks[i].ck = r.h /\ CheckHeader(i, r.res)
       /\ act'.hv = r.hv
       /\ UNCHANGED aux
  ELSE Obs(/\ checked' = IF r.res THEN checked \cup {<<r.h, r.hv>>} ELSE checked
           /\ owed' = IF r.res THEN owed
                      ELSE Append(owed, Fault(IF r.h \in Heights THEN hp[r.h] ELSE 0, {"BadBlockHeader"}))
           /\ ckok' = IF r.res THEN ckok \cup {r.h} ELSE ckok
           /\ UNCHANGED <<status, gc, go, rnd, nok, flags, hp, asked>> /\ Unused)

\* observe mode: number of headers the transactions are zipped with
NHdr(lo, hi) == IF lo \in asked THEN Cardinality({h \in lo..(hi - 1) : h \in ckok}) ELSE hi - lo
TGetTxs == IsEv("GetTxs") /\ LET r == Rec[l] IN
  IF Strict
  THEN /\ \E i \in DOMAIN chunks : chunks[i].s = r.lo /\ chunks[i].e = r.hi /\ GetTxs(i, r.p, r.resp)
       /\ UNCHANGED aux
  ELSE LET nh == NHdr(r.lo, r.hi)
           ok == r.resp.kind = "ok"
           z == IF ok THEN Min(nh, Len(r.resp.tv)) ELSE 0
           nb == IF ok THEN MatchPrefix(r.resp.tv, z, 1) ELSE 0
           short == ok /\ Len(r.resp.tv) < nh
           bad == ok /\ nb < z
       IN Obs(/\ owed' = owed \o (IF r.resp.kind = "none" THEN <<Fault(r.p, {"MissingTransactions"})>> ELSE <<>>)
                              \o (IF short THEN <<Fault(r.p, {"MissingTransactions", "InvalidTransactions"})>> ELSE <<>>)
                              \o (IF bad THEN <<Fault(r.p, {"InvalidTransactions"})>> ELSE <<>>)
              /\ UNCHANGED <<status, gc, go, rnd, nok, checked, flags>> /\ Unused /\ UNCHANGED aux)

TReport == IsEv("Report") /\ LET r == Rec[l] IN
  IF Strict THEN Report(r.p, r.r) /\ UNCHANGED aux
  ELSE Obs(/\ owed' = Discharge(owed, r.p, r.r)
           /\ UNCHANGED <<status, gc, go, rnd, nok, checked, flags>> /\ Unused /\ UNCHANGED aux)

TExecute == IsEv("Execute") /\ LET r == Rec[l] IN
  IF Strict THEN Execute(r.res) /\ act'.h = r.h /\ act'.hv = r.hv /\ r.txok /\ UNCHANGED aux
  ELSE Obs(/\ GhostExec(r.h, r.hv, r.txok, r.res)
           /\ nok' = IF r.res THEN nok + 1 ELSE nok
           /\ UNCHANGED <<status, rnd, checked, owed>> /\ Unused /\ UNCHANGED aux)

TEnd == IsEv("End") /\ LET r == Rec[l] IN
  IF Strict THEN End /\ act'.res = r.res /\ status' = Logged(r.st) /\ UNCHANGED aux
  ELSE Obs(/\ status' = Logged(r.st)
           /\ IF r.res = "Err" /\ rnd.on THEN GhostFail(rnd.lo + nok, rnd.hi) ELSE UNCHANGED <<gc, go>>
           /\ rnd' = NoRound /\ nok' = 0
           /\ GhostEnd
           /\ UNCHANGED checked /\ Unused /\ UNCHANGED aux)

TNext == TReset \/ TObserve \/ TBegin \/ TGetHeaders \/ TCheckHeader \/ TGetTxs \/ TReport \/ TExecute \/ TEnd
TSpec == TInit /\ [][TNext]_tvars

TraceAccepted ==
  LET d == TLCGet("stats").diameter IN
  IF d - 1 = Len(Rec) THEN PrintT(<<"TRACE-ACCEPTED", Len(Rec)>>)
  ELSE PrintT(<<"TRACE-REJECTED", d>>) /\ PrintT(Rec[d])
=============================================================================
