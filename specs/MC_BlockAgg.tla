---------------------------- MODULE MC_BlockAgg ----------------------------
(* Model-checking / edge-emitting instances of BlockAgg.  The SHAPE space of payloads is enumerated *)
(* here: transaction kind x input kinds x output kinds x receipt kinds x policy bits, at most two   *)
(* inputs / outputs / receipts per transaction (unordered pairs).                                   *)
EXTENDS BlockAgg, Json

CONSTANT ShapeMode   \* "small" | "io" | "rcpol" | "full"

TxKinds  == <<"Script", "Create", "Upgrade", "Upload", "Blob">>     \* plus "Mint" (no inputs/outputs/policies)
InKinds  == <<"CoinSigned", "CoinPredicate", "Contract", "MsgCoinSigned", "MsgCoinPredicate",
              "MsgDataSigned", "MsgDataPredicate">>
OutKinds == <<"Coin", "Contract", "Change", "Variable", "ContractCreated">>
RcKinds  == <<"Call", "Return", "ReturnData", "Panic", "Revert", "Log", "LogData", "Transfer",
              "TransferOut", "ScriptResult", "MessageOut", "Mint", "Burn">>
PolSets  == {0, 63, 21, 42}      \* bit i = PolicyType i present (Tip, WitnessLimit, Maturity, MaxFee, Expiration, Owner)

Range(s) == { s[i] : i \in 1..Len(s) }
\* multisets of at most two kinds, as index-sorted sequences
UpTo2(K) == {<<>>} \cup { <<K[i]>> : i \in 1..Len(K) }
                   \cup { <<K[i], K[j]>> : i \in 1..Len(K), j \in 1..Len(K) }
Sorted2(K) == { s \in UpTo2(K) : Len(s) < 2 \/ \E i \in 1..Len(K) : \E j \in i..Len(K) : s = <<K[i], K[j]>> }

Shape(tx, ins, outs, rcs, pol) == [tx |-> tx, ins |-> ins, outs |-> outs, rcs |-> rcs, pol |-> pol]

ShapesSmall == { Shape("Script", <<"CoinSigned">>, <<"Coin">>, <<"ScriptResult">>, 63),
                 Shape("Mint", <<>>, <<>>, <<>>, 0) }
\* slice "io": every transaction kind with every input multiset and every output multiset
ShapesIO == { Shape(tx, ins, outs, <<>>, 21) : tx \in Range(TxKinds), ins \in Sorted2(InKinds), outs \in Sorted2(OutKinds) }
\* slice "rcpol": every transaction kind with every receipt multiset and policy set
ShapesRcPol == { Shape(tx, <<"CoinSigned">>, <<"Change">>, rcs, pol) : tx \in Range(TxKinds), rcs \in Sorted2(RcKinds), pol \in PolSets }
              \cup { Shape("Mint", <<>>, <<>>, rcs, 0) : rcs \in Sorted2(RcKinds) }
\* thorough: inputs x outputs x at most one receipt, for the two richest transaction kinds
ShapesFull == { Shape(tx, ins, outs, rcs, 63) : tx \in {"Script", "Create"}, ins \in Sorted2(InKinds),
                outs \in Sorted2(OutKinds), rcs \in { s \in UpTo2(RcKinds) : Len(s) <= 1 } }

MCShapes == CASE ShapeMode = "small" -> ShapesSmall
              [] ShapeMode = "io"    -> ShapesIO
              [] ShapeMode = "rcpol" -> ShapesRcPol
              [] ShapeMode = "full"  -> ShapesFull

View == <<born, top, stored, latest>>
EmitEdge == PrintT(<<"EDGE", ToJson([src |-> StateRec, act |-> act', dst |-> StateRec'])>>)
=============================================================================
