SPECIFICATION TSpec
CONSTANT MaxH = 4
INVARIANT ReportedExact
INVARIANT CommitsLinked
PROPERTY RejectedChangesNothing
POSTCONDITION TraceAccepted
CHECK_DEADLOCK FALSE
