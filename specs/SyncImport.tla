---------------------------- MODULE SyncImport ----------------------------
(* C26 - fuel-core-sync import task (crates/services/sync/src/import.rs, import/cache.rs, ports.rs).   *)
(* Composes SyncState (C28: the shared State) and Chunker (C27: Cache::get_chunks).                    *)
(*                                                                                                     *)
(* One round = one call of Import::import: process_range, get_chunks, then per chunk the pipeline of   *)
(* get_block_stream (get_headers_batch, check_sealed_header per header, get_blocks) and, in order, the *)
(* execution loop of launch_stream; finally failed_to_process for what was not executed.  Actions are  *)
(* the port calls, taken when the port answers:                                                        *)
(*   GetHeaders  PeerToPeerPort::get_sealed_block_headers      CheckHeader ConsensusPort::check_...    *)
(*   GetTxs      PeerToPeerPort::get_transactions(_from_peer)  Execute     BlockImporterPort::exec...  *)
(*   Report      PeerToPeerPort::report_peer                   Begin / End Import::import call/return  *)
(* The chunk pipelines run concurrently (buffered stream of spawned tasks); the spec lets them         *)
(* interleave freely (a superset of what block_stream_buffer_size and the channel of size 1 allow).    *)
(* Responses of the ports are chosen nondeterministically at each call: that is the peer script.      *)
(* End is taken when the runtime is quiescent (every started pipeline has finished).                   *)
EXTENDS SyncState, Sequences, FiniteSets

CONSTANTS Size,          \* Config::header_batch_size
          Peers,         \* peer ids (small ints > 0)
          HVs,           \* header variants a peer may serve for a height (small ints)
          MaxRounds

Ch == INSTANCE Chunker WITH MaxSize <- Size, case <- 0, result <- 0, act <- 0

VARIABLES cache,         \* [Heights -> "n"|"h"|"b"]  the import cache (header / block cached)
          cv,            \* [Heights -> header variant of the cached item (0 = none)]
          rnd,           \* [on, lo, hi] the round in progress
          chunks,        \* sequence of chunk pipelines of the round
          xi, xj,        \* execution loop: current chunk, blocks of it already executed
          nok,           \* blocks executed successfully in this round
          xstop,         \* execution loop stopped by an execution error
          pend,          \* reports the code is about to make, in order (sequence of <<peer, reason>>)
          rounds,
          checked,       \* ghost: <<height, variant>> of the headers that passed check_sealed_header
          owed,          \* ghost: faults of peers seen in this round and not yet reported
          flags          \* ghost: names of property breaches
ivars == <<status, gc, go, cache, cv, rnd, chunks, xi, xj, nok, xstop, pend, rounds, checked, owed, flags>>

Min(a, b) == IF a <= b THEN a ELSE b
NoRound == [on |-> FALSE, lo |-> 0, hi |-> -1]
NChunk(c) == c.e - c.s

(* ---- chunk pipelines --------------------------------------------------------------------------------*)
\* st: "new" (nothing asked yet) | "chk" (headers being checked) | "txs" (transactions asked) | "ready"
MkChunk(c) ==
  [k |-> c.k, s |-> c.s, e |-> c.e,
   st |-> IF c.k = "B" THEN "ready" ELSE "new",
   peer |-> 0,
   hvs |-> [j \in 1..Len(c.items) |-> cv[c.items[j]]],       \* header variants held (cached or fetched)
   ck |-> Len(c.items),                                       \* headers that passed the check
   nb |-> IF c.k = "B" THEN Len(c.items) ELSE 0]              \* blocks assembled
MkChunks(cs) == [i \in 1..Len(cs) |-> MkChunk(cs[i])]

SetChunk(i, c) == chunks' = [chunks EXCEPT ![i] = c]

\* longest prefix of the served headers whose heights are s, s+1, ... (zip with the range, take_while)
RECURSIVE GoodPrefix(_, _, _, _)
GoodPrefix(hs, s, n, j) ==
  IF j > Len(hs) \/ j > n \/ hs[j].h # s + j - 1 THEN j - 1 ELSE GoodPrefix(hs, s, n, j + 1)
\* longest prefix of matching transaction lists among the first z
RECURSIVE MatchPrefix(_, _, _)
MatchPrefix(tv, z, j) == IF j > z \/ tv[j] # "m" THEN j - 1 ELSE MatchPrefix(tv, z, j + 1)

Fault(p, rs) == [p |-> p, rs |-> rs]
RECURSIVE Discharge(_, _, _)
Discharge(o, p, r) ==
  IF o = <<>> THEN <<>>
  ELSE IF Head(o).p = p /\ r \in Head(o).rs THEN Tail(o)
  ELSE <<Head(o)>> \o Discharge(Tail(o), p, r)

InsertHeaders(c, n) == /\ cache' = [h \in Heights |-> IF h >= c.s /\ h < c.s + n THEN "h" ELSE cache[h]]
                       /\ cv' = [h \in Heights |-> IF h >= c.s /\ h < c.s + n THEN c.hvs[h - c.s + 1] ELSE cv[h]]
InsertBlocks(c, n)  == /\ cache' = [h \in Heights |-> IF h >= c.s /\ h < c.s + n THEN "b" ELSE cache[h]]
                       /\ cv' = [h \in Heights |-> IF h >= c.s /\ h < c.s + n THEN c.hvs[h - c.s + 1] ELSE cv[h]]

IInit ==
  /\ status = Comm(0) /\ gc = 0 /\ go = -1            \* Import over State::new(Some(0), None)
  /\ cache = [h \in Heights |-> "n"] /\ cv = [h \in Heights |-> 0]
  /\ rnd = NoRound /\ chunks = <<>> /\ xi = 1 /\ xj = 0 /\ nok = 0 /\ xstop = FALSE
  /\ pend = <<>> /\ rounds = 0
  /\ checked = {} /\ owed = <<>> /\ flags = {}
  /\ act = [name |-> "Init"]

(* ---- ghost updates (shared with the trace spec's observe mode) -------------------------------------*)
GhostExec(h, hv, txok, ok) ==
  /\ flags' = flags \cup (IF h = gc + 1 THEN {} ELSE {"notconsecutive"})
                   \cup (IF <<h, hv>> \in checked /\ txok THEN {} ELSE {"unchecked"})
  /\ IF ok THEN GhostCommit(h) ELSE UNCHANGED <<gc, go>>
GhostEnd == flags' = flags \cup (IF owed = <<>> THEN {} ELSE {"unreported"}) /\ owed' = <<>>

(* ---- the sync task between rounds ---------------------------------------------------------------------*)
IObserve(h) ==
  /\ ~rnd.on
  /\ status' = ObserveStatus(status, h)[1]
  /\ GhostObserve(h)
  /\ UNCHANGED <<cache, cv, rnd, chunks, xi, xj, nok, xstop, pend, rounds, checked, owed, flags>>
  /\ act' = [name |-> "Observe", h |-> h]

(* ---- Import::import ---------------------------------------------------------------------------------------*)
Begin ==
  /\ ~rnd.on /\ rounds < MaxRounds
  /\ IF status.k = "P"
       THEN /\ rnd' = [on |-> TRUE, lo |-> status.lo, hi |-> status.hi]
            /\ chunks' = MkChunks(Ch!Chunks(status.lo, status.hi, Size, cache))
       ELSE /\ rnd' = [on |-> TRUE, lo |-> 0, hi |-> -1]
            /\ chunks' = <<>>
  /\ xi' = 1 /\ xj' = 0 /\ nok' = 0 /\ xstop' = FALSE
  /\ UNCHANGED <<status, gc, go, cache, cv, pend, rounds, checked, owed, flags>>
  /\ act' = [name |-> "Begin", lo |-> rnd'.lo, hi |-> rnd'.hi]

\* get_headers_batch: resp.kind "err" (the request failed) or "ok" with the served headers hs (a missing
\* payload is the empty sequence); extra headers beyond the range are ignored by the zip
GetHeaders(i, p, resp) ==
  /\ rnd.on /\ pend = <<>> /\ i \in DOMAIN chunks
  /\ chunks[i].k = "N" /\ chunks[i].st = "new"
  /\ LET c == chunks[i]
         n == NChunk(c)
         g == IF resp.kind = "ok" THEN GoodPrefix(resp.hs, c.s, n, 1) ELSE 0
         short == resp.kind = "ok" /\ g # n
     IN /\ SetChunk(i, [c EXCEPT !.peer = IF resp.kind = "ok" THEN p ELSE 0,
                                 !.hvs = [j \in 1..g |-> resp.hs[j].hv],
                                 !.ck = 0,
                                 !.st = IF g = 0 THEN "ready" ELSE "chk"])
        /\ pend' = IF short THEN <<<<p, "MissingBlockHeaders">>>> ELSE <<>>
        /\ owed' = IF short THEN Append(owed, Fault(p, {"MissingBlockHeaders"})) ELSE owed
  /\ UNCHANGED <<status, gc, go, cache, cv, rnd, xi, xj, nok, xstop, rounds, checked, flags>>
  /\ act' = [name |-> "GetHeaders", lo |-> chunks[i].s, hi |-> chunks[i].e, p |-> p, resp |-> resp]

\* check_sealed_header on the next fetched header (take_while stops at the first invalid one)
CheckHeader(i, ok) ==
  /\ rnd.on /\ pend = <<>> /\ i \in DOMAIN chunks
  /\ chunks[i].st = "chk"
  /\ LET c == chunks[i]
         n == NChunk(c)
         j == c.ck + 1
         h == c.s + j - 1
         fin == IF ok THEN (IF j = Len(c.hvs) THEN j ELSE -1) ELSE j - 1      \* -1: more headers to check
         c2 == [c EXCEPT !.ck = IF ok THEN j ELSE j - 1,
                         !.hvs = IF fin = -1 THEN c.hvs ELSE SubSeq(c.hvs, 1, fin),
                         !.st = IF fin = -1 THEN "chk" ELSE IF fin = 0 THEN "ready" ELSE "txs"]
     IN /\ SetChunk(i, c2)
        /\ checked' = IF ok THEN checked \cup {<<h, c.hvs[j]>>} ELSE checked
        /\ pend' = IF ok THEN <<>> ELSE <<<<c.peer, "BadBlockHeader">>>>
        /\ owed' = IF ok THEN owed ELSE Append(owed, Fault(c.peer, {"BadBlockHeader"}))
        /\ IF fin = n THEN InsertHeaders(c2, n) ELSE UNCHANGED <<cache, cv>>
        /\ act' = [name |-> "CheckHeader", h |-> h, hv |-> c.hvs[j], res |-> ok]
  /\ UNCHANGED <<status, gc, go, rnd, xi, xj, nok, xstop, rounds, flags>>

\* get_blocks: resp.kind "err" | "none" | "ok" with tv = per served transaction list "m" (matches the header of
\* the same position) or "x" (does not)
GetTxs(i, p, resp) ==
  /\ rnd.on /\ pend = <<>> /\ i \in DOMAIN chunks
  /\ \/ chunks[i].st = "txs" /\ p = chunks[i].peer                 \* get_transactions_from_peer
     \/ chunks[i].k = "H" /\ chunks[i].st = "new"                  \* cached headers: get_transactions, any peer
  /\ LET c == chunks[i]
         n == NChunk(c)
         nh == Len(c.hvs)
         z == IF resp.kind = "ok" THEN Min(nh, Len(resp.tv)) ELSE 0
         nb == IF resp.kind = "ok" THEN MatchPrefix(resp.tv, z, 1) ELSE 0
         short == resp.kind = "ok" /\ Len(resp.tv) < nh
         bad == resp.kind = "ok" /\ nb < z
         \* a failed request to the peer that served the headers is reported like a missing answer
         reps == (IF resp.kind = "none" \/ short \/ (resp.kind = "err" /\ c.k = "N")
                  THEN <<<<p, "MissingTransactions">>>> ELSE <<>>)
                 \o (IF bad THEN <<<<p, "InvalidTransactions">>>> ELSE <<>>)
         c2 == [c EXCEPT !.peer = IF resp.kind = "ok" THEN p ELSE c.peer, !.nb = nb, !.st = "ready"]
     IN /\ SetChunk(i, c2)
        /\ pend' = reps
        /\ owed' = owed \o (IF resp.kind = "none" THEN <<Fault(p, {"MissingTransactions"})>> ELSE <<>>)
                        \o (IF short THEN <<Fault(p, {"MissingTransactions", "InvalidTransactions"})>> ELSE <<>>)
                        \o (IF bad THEN <<Fault(p, {"InvalidTransactions"})>> ELSE <<>>)
        /\ IF nb = n THEN InsertBlocks(c2, n) ELSE UNCHANGED <<cache, cv>>
  /\ UNCHANGED <<status, gc, go, rnd, xi, xj, nok, xstop, rounds, checked, flags>>
  /\ act' = [name |-> "GetTxs", lo |-> chunks[i].s, hi |-> chunks[i].e, p |-> p, resp |-> resp]

Report(p, r) ==
  /\ pend # <<>> /\ Head(pend) = <<p, r>>
  /\ pend' = Tail(pend)
  /\ owed' = Discharge(owed, p, r)
  /\ UNCHANGED <<status, gc, go, cache, cv, rnd, chunks, xi, xj, nok, xstop, rounds, checked, flags>>
  /\ act' = [name |-> "Report", p |-> p, r |-> r]

\* launch_stream: the blocks of the batches, in order, until a batch is incomplete or an execution fails
Execute(ok) ==
  /\ rnd.on /\ pend = <<>> /\ ~xstop /\ xi \in DOMAIN chunks
  /\ chunks[xi].st = "ready" /\ xj < chunks[xi].nb
  /\ LET c == chunks[xi]
         h == c.s + xj
         done == ok /\ xj + 1 = NChunk(c)
     IN /\ cache' = [cache EXCEPT ![h] = "n"] /\ cv' = [cv EXCEPT ![h] = 0]
        /\ status' = IF ok THEN CommitStatus(status, h) ELSE status
        /\ GhostExec(h, c.hvs[xj + 1], TRUE, ok)
        /\ nok' = IF ok THEN nok + 1 ELSE nok
        /\ xstop' = ~ok
        /\ xi' = IF done THEN xi + 1 ELSE xi
        /\ xj' = IF done THEN 0 ELSE IF ok THEN xj + 1 ELSE xj
        /\ pend' = IF done /\ c.peer # 0 THEN <<<<c.peer, "SuccessfulBlockImport">>>> ELSE <<>>
        /\ act' = [name |-> "Execute", h |-> h, hv |-> c.hvs[xj + 1], res |-> ok]
  /\ UNCHANGED <<rnd, chunks, rounds, checked, owed>>

XDone == IF xstop \/ xi > Len(chunks) THEN TRUE
         ELSE chunks[xi].st = "ready" /\ xj = chunks[xi].nb /\ chunks[xi].nb < NChunk(chunks[xi])

End ==
  /\ rnd.on /\ pend = <<>> /\ XDone
  /\ \A i \in DOMAIN chunks : chunks[i].st \in {"new", "ready"}
  /\ LET len == rnd.hi - rnd.lo + 1
         failed == nok < len
     IN /\ status' = IF failed THEN FailStatus(status, rnd.lo + nok, rnd.hi) ELSE status
        /\ IF failed THEN GhostFail(rnd.lo + nok, rnd.hi) ELSE UNCHANGED <<gc, go>>
        /\ act' = [name |-> "End", res |-> IF failed THEN "Err" ELSE "Ok"]
  /\ rnd' = NoRound /\ chunks' = <<>> /\ xi' = 1 /\ xj' = 0 /\ nok' = 0 /\ xstop' = FALSE
  /\ rounds' = rounds + 1
  /\ GhostEnd
  /\ UNCHANGED <<cache, cv, pend, checked>>

(* ---- the peer script: what a port may answer --------------------------------------------------------------*)
Hdr(h, hv) == [h |-> h, hv |-> hv]
\* cnt headers, the first w-1 at the right heights, the w-th (if any) one too high
HdrSeqs(s, n) ==
  UNION {{[j \in 1..cnt |-> Hdr(IF w > 0 /\ j >= w THEN s + j ELSE s + j - 1, f[j])] :
            f \in [1..cnt -> HVs]} : cnt \in 0..(n + 1), w \in 0..(n + 1)}
HdrResps(s, n) == {[kind |-> "err"]} \cup {[kind |-> "ok", hs |-> x] : x \in HdrSeqs(s, n)}
TxResps(n) == {[kind |-> "err"], [kind |-> "none"]}
              \cup {[kind |-> "ok", tv |-> x] : x \in UNION {[1..cnt -> {"m", "x"}] : cnt \in 0..(n + 1)}}

INext ==
  \/ \E h \in Heights : IObserve(h)
  \/ Begin \/ End
  \/ \E i \in DOMAIN chunks, p \in Peers :
       \/ \E r \in HdrResps(chunks[i].s, NChunk(chunks[i])) : GetHeaders(i, p, r)
       \/ \E r \in TxResps(NChunk(chunks[i])) : GetTxs(i, p, r)
  \/ \E i \in DOMAIN chunks, ok \in BOOLEAN : CheckHeader(i, ok)
  \/ \E p \in Peers, r \in {"MissingBlockHeaders", "BadBlockHeader", "MissingTransactions",
                            "InvalidTransactions", "SuccessfulBlockImport"} : Report(p, r)
  \/ \E ok \in BOOLEAN : Execute(ok)

ISpec == IInit /\ [][INext]_<<ivars, act>>

(* ---- the property ------------------------------------------------------------------------------------------*)
ExecutedConsecutive    == "notconsecutive" \notin flags
NeverExecutedUnchecked == "unchecked" \notin flags
BadPeersReported       == "unreported" \notin flags
\* C28 in the composition: between rounds the status is the reference function of the two ghosts
StatusTrichotomy       == ~rnd.on => status = Ref(gc, go)

IStateRec == [status |-> status, gc |-> gc, go |-> go, cache |-> cache, cv |-> cv, rnd |-> rnd, chunks |-> chunks,
              xi |-> xi, xj |-> xj, nok |-> nok, xstop |-> xstop, pend |-> pend, rounds |-> rounds,
              checked |-> checked, owed |-> owed, flags |-> flags]
=============================================================================
