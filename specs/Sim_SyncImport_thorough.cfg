SPECIFICATION SimSpec
CONSTANT MaxH = 5
CONSTANT Size = 2
CONSTANT Peers = {1, 2}
CONSTANT HVs = {1, 2}
CONSTANT MaxRounds = 4
CONSTANT SimDepth = 90
INVARIANT EmitWalk
CHECK_DEADLOCK FALSE
