SPECIFICATION Spec
CONSTANT Part = "sparse"
CONSTANT DKeys = {0}
CONSTANT DVals = {1}
CONSTANT MaxLeaves = 1
CONSTANT MaxBatch = 1
CONSTANT PKs = {1, 2}
CONSTANT Subs = {1, 2, 3}
CONSTANT SVals = {1}
VIEW View
ACTION_CONSTRAINT EmitEdge
CHECK_DEADLOCK FALSE
