SPECIFICATION TSpec
INVARIANT PhaseOk
INVARIANT SpentExisted
INVARIANT SpentOnce
INVARIANT CreatedFresh
INVARIANT EventsAreDiff
INVARIANT CoinsAsSpec
INVARIANT EventsAsSpec
POSTCONDITION TraceAccepted
CHECK_DEADLOCK FALSE
