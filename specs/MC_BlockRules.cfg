SPECIFICATION Spec
VIEW View
INVARIANT AcceptedOnlyIfRules
INVARIANT ValidAccepted
INVARIANT MutationDetected
INVARIANT TxValidityAgrees
CHECK_DEADLOCK FALSE
