SPECIFICATION Spec
CONSTANT Bytes = {0, 255}
CONSTANT MaxLen = 1
CONSTANT Cols = {"a"}
CONSTANT Vals = {1}
CONSTANT Backends = {"mem", "rocks", "hist-none", "hist-full", "hist-r1", "hist-r2"}
CONSTANT MaxOps = 2
CONSTANT MaxList = 2
VIEW View
CHECK_DEADLOCK FALSE
ACTION_CONSTRAINT EmitEdge
