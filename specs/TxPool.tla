------------------------------- MODULE TxPool -------------------------------
(* C16-C21 -- fuel-core-txpool (crates/services/txpool_v2).                                   *)
(*                                                                                            *)
(* One action per command of the single-threaded PoolWorker loop (pool_worker.rs):            *)
(*   Insert / InsertQueued  PoolWorker::insert -> Pool::insert                                *)
(*   Extract                PoolWorker::extract_block_transactions                            *)
(*   Block                  (importer commits the DB, then) PoolWorker::process_block         *)
(*   Preconf                PoolWorker::process_preconfirmed_transaction                      *)
(*   Expire                 PoolWorker::remove_expired_transactions                           *)
(*   ExpirePending          the pending-pool expiration tick                                  *)
(* The pool is one record P (every field is a private field of Pool / GraphStorage /          *)
(* SpentInputs / ExtractedOutputs / PendingPool / PoolWorker, logged by the verif hook), the  *)
(* chain view is `db`, and `g` holds the ghosts that never forget.  The operations are        *)
(* written as functions on P transcribing the Rust code statement by statement; hash-map      *)
(* iteration orders and wall-clock tie-breaks are supplied by an oracle sequence `ord`.       *)
(* Transactions are templates (Tpl): inputs (chain coin / message / output of another         *)
(* template / contract), outputs (coin / contract creation), tip, max gas, size, gas price.   *)
EXTENDS Integers, Sequences, FiniteSets, TLC, SequencesExt, FiniteSetsExt

CONSTANTS MaxTxs,       \* pool_limits.max_txs
          MaxGas,       \* pool_limits.max_gas
          MaxSize,      \* pool_limits.max_bytes_size
          ChainLimit,   \* max_txs_chain_count
          PendingPct,   \* max_pending_pool_size_percentage
          MaxHeight     \* bound on block heights (model checking only)

Cap == MaxTxs + 1       \* capacity of the SpentInputs LRU (pool.rs: max_txs.saturating_add(1))

(* ------------------------------------------------------------------ universe *)
CI(key)  == [k |-> "coin", key |-> key, ok |-> TRUE]
CIx(key) == [k |-> "coin", key |-> key, ok |-> FALSE]   \* input fields disagree with the coin
MI(key)  == [k |-> "msg", key |-> key, ok |-> TRUE]
KI(c)    == [k |-> "contract", key |-> c, ok |-> TRUE]
CO(key)  == [k |-> "coin", key |-> key, c |-> "none"]
KO(key, c) == [k |-> "create", key |-> key, c |-> c]
TX(i, o, tip, gas, size, price, blob) ==
  [ins |-> i, outs |-> o, tip |-> tip, gas |-> gas, size |-> size, price |-> price, blob |-> blob]

Tpl ==
  [ t1  |-> TX(<<CI("c1")>>,               <<CO("t1:0"), CO("t1:1")>>, 3, 2, 2, 2, "none"),
    t2  |-> TX(<<CI("t1:0")>>,             <<CO("t2:0")>>,             4, 1, 1, 1, "none"),
    t3  |-> TX(<<CI("t2:0"), CI("t1:1")>>, <<CO("t3:0")>>,             1, 1, 2, 3, "none"),
    t4  |-> TX(<<CI("c1")>>,               <<CO("t4:0")>>,             9, 2, 1, 2, "none"),
    t5  |-> TX(<<CI("c1"), CI("c2")>>,     <<>>,                       4, 2, 3, 1, "none"),
    t6  |-> TX(<<CI("c2"), MI("m1")>>,     <<CO("t6:0")>>,             2, 2, 1, 2, "none"),
    t7  |-> TX(<<MI("m1")>>,               <<>>,                       6, 3, 2, 3, "none"),
    t8  |-> TX(<<CI("c3")>>,               <<KO("t8:0", "k2")>>,       2, 2, 2, 2, "none"),
    t9  |-> TX(<<CI("c4"), KI("k2")>>,     <<>>,                       5, 1, 1, 1, "none"),
    t10 |-> TX(<<CI("c4")>>,               <<KO("t10:0", "k2")>>,      8, 2, 2, 2, "none"),
    t11 |-> TX(<<CIx("c2")>>,              <<>>,                       9, 1, 1, 1, "none"),
    t12 |-> TX(<<CI("c9")>>,               <<>>,                       1, 1, 1, 1, "none"),
    t13 |-> TX(<<CIx("t1:1")>>,            <<>>,                       5, 1, 1, 1, "none"),
    t14 |-> TX(<<CI("t3:0")>>,             <<>>,                       7, 1, 1, 2, "none"),
    t15 |-> TX(<<CI("c3"), KI("k1")>>,     <<>>,                       2, 2, 2, 2, "none"),
    t16 |-> TX(<<CI("c5")>>,               <<CO("t16:0")>>,            1, 1, 1, 1, "b1"),
    t17 |-> TX(<<CI("c6")>>,               <<>>,                       3, 1, 1, 1, "b1"),
    t18 |-> TX(<<CI("t16:0")>>,            <<>>,                       2, 1, 1, 1, "none"),
    t19 |-> TX(<<CI("t1:1"), CI("t6:0")>>, <<>>,                       6, 2, 1, 2, "none"),
    t20 |-> TX(<<CI("t1:1")>>,             <<>>,                       3, 1, 1, 2, "none"),
    t21 |-> TX(<<CI("t1:0"), CI("t1:1")>>, <<>>,                       5, 1, 1, 2, "none") ]

TxIds == DOMAIN Tpl
AllTx == <<"t1","t2","t3","t4","t5","t6","t7","t8","t9","t10","t11","t12","t13","t14","t15","t16","t17","t18","t19","t20","t21">>
InitDb == [coins |-> {"c1","c2","c3","c4","c5","c6"}, msgs |-> {"m1"}, contracts |-> {"k1"},
           txs |-> {}, blobs |-> {}]

\* Extract constraints menu: gas, txs, size, price (minimal gas price), excl (excluded contracts)
Cstr ==
  << [gas |-> 100, txs |-> 100, size |-> 100, price |-> 0, excl |-> {}],
     [gas |-> 3,   txs |-> 100, size |-> 100, price |-> 0, excl |-> {}],
     [gas |-> 100, txs |-> 1,   size |-> 100, price |-> 0, excl |-> {}],
     [gas |-> 100, txs |-> 100, size |-> 2,   price |-> 0, excl |-> {}],
     [gas |-> 100, txs |-> 100, size |-> 100, price |-> 2, excl |-> {}],
     [gas |-> 100, txs |-> 100, size |-> 100, price |-> 0, excl |-> {"k2"}],
     [gas |-> 4,   txs |-> 2,   size |-> 3,   price |-> 1, excl |-> {"k1"}],
     [gas |-> 100, txs |-> 2,   size |-> 100, price |-> 0, excl |-> {}] >>

(* ------------------------------------------------------------------ template accessors *)

InKeys(t, kind) == {Tpl[t].ins[i].key : i \in {j \in DOMAIN Tpl[t].ins : Tpl[t].ins[j].k = kind}}
CoinInF  == [t \in TxIds |-> InKeys(t, "coin")]
MsgInF   == [t \in TxIds |-> InKeys(t, "msg")]
ConInF   == [t \in TxIds |-> InKeys(t, "contract")]
CoinIn(t) == CoinInF[t]
MsgIn(t)  == MsgInF[t]
ConIn(t)  == ConInF[t]
SpendSet(t) == CoinInF[t] \cup MsgInF[t]
SpendSeqF == [t \in TxIds |->
               LET s == SelectSeq(Tpl[t].ins, LAMBDA i : i.k \in {"coin", "msg"})
               IN  [j \in DOMAIN s |-> s[j].key]]
SpendSeq(t) == SpendSeqF[t]      \* coin and message keys in input order (SpentInputs key lists)
CoinOutF == [t \in TxIds |-> {Tpl[t].outs[i].key : i \in {j \in DOMAIN Tpl[t].outs : Tpl[t].outs[j].k = "coin"}}]
CreatesF == [t \in TxIds |-> {Tpl[t].outs[i].c : i \in {j \in DOMAIN Tpl[t].outs : Tpl[t].outs[j].k = "create"}}]
CoinOut(t) == CoinOutF[t]
Creates(t) == CreatesF[t]
AllCoinOuts == UNION {CoinOutF[t] : t \in TxIds}
CreatorF == [key \in AllCoinOuts |-> CHOOSE t \in TxIds : key \in CoinOutF[t]]
CreatorOf(key) == IF key \in AllCoinOuts THEN CreatorF[key] ELSE "none"
AllOk(t) == \A i \in DOMAIN Tpl[t].ins : Tpl[t].ins[i].ok
IsBlob(t) == Tpl[t].blob # "none"

Max0(x) == IF x < 0 THEN 0 ELSE x
SumOf(S, F(_)) == FoldSet(LAMBDA x, acc : acc + F(x), 0, S)
GasOf(S)  == SumOf(S, LAMBDA x : Tpl[x].gas)
SizeOf(S) == SumOf(S, LAMBDA x : Tpl[x].size)
TipOf(S)  == SumOf(S, LAMBDA x : Tpl[x].tip)
Drop(f, k) == [x \in DOMAIN f \ {k} |-> f[x]]
Put(f, k, v) == (k :> v) @@ f
BagOf(s) == [x \in Range(s) |-> Cardinality({i \in DOMAIN s : s[i] = x})]
SameBag(s1, s2) == BagOf(s1) = BagOf(s2)

(* ------------------------------------------------------------------ oracle order *)
\* rank of x under the oracle: position in ord, otherwise after all of ord in the fixed order AllTx
IndexIn(s, x) == CHOOSE i \in DOMAIN s : s[i] = x
Rank(ord, x) == IF x \in Range(ord) THEN IndexIn(ord, x) ELSE Len(ord) + IndexIn(AllTx, x)
\* a finite set iterated in the oracle's order (HashSet / HashMap iteration)
InOrder(S, ord) == SortSeq(SetToSeq(S), LAMBDA a, b : Rank(ord, a) < Rank(ord, b))

(* ------------------------------------------------------------------ SpentInputs LRU (lru crate) *)
InLru(l, k) == \E i \in DOMAIN l : l[i] = k
LruPop(l, k) == SelectSeq(l, LAMBDA x : x # k)
LruPut(l, k) == LET n == <<k>> \o LruPop(l, k) IN IF Len(n) > Cap THEN SubSeq(n, 1, Cap) ELSE n
LruPutAll(l, ks) == FoldLeft(LAMBDA acc, k : LruPut(acc, k), l, ks)
LruPopAll(l, ks) == FoldLeft(LAMBDA acc, k : LruPop(acc, k), l, ks)

(* ------------------------------------------------------------------ the pool record *)
EmptyF == [x \in {} |-> 0]
InitP ==
  [ pool |-> {},          \* graph nodes / tx_id_to_storage_id
    deps |-> {},          \* graph edges <<dependency, dependent>>
    exec |-> {},          \* RatioTipGasSelection.executable_transactions_sorted_tip_gas_ratio
    cum  |-> EmptyF,      \* StorageData.dependents_cumulative_{tip,gas,bytes_size}, number_dependents_in_chain
    stats |-> [count |-> 0, gas |-> 0, size |-> 0],   \* tx_count(), current_gas, current_bytes_size
    lru  |-> <<>>,        \* SpentInputs.spent_inputs (most recently used first)
    spender |-> EmptyF,   \* SpentInputs.spender_of_inputs
    tentative |-> EmptyF, \* SpentInputs.tentative_spent
    xcoins |-> {},        \* ExtractedOutputs.coins_created (flattened)
    xcon |-> EmptyF,      \* ExtractedOutputs.contract_created
    xby  |-> EmptyF,      \* ExtractedOutputs.contract_created_by_tx
    tpre |-> {},          \* PoolWorker.tentative_preconfs as pairs <<height, tx>>
    height |-> 0,         \* PoolWorker.current_canonical_height
    pend |-> EmptyF,      \* PendingPool.pending_inputs_by_tx: tx -> missing inputs (in order)
    pstats |-> [count |-> 0, gas |-> 0, size |-> 0],  \* PendingPool.current_{txs,gas,bytes}
    queue |-> <<>> ]      \* insert commands the worker queued for itself (pending resolutions)

\* result of an operation: new pool, result label, squeezed-out reports (in call order), notifications of
\* nested insertions <<tx, outcome>>
Res(P, res, sq, notes) == [P |-> P, res |-> res, sq |-> sq, notes |-> notes]

(* ------------------------------------------------------------------ graph helpers *)
Parents(deps, x)  == {e[1] : e \in {d \in deps : d[2] = x}}
Children(deps, x) == {e[2] : e \in {d \in deps : d[1] = x}}
RECURSIVE Down(_, _, _)
Down(deps, frontier, acc) ==
  IF frontier = {} THEN acc
  ELSE LET nxt == UNION {Children(deps, x) : x \in frontier} \ acc IN Down(deps, nxt, acc \cup nxt)
RECURSIVE Up(_, _, _)
Up(deps, frontier, acc) ==
  IF frontier = {} THEN acc
  ELSE LET nxt == UNION {Parents(deps, x) : x \in frontier} \ acc IN Up(deps, nxt, acc \cup nxt)
Subtree(P, r) == IF r \in P.pool THEN Down(P.deps, {r}, {r}) ELSE {}
UpClosure(deps, S) == Up(deps, S, S)          \* S and all its ancestors

\* caches derived from the pool content (collision manager, graph creators)
CoinSpenders(P, key) == {x \in P.pool : key \in CoinIn(x)}
MsgSpenders(P, key)  == {x \in P.pool : key \in MsgIn(x)}
PoolCreators(P, c)   == {x \in P.pool : c \in Creates(x)}
BlobUsers(P, b)      == {x \in P.pool : Tpl[x].blob = b}
ContractUsers(P, c)  == {x \in P.pool : c \in ConIn(x)}
OutputSpenders(P, t) == UNION {CoinSpenders(P, k) : k \in CoinOut(t)}     \* get_coins_spenders(t)

(* ------------------------------------------------------------------ removal *)
\* Pool::update_components_and_caches_on_removal for a set of removed transactions
Uncount(P, S) ==
  [P EXCEPT !.stats = [count |-> Cardinality(P.pool \ S),
                       gas   |-> Max0(P.stats.gas - GasOf(S \cap P.pool)),
                       size  |-> Max0(P.stats.size - SizeOf(S \cap P.pool))],
            !.exec = @ \ S]

\* GraphStorage::remove_transaction (plain node removal, dependents keep their place)
RemovePlain(P, t) ==
  LET Q == Uncount(P, {t}) IN
  [Q EXCEPT !.pool = @ \ {t},
            !.deps = {d \in @ : d[1] # t /\ d[2] # t},
            !.cum  = Drop(@, t)]

\* GraphStorage::remove_node_and_dependent_sub_graph + reduce_dependencies_cumulative_gas_tip_and_chain_count:
\* every removed node x subtracts its cumulative values from each dependency that is still in the graph
\* when x is removed (the dependencies outside the removed subtree) and from all their ancestors.
RemoveSubtree(P, r) ==
  LET sub == Subtree(P, r)
      loss(a) == {x \in sub : \E d \in Parents(P.deps, x) \ sub : a \in UpClosure(P.deps, {d})}
      Q == Uncount(P, sub)
  IN [P |-> [Q EXCEPT !.pool = @ \ sub,
                      !.deps = {d \in @ : d[1] \notin sub /\ d[2] \notin sub},
                      !.cum  = [a \in DOMAIN P.cum \ sub |->
                                  LET L == loss(a) IN
                                  [tip  |-> Max0(P.cum[a].tip  - SumOf(L, LAMBDA x : P.cum[x].tip)),
                                   gas  |-> Max0(P.cum[a].gas  - SumOf(L, LAMBDA x : P.cum[x].gas)),
                                   size |-> Max0(P.cum[a].size - SumOf(L, LAMBDA x : P.cum[x].size)),
                                   n    |-> Max0(P.cum[a].n    - SumOf(L, LAMBDA x : P.cum[x].n))]]],
      removed |-> SetToSeq(sub)]

\* remove the subtrees of a sequence of roots, collecting the squeezed-out reports
RECURSIVE RemoveAll(_, _, _)
RemoveAll(P, roots, sq) ==
  IF roots = <<>> THEN [P |-> P, sq |-> sq]
  ELSE LET r == RemoveSubtree(P, Head(roots)) IN RemoveAll(r.P, Tail(roots), sq \o r.removed)

(* ------------------------------------------------------------------ ExtractedOutputs *)
\* new_extracted_transaction
XAdd(P, t) ==
  [P EXCEPT !.xcon = [c \in Creates(t) |-> t] @@ @,
            !.xby  = IF Creates(t) = {} THEN @
                     ELSE Put(@, t, (IF t \in DOMAIN @ THEN @[t] ELSE {}) \cup Creates(t)),
            !.xcoins = (@ \cup CoinOut(t)) \ CoinIn(t)]
\* new_executed_transaction / new_skipped_transaction
XDel(P, t) ==
  LET cs == IF t \in DOMAIN P.xby THEN P.xby[t] ELSE {} IN
  [P EXCEPT !.xby = Drop(@, t),
            !.xcon = [c \in DOMAIN @ \ cs |-> @[c]],
            !.xcoins = {k \in @ : CreatorOf(k) # t}]
\* new_extracted_outputs with all outputs of t (resolved outputs of a preconfirmation)
XAddOutputs(P, t) ==
  [P EXCEPT !.xcon = [c \in Creates(t) |-> t] @@ @,
            !.xby  = IF Creates(t) = {} THEN @
                     ELSE Put(@, t, (IF t \in DOMAIN @ THEN @[t] ELSE {}) \cup Creates(t)),
            !.xcoins = @ \cup CoinOut(t)]

(* ------------------------------------------------------------------ ordering of executables *)
\* RatioTipGasSelection key: (tip + 1) / max_gas, then creation time (oracle).  Real tips are
\* abstract tips times a unit larger than any abstract gas, so the "+1" only breaks exact ties
\* of tip/gas in favour of the smaller gas.
KeyGT(a, b) ==
  LET l == Tpl[a].tip * Tpl[b].gas  r == Tpl[b].tip * Tpl[a].gas IN
  IF l # r THEN l > r ELSE Tpl[a].gas < Tpl[b].gas
Better(ord, a, b) == KeyGT(a, b) \/ (~KeyGT(b, a) /\ Rank(ord, a) < Rank(ord, b))
BestFirst(S, ord) == SortSeq(SetToSeq(S), LAMBDA a, b : Better(ord, a, b))
\* get_less_worth_txs: the same map iterated backwards
WorstFirst(S, ord) == Reverse(BestFirst(S, ord))

(* ------------------------------------------------------------------ Pool::insert *)
\* GraphStorage::validate_inputs: first inconsistency in input order, else the missing inputs
ValStep(P, db, acc, i) ==
  IF acc.err # "none" THEN acc
  ELSE CASE i.k = "coin" ->
         IF CreatorOf(i.key) \in P.pool
         THEN (IF i.ok THEN acc ELSE [acc EXCEPT !.err = "IoWrongAmount"])
         ELSE IF InLru(P.lru, i.key) THEN [acc EXCEPT !.err = "UtxoSpent"]
         ELSE IF i.key \in db.coins
              THEN (IF i.ok THEN acc ELSE [acc EXCEPT !.err = "CoinMismatch"])
         ELSE IF i.key \in P.xcoins /\ i.ok THEN acc
         ELSE [acc EXCEPT !.missing = Append(@, [k |-> "coin", key |-> i.key])]
    [] i.k = "msg" ->
         IF InLru(P.lru, i.key) THEN [acc EXCEPT !.err = "MsgSpent"]
         ELSE IF i.key \in db.msgs
              THEN (IF i.ok THEN acc ELSE [acc EXCEPT !.err = "MsgMismatch"])
         ELSE [acc EXCEPT !.err = "MsgUnknown"]
    [] i.k = "contract" ->
         IF PoolCreators(P, i.key) # {} \/ i.key \in db.contracts \/ i.key \in DOMAIN P.xcon THEN acc
         ELSE [acc EXCEPT !.missing = Append(@, [k |-> "contract", key |-> i.key])]
Validate(P, db, t) ==
  FoldLeft(LAMBDA acc, i : ValStep(P, db, acc, i), [err |-> "none", missing |-> <<>>], Tpl[t].ins)

\* BasicCollisionManager::find_collisions
Collisions(P, t) ==
  (IF IsBlob(t) THEN BlobUsers(P, Tpl[t].blob) ELSE {})
  \cup UNION {CoinSpenders(P, k) : k \in CoinIn(t)}
  \cup UNION {MsgSpenders(P, k) : k \in MsgIn(t)}
  \cup UNION {PoolCreators(P, c) : c \in Creates(t)}

\* GraphStorage::collect_transaction_direct_dependencies / can_store_transaction
Direct(P, t) == ({CreatorOf(k) : k \in CoinIn(t)} \cap P.pool) \cup UNION {PoolCreators(P, c) : c \in ConIn(t)}
DepError(P, t) ==
  LET d == Direct(P, t)  a == UpClosure(P.deps, d) IN
  \/ Cardinality(d) >= ChainLimit
  \/ Cardinality(a) >= ChainLimit
  \/ \E x \in a : P.cum[x].n >= ChainLimit \/ IsBlob(x)
  \/ \E x, y \in d : x # y /\ UpClosure(P.deps, {x}) \cap UpClosure(P.deps, {y}) # {}   \* diamond

\* Pool::find_free_space over the executables from the least worth one
RECURSIVE Free(_, _, _, _, _, _, _)
Free(P, t, cands, g, s, n, acc) ==
  IF g <= MaxGas /\ s <= MaxSize /\ n <= MaxTxs THEN [ok |-> TRUE, rm |-> acc]
  ELSE IF cands = <<>> THEN [ok |-> FALSE, rm |-> <<>>]
  ELSE LET e == Head(cands)  c == P.cum[e] IN
       IF c.tip * Tpl[t].gas > Tpl[t].tip * c.gas THEN [ok |-> FALSE, rm |-> <<>>]
       ELSE Free(P, t, Tail(cands), Max0(g - c.gas), Max0(s - c.size), Max0(n - c.n), Append(acc, e))

\* PendingPool::new_known_tx for the outputs of t: pending transactions that become complete, in order
RECURSIVE Resolve(_, _, _, _)
Resolve(P, keys, ord, out) ==
  IF keys = <<>> THEN [P |-> P, resolved |-> out]
  ELSE LET key == Head(keys)
           waiting == InOrder({x \in DOMAIN P.pend : \E i \in DOMAIN P.pend[x] : P.pend[x][i].key = key}, ord)
           step(acc, x) ==
             LET rest == SelectSeq(acc.P.pend[x], LAMBDA m : m.key # key) IN
             IF rest = <<>>
             THEN [P |-> [acc.P EXCEPT !.pend = Drop(@, x),
                                        !.pstats = [count |-> Max0(@.count - 1),
                                                    gas   |-> Max0(@.gas - Tpl[x].gas),
                                                    size  |-> Max0(@.size - Tpl[x].size)]],
                   resolved |-> Append(acc.resolved, x)]
             ELSE [P |-> [acc.P EXCEPT !.pend = Put(@, x, rest)], resolved |-> acc.resolved]
           r == FoldLeft(step, [P |-> P, resolved |-> out], waiting)
       IN Resolve(r.P, Tail(keys), ord, r.resolved)
\* keys announced for the outputs of t (coin outputs and created contracts, in output order)
OutKeySeq(t) == [j \in DOMAIN Tpl[t].outs |->
                   IF Tpl[t].outs[j].k = "coin" THEN Tpl[t].outs[j].key ELSE Tpl[t].outs[j].c]

\* PoolWorker::has_enough_space_in_pools
PendingHasRoom(P, t) ==
  /\ P.stats.gas + Tpl[t].gas <= MaxGas
  /\ P.stats.size + Tpl[t].size <= MaxSize
  /\ Cardinality(P.pool) + 1 <= MaxTxs
  /\ P.pstats.gas + Tpl[t].gas <= (MaxGas * PendingPct) \div 100
  /\ P.pstats.size + Tpl[t].size <= (MaxSize * PendingPct) \div 100
  /\ P.pstats.count + 1 <= (MaxTxs * PendingPct) \div 100

\* PoolWorker::insert: Pool::insert + notification + pending pool
Ins(P, db, t, ord) ==
  LET tp == Tpl[t]
      Fail(kind) == Res(P, kind, <<>>, <<>>)
  IN
  IF InLru(P.lru, t) \/ t \in db.txs THEN Fail("DuplicateTxId")
  ELSE IF t \in P.pool THEN Fail("DuplicateTxId")
  ELSE IF IsBlob(t) /\ tp.blob \in db.blobs THEN Fail("BlobTaken")
  ELSE LET v == Validate(P, db, t) IN
  IF v.err # "none" THEN Fail(v.err)
  ELSE IF v.missing # <<>> THEN
    (IF ~PendingHasRoom(P, t)
     THEN Fail(IF v.missing[1].k = "coin" THEN "UtxoNotFound" ELSE "ContractNotFound")
     ELSE Res([P EXCEPT !.pend = Put(@, t, v.missing),
                        !.pstats = [count |-> @.count + 1, gas |-> @.gas + tp.gas, size |-> @.size + tp.size]],
              "Pending", <<>>, <<>>))
  ELSE IF OutputSpenders(P, t) # {} THEN Fail("DuplicateTxId")
  ELSE IF DepError(P, t) THEN Fail("Dep")
  ELSE LET cols == Collisions(P, t)
           direct == Direct(P, t)
           all == UpClosure(P.deps, direct)
           hasDeps == all # {}
       IN
  IF cols \cap all # {} THEN Fail("CollisionIsDependency")
  ELSE IF (hasDeps /\ Cardinality(cols) > 1)
          \/ \E c \in cols : ~(tp.tip * P.cum[c].gas > P.cum[c].tip * tp.gas) THEN Fail("Collided")
  ELSE LET g == P.stats.gas + tp.gas  s == P.stats.size + tp.size  n == Cardinality(P.pool) + 1
           fits == g <= MaxGas /\ s <= MaxSize /\ n <= MaxTxs
       IN
  IF ~fits /\ hasDeps THEN Fail("LimitHit")
  ELSE LET fr == IF fits THEN [ok |-> TRUE, rm |-> <<>>]
                 ELSE Free(P, t, WorstFirst(P.exec, ord), g, s, n, <<>>) IN
  IF ~fr.ok THEN Fail("LimitHit")
  ELSE \* insert_inner
       LET r1 == RemoveAll(P, fr.rm \o InOrder(cols, ord), <<>>)
           Q == r1.P
           own == [tip |-> tp.tip, gas |-> tp.gas, size |-> tp.size, n |-> 1]
           Q2 == [Q EXCEPT
                    !.cum = (t :> own) @@ [a \in DOMAIN Q.cum |->
                               IF a \in all
                               THEN [tip |-> Q.cum[a].tip + tp.tip, gas |-> Q.cum[a].gas + tp.gas,
                                     size |-> Q.cum[a].size + tp.size, n |-> Q.cum[a].n + 1]
                               ELSE Q.cum[a]],
                    !.pool = @ \cup {t},
                    !.deps = @ \cup {<<d, t>> : d \in direct},
                    !.stats = [count |-> Cardinality(Q.pool) + 1, gas |-> @.gas + tp.gas, size |-> @.size + tp.size],
                    !.exec = IF hasDeps THEN @ ELSE @ \cup {t}]
           rs == Resolve(Q2, OutKeySeq(t), ord, <<>>)
       IN Res([rs.P EXCEPT !.queue = @ \o rs.resolved], "Ok", r1.sq, <<>>)

\* nested insertions of resolved pending transactions (process_block, process_preconfirmed_transaction)
RECURSIVE InsAll(_, _, _, _, _, _)
InsAll(P, db, ts, ord, sq, notes) ==
  IF ts = <<>> THEN [P |-> P, sq |-> sq, notes |-> notes]
  ELSE LET r == Ins(P, db, Head(ts), ord) IN
       InsAll(r.P, db, Tail(ts), ord, sq \o r.sq,
              IF r.res = "Pending" THEN notes ELSE Append(notes, <<Head(ts), r.res>>))

(* ------------------------------------------------------------------ extraction *)
\* one pass of RatioTipGasSelection::gather_best_txs over the executables as sorted at the pass start
RECURSIVE Pass(_, _, _)
Pass(order, C, st) ==
  IF order = <<>> \/ st.nl = 0 \/ st.gl = 0 \/ st.sl = 0 THEN st
  ELSE LET e == Head(order)  tp == Tpl[e] IN
       IF \/ ConIn(e) \cap C.excl # {}
          \/ tp.price < C.price
          \/ tp.gas > st.gl \/ tp.size > st.sl
       THEN Pass(Tail(order), C, st)
       ELSE LET deps1 == {d \in st.deps : d[1] # e /\ d[2] # e}
                promo == {y \in Children(st.deps, e) : Parents(deps1, y) = {}}
            IN Pass(Tail(order), C,
                    [gl |-> st.gl - tp.gas, sl |-> st.sl - tp.size, nl |-> st.nl - 1,
                     sel |-> Append(st.sel, e), deps |-> deps1, promo |-> st.promo \cup promo])
RECURSIVE Gather(_, _, _, _, _, _, _, _)
Gather(deps, exec, C, gl, sl, nl, res, ord) ==
  IF gl = 0 \/ sl = 0 \/ nl = 0 \/ exec = {} THEN [res |-> res, deps |-> deps, exec |-> exec]
  ELSE LET p == Pass(BestFirst(exec, ord), C,
                     [gl |-> gl, sl |-> sl, nl |-> nl, sel |-> <<>>, deps |-> deps, promo |-> {}])
       IN IF p.sel = <<>> THEN [res |-> res, deps |-> deps, exec |-> exec]
          ELSE Gather(p.deps, (exec \ Range(p.sel)) \cup p.promo, C, p.gl, p.sl, p.nl, res \o p.sel, ord)

\* Pool::extract_transactions_for_block
ExtractOne(P, t) ==
  LET Q == XAdd(P, t)
      Q2 == [Q EXCEPT !.lru = LruPut(LruPutAll(@, SpendSeq(t)), t),
                      !.spender = Put(@, t, SpendSeq(t))]
      Q3 == Uncount(Q2, {t})
  IN [Q3 EXCEPT !.pool = @ \ {t}, !.cum = Drop(@, t)]
Extr(P, C, ord) ==
  LET gres == Gather(P.deps, P.exec, C, C.gas, C.size, C.txs, <<>>, ord)
      Q == [P EXCEPT !.deps = gres.deps, !.exec = gres.exec]
      Q2 == FoldLeft(ExtractOne, Q, gres.res)
  IN Res(Q2, gres.res, <<>>, <<>>)

(* ------------------------------------------------------------------ commits, preconfirmations *)
\* SpentInputs::spend_inputs_by_tx_id
SpendByTx(P, t) ==
  LET l1 == LruPut(P.lru, t)
      l2 == IF t \in DOMAIN P.spender THEN LruPutAll(l1, P.spender[t]) ELSE l1
  IN [P EXCEPT !.lru = l2, !.spender = Drop(@, t)]

\* body of the loop of Pool::process_committed_transactions / process_preconfirmed_committed_transaction
\* for a transaction that is in the pool; `tentative` says whether record_tentative_spend is called
TakeFromPool(P, t, tentative) ==
  LET kids == Children(P.deps, t)
      Q == XAdd(RemovePlain(P, t), t)
      Q2 == [Q EXCEPT !.tentative = IF tentative THEN Put(@, t, SpendSeq(t)) ELSE @,
                      !.lru = LruPut(LruPutAll(@, SpendSeq(t)), t)]
  IN [P |-> Q2, promo |-> {y \in kids : Parents(Q2.deps, y) = {}}]

\* Pool::process_committed_transactions (ids in hash-set order)
Committed(P, ids) ==
  LET step(acc, t) ==
        LET Q == SpendByTx(acc.P, t) IN
        IF t \notin Q.pool THEN [P |-> Q, promo |-> acc.promo]
        ELSE LET r == TakeFromPool(Q, t, FALSE) IN [P |-> r.P, promo |-> acc.promo \cup r.promo]
      r == FoldLeft(step, [P |-> P, promo |-> {}], ids)
  IN [r.P EXCEPT !.exec = @ \cup (r.promo \cap r.P.pool)]

\* Pool::process_preconfirmed_committed_transaction
PreCommitted(P, t) ==
  LET P0 == IF t \notin P.pool /\ t \in DOMAIN P.spender
            THEN [P EXCEPT !.tentative = Put(@, t, P.spender[t])] ELSE P     \* move_spender_to_tentative
      Q == SpendByTx(P0, t)
  IN IF t \notin Q.pool THEN Q
     ELSE LET r == TakeFromPool(Q, t, TRUE) IN [r.P EXCEPT !.exec = @ \cup r.promo]

\* Pool::rollback_preconfirmed_transaction
Rollback(P, t, ord) ==
  LET created == IF t \in DOMAIN P.xby THEN P.xby[t] ELSE {}
      Q == XDel(P, t)
      Q2 == [Q EXCEPT !.lru = LruPopAll(LruPop(@, t), IF t \in DOMAIN Q.tentative THEN Q.tentative[t] ELSE <<>>),
                      !.tentative = Drop(@, t)]
      r1 == RemoveAll(Q2, InOrder(OutputSpenders(Q2, t), ord), <<>>)
      cstep(acc, c) ==
        IF PoolCreators(acc.P, c) # {} THEN acc
        ELSE RemoveAll(acc.P, InOrder(ContractUsers(acc.P, c), ord), acc.sq)
  IN FoldLeft(cstep, r1, InOrder(created, ord))      \* [P, sq]

\* Pool::remove_transactions_and_dependents
RemoveListed(P, ids) ==
  RemoveAll(P, ids, <<>>)

\* Pool::remove_skipped_transaction
Skipped(P, t, ord) ==
  LET r0 == IF t \in P.pool THEN RemoveListed(P, <<t>>) ELSE [P |-> P, sq |-> <<>>]
      Q == XDel(r0.P, t)
      Q2 == [Q EXCEPT !.lru = LruPopAll(LruPop(@, t), IF t \in DOMAIN Q.spender THEN Q.spender[t] ELSE <<>>),
                      !.spender = Drop(@, t)]
  IN RemoveAll(Q2, InOrder(OutputSpenders(Q2, t), ord), r0.sq)

\* PoolWorker::process_block for a block at height h with transactions txs (db1 = the view after the commit).
\* oc / os / op: iteration orders of the confirmed-id set, of the stale tentative sets, and of the pending pool
ProcBlock(P, db1, h, txs, oc, os, op) ==
  LET P1 == Committed([P EXCEPT !.height = IF h > @ THEN h ELSE @], InOrder(Range(txs), oc))
      P2 == FoldLeft(XDel, P1, txs)
      stale == {e \in P2.tpre : e[1] <= h}
      staleSeq == SortSeq(SetToSeq(stale),
                          LAMBDA a, b : a[1] < b[1] \/ (a[1] = b[1] /\ Rank(os, a[2]) < Rank(os, b[2])))
      rstep(acc, e) ==
        IF e[2] \in Range(txs)
        THEN [P |-> [acc.P EXCEPT !.tentative = Drop(@, e[2])], sq |-> acc.sq]     \* confirm_tentative_spend
        ELSE LET r == Rollback(acc.P, e[2], os) IN [P |-> r.P, sq |-> acc.sq \o r.sq]
      r3 == FoldLeft(rstep, [P |-> [P2 EXCEPT !.tpre = @ \ stale], sq |-> <<>>], staleSeq)
      keys == FoldLeft(LAMBDA acc, t : acc \o OutKeySeq(t), <<>>, txs)
      rs == Resolve(r3.P, keys, op, <<>>)
      r4 == InsAll(rs.P, db1, rs.resolved, op, r3.sq, <<>>)
  IN Res(r4.P, "done", r4.sq, r4.notes)

\* PoolWorker::process_preconfirmed_transaction; kind "S"uccess / "F"ailure / s"Q"ueezed out
ProcPreconf(P, db, t, kind, outs, h, ord) ==
  IF kind \in {"S", "F"} /\ h <= P.height THEN Res(P, "late", <<>>, <<>>)
  ELSE IF kind = "Q" THEN LET r == Skipped(P, t, ord) IN Res(r.P, "done", r.sq, <<>>)
  ELSE LET P1 == [PreCommitted(P, t) EXCEPT !.tpre = @ \cup {<<h, t>>}] IN
       IF ~outs THEN Res(P1, "done", <<>>, <<>>)
       ELSE LET rs == Resolve(P1, OutKeySeq(t), ord, <<>>)
                r == InsAll(XAddOutputs(rs.P, t), db, rs.resolved, ord, <<>>, <<>>)
            IN Res(r.P, "done", r.sq, r.notes)

\* the pending-pool expiration tick with a zero TTL: every pending transaction is notified and dropped
ExpPending(P) ==
  LET ts == SetToSeq(DOMAIN P.pend) IN
  Res([P EXCEPT !.pend = EmptyF,
                !.pstats = [count |-> Max0(@.count - Len(ts)),
                            gas   |-> Max0(@.gas - GasOf(DOMAIN P.pend)),
                            size  |-> Max0(@.size - SizeOf(DOMAIN P.pend))]],
      "done", <<>>,
      [i \in DOMAIN ts |-> <<ts[i], IF P.pend[ts[i]][1].k = "coin" THEN "UtxoNotFound" ELSE "ContractNotFound">>])

(* ------------------------------------------------------------------ chain view (environment) *)
\* a block is a sequence of transactions each of which is valid on the chain state left by its predecessors
TxValidOn(db, t) ==
  /\ t \notin db.txs
  /\ AllOk(t)
  /\ CoinIn(t) \subseteq db.coins
  /\ MsgIn(t) \subseteq db.msgs
  /\ ConIn(t) \subseteq db.contracts
  /\ Creates(t) \cap db.contracts = {}
  /\ IsBlob(t) => Tpl[t].blob \notin db.blobs
Apply(db, t) ==
  [coins |-> (db.coins \ CoinIn(t)) \cup CoinOut(t), msgs |-> db.msgs \ MsgIn(t),
   contracts |-> db.contracts \cup Creates(t), txs |-> db.txs \cup {t},
   blobs |-> IF IsBlob(t) THEN db.blobs \cup {Tpl[t].blob} ELSE db.blobs]
RECURSIVE BlockValid(_, _)
BlockValid(db, txs) ==
  IF txs = <<>> THEN TRUE
  ELSE TxValidOn(db, Head(txs)) /\ BlockValid(Apply(db, Head(txs)), Tail(txs))
ApplyAll(db, txs) == FoldLeft(Apply, db, txs)

\* a preconfirmation (success / failure) comes from a producer that executed the transaction on top of
\* its parents: no input of it is produced by a transaction that is still waiting in this pool, and the
\* transaction is not already on the chain
PreconfValid(P, db, t) ==
  /\ t \notin db.txs
  /\ \A k \in CoinIn(t) : CreatorOf(k) \notin P.pool
  /\ \A c \in ConIn(t) : PoolCreators(P, c) = {}

(* ------------------------------------------------------------------ ghosts *)
\* spent   : coins and messages spent by committed blocks (never forgets)
\* handed  : transactions this pool handed out (extracted, or taken out of the pool by a preconfirmation)
\*           and not yet settled by a block, a squeeze-out or a rollback
\* known   : transactions whose outputs are tentatively known (extracted or preconfirmed, not settled)
\* pre     : preconfirmations <<height, tx>> applied and not yet reconciled with a block
InitG == [spent |-> {}, handed |-> {}, known |-> {}, pre |-> {}]
RolledBack(G, h, txs) == {e[2] : e \in {p \in G.pre : p[1] <= h}} \ Range(txs)
GhostExtract(G, res) == [G EXCEPT !.handed = @ \cup Range(res), !.known = @ \cup Range(res)]
GhostBlock(G, h, txs) ==
  LET rb == RolledBack(G, h, txs) IN
  [spent  |-> G.spent \cup UNION {SpendSet(t) : t \in Range(txs)},
   handed |-> (G.handed \ Range(txs)) \ rb,
   known  |-> (G.known \ Range(txs)) \ rb,
   pre    |-> {p \in G.pre : p[1] > h}]
GhostPreconf(G, P, t, kind, h) ==
  IF kind = "Q" THEN [G EXCEPT !.handed = @ \ {t}, !.known = @ \ {t}]
  ELSE IF h <= P.height THEN G
  ELSE [G EXCEPT !.handed = IF t \in P.pool THEN @ \cup {t} ELSE @,
                 !.known = @ \cup {t}, !.pre = @ \cup {<<h, t>>}]

(* ------------------------------------------------------------------ specification *)
VARIABLES P, db, g, act
vars == <<P, db, g>>

Init == P = InitP /\ db = InitDb /\ g = InitG /\ act = [name |-> "Init"]

Label(name, r) == [name |-> name, res |-> r.res, sq |-> r.sq, notes |-> r.notes]

Insert(t, ord) ==
  LET r == Ins(P, db, t, ord) IN
  /\ P' = r.P /\ UNCHANGED <<db, g>>
  /\ act' = Label("Insert", r) @@ [t |-> t]

InsertQueued(ord) ==
  /\ P.queue # <<>>
  /\ LET t == Head(P.queue)
         r == Ins([P EXCEPT !.queue = Tail(@)], db, t, ord) IN
     /\ P' = r.P /\ UNCHANGED <<db, g>>
     /\ act' = Label("InsertQueued", r) @@ [t |-> t]

Extract(c, ord) ==
  LET r == Extr(P, Cstr[c], ord) IN
  /\ P' = r.P /\ UNCHANGED db
  /\ g' = GhostExtract(g, r.res)
  /\ act' = Label("Extract", r) @@ [c |-> c]

\* a transaction preconfirmed for a later height is executed in that later block, not in this one
BlockRespectsPreconfs(h, txs) == \A p \in g.pre : p[1] > h => p[2] \notin Range(txs)

Block(txs, oc, os, op) ==
  /\ BlockValid(db, txs)
  /\ BlockRespectsPreconfs(P.height + 1, txs)
  /\ LET h == P.height + 1
         db1 == ApplyAll(db, txs)
         r == ProcBlock(P, db1, h, txs, oc, os, op) IN
     /\ P' = r.P /\ db' = db1
     /\ g' = GhostBlock(g, h, txs)
     /\ act' = Label("Block", r) @@ [txs |-> txs, h |-> h]

Preconf(t, kind, outs, h, ord) ==
  /\ kind \in {"S", "F"} /\ h > P.height => PreconfValid(P, db, t)
  /\ LET r == ProcPreconf(P, db, t, kind, outs, h, ord) IN
     /\ P' = r.P /\ UNCHANGED db
     /\ g' = GhostPreconf(g, P, t, kind, h)
     /\ act' = Label("Preconf", r) @@ [t |-> t, kind |-> kind, outs |-> outs, h |-> h]

Expire(ids) ==
  LET r == RemoveListed(P, ids) IN
  /\ P' = r.P /\ UNCHANGED <<db, g>>
  /\ act' = [name |-> "Expire", ids |-> ids, res |-> "done", sq |-> r.sq, notes |-> <<>>]

ExpirePending ==
  LET r == ExpPending(P) IN
  /\ P' = r.P /\ UNCHANGED <<db, g>>
  /\ act' = Label("ExpirePending", r)

(* ------------------------------------------------------------------ C16 *)
NoTwoSpendSameInput ==
  \A x, y \in P.pool : x # y => SpendSet(x) \cap SpendSet(y) = {}
NoTwoCreateSameContractOrBlob ==
  \A x, y \in P.pool : x # y =>
     /\ Creates(x) \cap Creates(y) = {}
     /\ ~(IsBlob(x) /\ Tpl[x].blob = Tpl[y].blob)
StatsExact ==
  /\ P.stats.count = Cardinality(P.pool)
  /\ P.stats.gas = GasOf(P.pool)
  /\ P.stats.size = SizeOf(P.pool)

(* ------------------------------------------------------------------ C17 *)
\* the dependency relation the property talks about: spending a coin output of, or using a contract
\* created by, another pool transaction (the graph edges must contain the former)
SemParents(pool, x) == {CreatorOf(k) : k \in CoinIn(x)} \cap pool
EdgesCoverCoinParents == \A x \in P.pool : \A p \in SemParents(P.pool, x) : <<p, x>> \in P.deps
EdgesInPool == \A d \in P.deps : d[1] \in P.pool /\ d[2] \in P.pool /\ d[1] # d[2]
RECURSIVE PathCount(_, _, _)
\* number of distinct paths from a to b (graphs here are tiny and acyclic by construction of templates)
PathCount(deps, a, b) ==
  IF a = b THEN 1 ELSE SumOf(Children(deps, a), LAMBDA y : PathCount(deps, y, b))
NoDiamond == \A a, b \in P.pool : a # b => PathCount(P.deps, a, b) <= 1
RECURSIVE Depth(_, _)
Depth(deps, x) == IF Parents(deps, x) = {} THEN 1
                  ELSE 1 + Max({Depth(deps, p) : p \in Parents(deps, x)})
ChainLen == \A x \in P.pool : Depth(P.deps, x) <= ChainLimit
ExecutableHaveNoParents == \A x \in P.exec : x \in P.pool /\ Parents(P.deps, x) = {}

\* what a step took out of the pool by inclusion (handed out / committed / preconfirmed as executed)
Included(a) ==
  CASE a.name = "Extract" -> Range(a.res)
    [] a.name = "Block" -> Range(a.txs)
    [] a.name = "Preconf" /\ a.kind \in {"S", "F"} /\ a.res # "late" -> {a.t}
    [] OTHER -> {}
\* transactions that entered the pool during the step
Entered(a) ==
  (IF a.name \in {"Insert", "InsertQueued"} /\ a.res = "Ok" THEN {a.t} ELSE {})
  \cup {n[1] : n \in {m \in Range(a.notes) : m[2] = "Ok"}}
LeftWithoutInclusion(a) == ((P.pool \cup Entered(a)) \ P'.pool) \ Included(a)

ParentBeforeChild ==
  [][act'.name = "Extract" =>
       LET res == act'.res IN
       \A j \in DOMAIN res :
         \A p \in (SemParents(P.pool, res[j]) \cup Parents(P.deps, res[j])) :
           \E i \in DOMAIN res : i < j /\ res[i] = p]_<<vars, act>>
RemovalCascades ==
  [][act'.name # "reset" => \A x \in LeftWithoutInclusion(act') \cap P.pool : Subtree(P, x) \cap P'.pool = {}]_<<vars, act>>

(* ------------------------------------------------------------------ C18 *)
ConflictFree(S) ==
  \A x, y \in S : x # y =>
     /\ SpendSet(x) \cap SpendSet(y) = {}
     /\ Creates(x) \cap Creates(y) = {}
     /\ ~(IsBlob(x) /\ Tpl[x].blob = Tpl[y].blob)
ExtractPost ==
  [][act'.name = "Extract" =>
       LET res == act'.res  C == Cstr[act'.c]  S == Range(res) IN
       /\ Cardinality(S) = Len(res) /\ S \subseteq P.pool
       /\ Len(res) <= C.txs /\ GasOf(S) <= C.gas /\ SizeOf(S) <= C.size
       /\ \A x \in S : Tpl[x].price >= C.price /\ ConIn(x) \cap C.excl = {}
       /\ ConflictFree(S)
       /\ S \cap P'.pool = {}
       \* executable at the same time = same depth in the pre-state graph: non-increasing tip per gas
       /\ \A i, j \in DOMAIN res :
            i < j /\ Depth(P.deps, res[i]) = Depth(P.deps, res[j]) =>
              Tpl[res[i]].tip * Tpl[res[j]].gas >= Tpl[res[j]].tip * Tpl[res[i]].gas]_<<vars, act>>

(* ------------------------------------------------------------------ C19 *)
SemCollisions(pool, t) ==
  {x \in pool : \/ SpendSet(x) \cap SpendSet(t) # {}
                \/ Creates(x) \cap Creates(t) # {}
                \/ (IsBlob(t) /\ Tpl[x].blob = Tpl[t].blob)}
IsInsert(a) == a.name \in {"Insert", "InsertQueued"}
\* an accepted transaction is new, spends only existing, uncommitted inputs with matching fields
InsertAdmits ==
  [][IsInsert(act') /\ act'.res = "Ok" =>
       LET t == act'.t IN
       /\ t \notin P.pool /\ t \notin db.txs
       /\ AllOk(t)
       /\ SpendSet(t) \cap g.spent = {}
       /\ MsgIn(t) \subseteq db.msgs
       /\ \A k \in CoinIn(t) : k \in db.coins \/ CreatorOf(k) \in P.pool \/ CreatorOf(k) \in g.known]_<<vars, act>>
\* ... none of which was handed out for a block and is still unsettled (nor is the transaction itself)
InsertRespectsHandedOut ==
  [][IsInsert(act') /\ act'.res = "Ok" =>
       /\ act'.t \notin g.handed
       /\ \A x \in g.handed : SpendSet(x) \cap SpendSet(act'.t) = {}]_<<vars, act>>
\* a colliding transaction is accepted only with a strictly higher tip per gas than every collided subtree,
\* and those subtrees are gone afterwards
InsertBeatsCollisions ==
  [][IsInsert(act') /\ act'.res = "Ok" =>
       LET t == act'.t IN
       \A x \in SemCollisions(P.pool, t) :
         LET sub == Subtree(P, x) IN
         /\ Tpl[t].tip * GasOf(sub) > TipOf(sub) * Tpl[t].gas
         /\ sub \cap P'.pool = {}]_<<vars, act>>

(* ------------------------------------------------------------------ C20 *)
BlockReconciles ==
  [][act'.name = "Block" =>
       LET txs == Range(act'.txs)  rb == RolledBack(g, act'.h, act'.txs) IN
       /\ txs \cap P'.pool = {}
       /\ \A t \in rb :
            /\ CoinOut(t) \cap P'.xcoins = {}
            /\ \A c \in Creates(t) : c \in DOMAIN P'.xcon => P'.xcon[c] # t
            /\ t \notin P'.pool => \A x \in P'.pool : CoinIn(x) \cap CoinOut(t) = {}
            /\ ~InLru(P'.lru, t)
            \* "may be submitted again": unless the pool still tracks t as handed out by an extraction, no input of
            \* t stays marked spent on t's account - a remaining marker belongs to a committed spend or to another
            \* transaction that is handed out / preconfirmed and unsettled
            /\ t \notin DOMAIN P'.spender =>
                 \A k \in SpendSet(t) :
                   InLru(P'.lru, k) =>
                     \/ k \in g'.spent
                     \/ \E x \in (g'.handed \cup {p[2] : p \in g'.pre} \cup DOMAIN P'.spender
                                  \cup DOMAIN P'.tentative) \ {t} : k \in SpendSet(x)]_<<vars, act>>
LatePreconfIsNoop ==
  [][act'.name = "Preconf" /\ act'.kind \in {"S", "F"} /\ act'.h <= P.height => P' = P]_<<vars, act>>

(* ------------------------------------------------------------------ C21 *)
\* every transaction that leaves without inclusion is reported squeezed out exactly once, nothing else is
\* (the squeezed-out transaction of a "Q" preconfirmation itself may or may not be reported)
SqueezedExactlyOnce ==
  [][act'.name # "reset" =>
     LET a == act'
         left == LeftWithoutInclusion(a)
         opt == IF a.name = "Preconf" /\ a.kind = "Q" THEN {a.t} ELSE {}
         sq == SelectSeq(a.sq, LAMBDA x : x \notin opt)
     IN /\ Range(sq) = left \ opt
        /\ Cardinality(Range(a.sq)) = Len(a.sq)]_<<vars, act>>

NoPanic == act.name # "Panic"

StateRec == [P |-> P, db |-> db, g |-> g]
=============================================================================
