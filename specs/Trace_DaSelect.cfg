SPECIFICATION TSpec
CONSTANT Prevs = {0}
CONSTANT MaxN = 0
CONSTANT Costs = {0}
CONSTANT Txs = {0}
CONSTANT GasLimits = {0}
CONSTANT TxLimits = {1}
INVARIANT LargestFittingPrefix
INVARIANT WithinRange
POSTCONDITION TraceAccepted
CHECK_DEADLOCK FALSE
