SPECIFICATION Spec
CONSTANT MaxH = 2
CONSTANT TxSets <- MCTxSetsSmall
CONSTANT Clients = {1, 2}
CONSTANT Buf = 2
CONSTANT Lockers = {1}
CONSTANT MaxSeeds = 1
CONSTANT FailReqs <- MCFailReqs
CONSTANT Subs = 2
VIEW View
INVARIANT CommitOnlyNext
INVARIANT Unique
INVARIANT AtomicCommit
INVARIANT FailedImportNoChange
INVARIANT RootUntouchedByExecution
INVARIANT OneCommitAtATime
INVARIANT AnnouncedOnceInOrderAfterReadable
CHECK_DEADLOCK FALSE
