---------------------------- MODULE Sim_History ----------------------------
(* B2: `tlc -simulate` behaviours of History in the window-keeping regime, printed as one JSON line per    *)
(* behaviour (`tr` records the actions; it exists only here).  Views are not simulated: the harness takes  *)
(* a view at every height after every step.  RandomSubset keeps the three kinds of step balanced.          *)
EXTENDS History, Json, Sequences, Randomization

CONSTANT SimDepth
VARIABLE tr

SimInit == Init /\ tr = <<>>
SimStep ==
  \/ \E p \in RandomSubset(2, Policies) : New(p) \/ (KeepsWindow(p) /\ Restart(p))
  \/ \E w \in RandomSubset(3, Writes) : Commit(w)
  \/ Rollback
SimNext == SimStep /\ tr' = Append(tr, act')
SimSpec == SimInit /\ [][SimNext]_<<vars, lv, act, tr>>

\* always TRUE; prints the behaviour when it is complete
DumpBehaviour == Len(tr) = SimDepth => PrintT(<<"BEH", ToJson(tr)>>)
=============================================================================
