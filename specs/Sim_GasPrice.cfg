SPECIFICATION SimSpec
CONSTANT Configs <- MCConfigs
CONSTANT MaxHeight = 3
CONSTANT Useds = {0, 50, 100}
CONSTANT Caps = {100}
CONSTANT Bytess = {0, 10}
CONSTANT Fees = {0, 1000}
CONSTANT RecBytess = {0, 5}
CONSTANT Costs = {0, 500}
CONSTRAINT Bounded
INVARIANT EmitWalk
CHECK_DEADLOCK FALSE
