SPECIFICATION TSpec
CONSTANT NKeys = 2
CONSTANT Vals = {1, 2}
CONSTANT MaxH = 5
CONSTANT Policies = {"none", "full", "r1", "r2", "r3"}
INVARIANT LatestExact
INVARIANT LastViewExact
PROPERTY RollbackRestoresPrevious
POSTCONDITION TraceAccepted
CHECK_DEADLOCK FALSE
