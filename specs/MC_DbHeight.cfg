SPECIFICATION Spec
CONSTANT MaxH = 4
VIEW View
INVARIANT TypeOK
INVARIANT ReportedExact
INVARIANT CommitsLinked
PROPERTY RejectedChangesNothing
CHECK_DEADLOCK FALSE
