SPECIFICATION TSpec
CONSTANT MaxH = 8
CONSTANT TxSets <- TraceTxSets
CONSTANT Clients = {1, 2}
CONSTANT Buf = 2
CONSTANT Lockers = {1, 2}
CONSTANT FailReqs <- MCFailReqs
CONSTANT MaxSeeds = 99
CONSTANT Subs = 3
INVARIANT CommitOnlyNext
INVARIANT Unique
INVARIANT AtomicCommit
INVARIANT FailedImportNoChange
INVARIANT RootUntouchedByExecution
INVARIANT OneCommitAtATime
INVARIANT AnnouncedOnceInOrderAfterReadable
POSTCONDITION TraceAccepted
CHECK_DEADLOCK FALSE
