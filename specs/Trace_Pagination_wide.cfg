SPECIFICATION TSpec
CONSTANT MaxKey = 9
CONSTANT MaxSize = 11
INVARIANT EveryEntryOnceInOrder
INVARIANT PageLen
INVARIANT FlagsExact
INVARIANT ErrorsOnlyForBadArgs
INVARIANT RejectsRefused
POSTCONDITION TraceAccepted
CHECK_DEADLOCK FALSE
