SPECIFICATION TSpec
CONSTANT MaxKey = 9
CONSTANT MaxSize = 11
INVARIANT PageLen
INVARIANT FlagsExact
INVARIANT EveryEntryOnceInOrder
INVARIANT ErrorsOnlyForBadArgs
POSTCONDITION TraceAccepted
CHECK_DEADLOCK FALSE
