SPECIFICATION Spec
CONSTANT KS = {"a"}
CONSTANT NKeys = 3
CONSTANT Values = {v1, v2, v3, v4}
CONSTANT Default = d0
SYMMETRY Sym
CONSTANT MaxT = 3
CONSTANT Retention = 1
CONSTANT MaxLen = 2
CONSTANT MaxLag = 1
CONSTANT Back = 0
CONSTANT JumpKeys = {0, 1, 2}
VIEW View
INVARIANT RoundTrip
INVARIANT EveryRefResolvesToOriginal
INVARIANT RegistriesAgree
INVARIANT CompressTotal
INVARIANT IndexSound
PROPERTY RoundTripStep
PROPERTY EveryRefStep
PROPERTY RegistriesAgreeStep
PROPERTY CompressTotalStep
CHECK_DEADLOCK FALSE
