---------------------------- MODULE CoinsQuery ----------------------------
(* C37 — coins-to-spend answers are sound.   crates/fuel-core/src/coins_query.rs,                       *)
(*                                            crates/fuel-core/src/query/balance/asset_query.rs          *)
(*                                                                                                       *)
(* A wallet is a table of resources (coins and messages with owner, asset, amount, retryable flag and   *)
(* spent flag).  Query(q) is answered by one of the three real algorithms, each transcribed with its     *)
(* randomness as nondeterminism:                                                                         *)
(*   "indexed" select_coins_to_spend over the CoinsToSpend index (big coins descending until twice the   *)
(*             target, a random number of dust coins ascending, big coins covered by the dust dropped),  *)
(*   "largest" largest_first (owned coins, then messages, stable sort by amount descending),             *)
(*   "improve" random_improve (any shuffle, truncated to max, improve-while-closer; falls back to        *)
(*             largest_first when the shuffled prefix does not reach the target).                        *)
(* IsAnswer(W, q, ans) says that `ans` is a possible answer of algorithm q.algo; the real algorithms are *)
(* randomised, so traces are validated by membership (strict) and the invariants judge the recorded      *)
(* answers (observe).  The property: Sound (OnlyOwnedUnspent, NoExcluded, NoDup, AtMostMax,              *)
(* CoversTarget) and ErrorOnlyWhenNoAdmissibleSelection.                                                 *)
EXTENDS Integers, Sequences, FiniteSets, TLC

CONSTANTS N              \* resource ids 1..N (a coin's UtxoId / a message's nonce are derived from the id)

Ids  == 1..N
Base == 0                \* base asset; messages are always of the base asset

VARIABLES wallet,        \* [Ids -> resource]
          born,
          q,             \* the query being answered (NoQuery between queries)
          res,           \* its answer
          act
vars == <<wallet, born, q, res>>

Absent  == [k |-> "x", o |-> 0, a |-> 0, v |-> 0, r |-> FALSE, s |-> FALSE]
NoQuery == [algo |-> "none", o |-> 0, a |-> 0, t |-> 0, max |-> 0, ex |-> {}, p |-> FALSE]
NoRes   == [kind |-> "none", why |-> "", sel |-> <<>>]
Ok(sel)  == [kind |-> "ok", why |-> "", sel |-> sel]
Err(why) == [kind |-> "err", why |-> why, sel |-> <<>>]

Min(a, b) == IF a <= b THEN a ELSE b
Abs(x) == IF x < 0 THEN -x ELSE x
RECURSIVE SeqSum(_, _)
SeqSum(W, s) == IF s = <<>> THEN 0 ELSE W[Head(s)].v + SeqSum(W, Tail(s))
Range(s) == {s[i] : i \in 1..Len(s)}

(* ---- what the algorithms iterate over -------------------------------------*)
\* the owner's unspent resources of the asset (messages belong to the base asset)
Owned(W, qq) == {i \in Ids : /\ W[i].k \in {"c", "m"} /\ ~W[i].s /\ W[i].o = qq.o
                             /\ (IF W[i].k = "c" THEN W[i].a = qq.a ELSE qq.a = Base)}
\* ... that can be spent as coins: retryable messages (messages with data) cannot
Spendable(W, qq) == {i \in Owned(W, qq) : ~(W[i].k = "m" /\ W[i].r)}

\* CoinsToSpendIndex, prefix NON_RETRYABLE ++ owner ++ asset, key order (amount, id): ascending sequence
RECURSIVE AscBy(_, _)
AscBy(W, S) ==
  IF S = {} THEN <<>>
  ELSE LET m == CHOOSE x \in S : \A y \in S : W[x].v < W[y].v \/ (W[x].v = W[y].v /\ x <= y)
       IN <<m>> \o AscBy(W, S \ {m})
Reverse(s) == [i \in 1..Len(s) |-> s[Len(s) + 1 - i]]

\* AssetQuery::coins(): owned coins by id, then (base asset) non-retryable messages by id; excluded ids filtered
RECURSIVE IdAsc(_)
IdAsc(S) == IF S = {} THEN <<>> ELSE LET m == CHOOSE x \in S : \A y \in S : x <= y IN <<m>> \o IdAsc(S \ {m})
CoinsStream(W, qq) ==
  LET sp == Spendable(W, qq) \ qq.ex IN
    IdAsc({i \in sp : W[i].k = "c"}) \o IdAsc({i \in sp : W[i].k = "m"})

(* ---- select_coins_to_spend (indexed) ----------------------------------------*)
\* select_coins_until: mode "big" stops when the running total reaches `lim`, mode "dust" when it meets coin `lim`
RECURSIVE SelectUntil(_, _, _, _, _, _, _, _, _)
SelectUntil(W, s, i, mx, ex, mode, lim, tot, out) ==
  IF i > Len(s) THEN [total |-> tot, coins |-> out, more |-> FALSE]
  ELSE IF s[i] \in ex THEN SelectUntil(W, s, i + 1, mx, ex, mode, lim, tot, out)
  ELSE IF Len(out) >= mx \/ (IF mode = "big" THEN tot >= lim ELSE s[i] = lim)
       THEN [total |-> tot, coins |-> out, more |-> TRUE]
  ELSE SelectUntil(W, s, i + 1, mx, ex, mode, lim, tot + W[s[i]].v, Append(out, s[i]))

\* skip_big_coins_up_to_amount: drop leading (largest) big coins while the dust value covers them
RECURSIVE SkipBig(_, _, _)
SkipBig(W, coins, rem) ==
  IF coins # <<>> /\ rem >= W[Head(coins)].v THEN SkipBig(W, Tail(coins), rem - W[Head(coins)].v) ELSE coins

IndexAsc(W, qq) == AscBy(W, Spendable(W, qq))
BigOf(W, qq) == SelectUntil(W, Reverse(IndexAsc(W, qq)), 1, qq.max, qq.ex, "big", 2 * qq.t, 0, <<>>)
\* upper bound of the random dust count: min(5 * big coins, max - big coins)
DustUpper(qq, nb) == Min(5 * nb, qq.max - nb)
Indexed(W, qq, d) ==
  IF qq.t = 0 \/ qq.max = 0 THEN Ok(<<>>)
  ELSE LET big == BigOf(W, qq) IN
    IF big.total = 0 \/ (big.total < qq.t /\ ~qq.p)
    THEN IF Len(big.coins) >= qq.max /\ big.more THEN Err("max") ELSE Err("insufficient")
    ELSE LET lastBig == big.coins[Len(big.coins)]
             dust == SelectUntil(W, IndexAsc(W, qq), 1, d, qq.ex, "dust", lastBig, 0, <<>>)
         IN Ok(SkipBig(W, big.coins, dust.total) \o dust.coins)
IndexedDusts(W, qq) ==
  IF qq.t = 0 \/ qq.max = 0 THEN {0}
  ELSE LET big == BigOf(W, qq) IN
    IF big.total = 0 \/ (big.total < qq.t /\ ~qq.p) THEN {0} ELSE 0..DustUpper(qq, Len(big.coins))

(* ---- largest_first ----------------------------------------------------------*)
\* stable sort by amount descending of a sequence of ids
RECURSIVE StableDesc(_, _)
StableDesc(W, s) ==
  IF s = <<>> THEN <<>>
  ELSE LET j == CHOOSE j \in 1..Len(s) : \A l \in 1..Len(s) : W[s[j]].v > W[s[l]].v \/ (W[s[j]].v = W[s[l]].v /\ j <= l)
       IN <<s[j]>> \o StableDesc(W, SubSeq(s, 1, j - 1) \o SubSeq(s, j + 1, Len(s)))
RECURSIVE LfLoop(_, _, _, _, _, _)
LfLoop(W, qq, s, i, col, out) ==
  IF i > Len(s) \/ col >= qq.t THEN
    (IF col < qq.t THEN (IF qq.p /\ col > 0 THEN Ok(out) ELSE Err("insufficient")) ELSE Ok(out))
  ELSE IF Len(out) >= qq.max THEN (IF qq.p THEN Ok(out) ELSE Err("max"))
  ELSE LfLoop(W, qq, s, i + 1, col + W[s[i]].v, Append(out, s[i]))
LargestFirst(W, qq) == LfLoop(W, qq, StableDesc(W, CoinsStream(W, qq)), 1, 0, <<>>)

(* ---- random_improve ----------------------------------------------------------*)
\* would the loop add a coin of amount v when `col` is collected?
Accept(qq, col, v) ==
  col < qq.t \/ (v <= 2 * qq.t /\ Abs(qq.t - (col - qq.t + v)) < Abs(qq.t - (col - qq.t)))
Injective(s) == \A i, j \in 1..Len(s) : i # j => s[i] # s[j]
ImproveDirect(W, qq, sel) ==
  LET av == Range(CoinsStream(W, qq))
      m  == Min(qq.max, Cardinality(av))
      k  == Len(sel) IN
    /\ Range(sel) \subseteq av /\ Injective(sel) /\ k <= m
    /\ \A j \in 1..k : Accept(qq, SeqSum(W, SubSeq(sel, 1, j - 1)), W[sel[j]].v)
    /\ SeqSum(W, sel) >= qq.t
    /\ (k = m \/ \E x \in av \ Range(sel) : ~Accept(qq, SeqSum(W, sel), W[x].v))
\* some shuffle's prefix of min(max, n) coins stays below the target: the m smallest do
ImproveFallsBack(W, qq) ==
  LET s == CoinsStream(W, qq)
      m == Min(qq.max, Len(s))
      asc == AscBy(W, Range(s)) IN
    SeqSum(W, SubSeq(asc, 1, m)) < qq.t

IsAnswer(W, qq, ans) ==
  CASE qq.algo = "indexed" -> \E d \in IndexedDusts(W, qq) : ans = Indexed(W, qq, d)
    [] qq.algo = "largest" -> ans = LargestFirst(W, qq)
    [] qq.algo = "improve" -> \/ ans.kind = "ok" /\ ImproveDirect(W, qq, ans.sel)
                              \/ ImproveFallsBack(W, qq) /\ ans = LargestFirst(W, qq)

(* ---- actions ---------------------------------------------------------------*)
Init == wallet = [i \in Ids |-> Absent] /\ born = FALSE /\ q = NoQuery /\ res = NoRes /\ act = [name |-> "Init"]

NewWallet(W) ==
  /\ ~born /\ born' = TRUE /\ wallet' = W /\ q' = NoQuery /\ res' = NoRes
  /\ act' = [name |-> "Wallet"]

Query(qq, ans) ==
  /\ born /\ IsAnswer(wallet, qq, ans)
  /\ q' = qq /\ res' = ans /\ UNCHANGED <<wallet, born>>
  /\ act' = [name |-> "Query", algo |-> qq.algo]

Done == /\ q # NoQuery /\ q' = NoQuery /\ res' = NoRes /\ UNCHANGED <<wallet, born>> /\ act' = [name |-> "Done"]

(* ---- the property -----------------------------------------------------------*)
Answered == q # NoQuery
OnlyOwnedUnspent == (Answered /\ res.kind = "ok") => Range(res.sel) \subseteq Owned(wallet, q)
NoExcluded == (Answered /\ res.kind = "ok") => Range(res.sel) \cap q.ex = {}
NoDup      == (Answered /\ res.kind = "ok") => Injective(res.sel)
AtMostMax  == (Answered /\ res.kind = "ok") => Len(res.sel) <= q.max
\* the total covers the requested amount unless partial results were requested; ids outside the wallet count 0
SelSum(W, s) == SeqSum([i \in Ids \cup Range(s) |-> IF i \in Ids THEN W[i] ELSE Absent], s)
CoversTarget == (Answered /\ res.kind = "ok") => (q.p \/ SelSum(wallet, res.sel) >= q.t)

\* a selection the caller could have been given: spendable, not excluded, at most max coins, covering the target
\* (with partial results: anything worth returning, i.e. a positive total)
Admissible(W, qq, S) ==
  /\ S \subseteq Spendable(W, qq) \ qq.ex /\ Cardinality(S) <= qq.max
  /\ LET tot == SeqSum(W, IdAsc(S)) IN tot >= qq.t \/ (qq.p /\ tot > 0)
NoAdmissibleSearch(W, qq) == ~\E S \in SUBSET (Spendable(W, qq) \ qq.ex) : Admissible(W, qq, S)
\* the same without enumerating subsets: the `max` largest candidates decide
NoAdmissible(W, qq) ==
  LET desc == Reverse(AscBy(W, Spendable(W, qq) \ qq.ex))
      top  == SeqSum(W, SubSeq(desc, 1, Min(qq.max, Len(desc)))) IN
    ~(top >= qq.t \/ (qq.p /\ top > 0))
ErrorOnlyWhenNoAdmissibleSelection ==
  (Answered /\ res.kind = "err" /\ res.why \in {"max", "insufficient"}) => NoAdmissible(wallet, q)
\* model checking only: the shortcut agrees with the search
SearchLemma == Answered => (NoAdmissible(wallet, q) <=> NoAdmissibleSearch(wallet, q))

StateRec == [wallet |-> wallet, born |-> born, q |-> q, res |-> res]
=============================================================================
