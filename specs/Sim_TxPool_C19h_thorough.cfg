SPECIFICATION SpecMC
CONSTANTS
  MaxTxs = 4
  MaxGas = 7
  MaxSize = 6
  ChainLimit = 4
  PendingPct = 50
  MaxHeight = 3
  WalkLen = 20
VIEW View
PROPERTY InsertRespectsHandedOut
CHECK_DEADLOCK FALSE
