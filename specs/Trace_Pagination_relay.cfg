SPECIFICATION TSpec
CONSTANT MaxKey = 9
CONSTANT MaxSize = 11
INVARIANT FlagsRelayAbsolute
POSTCONDITION TraceAccepted
CHECK_DEADLOCK FALSE
