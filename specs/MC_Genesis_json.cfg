SPECIFICATION Spec
CONSTANTS
  Migs = {"Coins -> Coins", "ProcessedTransactions -> ProcessedTransactions"}
  Worlds <- MCWorlds
  GroupSizes = {0, 1}
  Encodings = {"json"}
  MaxCrashes = 0
  WithDrop = FALSE
  ClearOffEarly = FALSE
VIEW View
INVARIANT ImportedEqualsExported
CHECK_DEADLOCK FALSE
