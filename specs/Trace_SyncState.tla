---------------------------- MODULE Trace_SyncState ----------------------------
(* Trace validation of the real fuel_core_sync::state::State against SyncState. *)
(* STRICT=1: every event must be the spec's own action with the logged status.  *)
(* STRICT=0 (observe): status is bound to what the implementation logged, the   *)
(* ghosts follow the reference rules; only the invariants judge.                *)
EXTENDS SyncState, Json, IOUtils, Sequences

Rec == ndJsonDeserialize(IOEnv.TRACE)
Strict == IOEnv.STRICT = "1"

VARIABLE l
tvars == <<vars, act, l>>

IsEv(e) == l <= Len(Rec) /\ Rec[l].ev = e /\ l' = l + 1
Logged(r) == St(r.st.k, r.st.lo, r.st.hi)

TInit == Init /\ l = 1

TReset == /\ IsEv("reset")
          /\ status' = Unborn /\ gc' = -1 /\ go' = -1 /\ act' = [name |-> "reset"]

Bind(A, G) == LET r == Rec[l] IN
  IF Strict THEN A /\ status' = Logged(r)
            ELSE status' = Logged(r) /\ G /\ act' = [name |-> r.ev]

TNew     == IsEv("New")     /\ LET r == Rec[l] IN Bind(New(r.c, r.o), GhostNew(r.c, r.o))
TCommit  == IsEv("Commit")  /\ LET r == Rec[l] IN Bind(Commit(r.h), GhostCommit(r.h))
TObserve == IsEv("Observe") /\ LET r == Rec[l] IN
              Bind(Observe(r.h) /\ r.res = ObserveStatus(status, r.h)[2], GhostObserve(r.h))
TFail    == IsEv("Fail")    /\ LET r == Rec[l] IN Bind(Fail(r.lo, r.hi), GhostFail(r.lo, r.hi))

TNext == TReset \/ TNew \/ TCommit \/ TObserve \/ TFail
TSpec == TInit /\ [][TNext]_tvars

TraceAccepted ==
  LET d == TLCGet("stats").diameter IN
  IF d - 1 = Len(Rec) THEN PrintT(<<"TRACE-ACCEPTED", Len(Rec)>>)
  ELSE PrintT(<<"TRACE-REJECTED", d>>) /\ PrintT(Rec[d])
=============================================================================
