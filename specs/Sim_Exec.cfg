SPECIFICATION SimSpec
CONSTANT MaxBlocks = 4
CONSTANT MaxTry = 3
CONSTANT WalkLen = 60
CONSTANT TxIds = {"t1", "t2", "t3", "t4", "t5", "t7", "t8", "t9", "t10", "t11"}
CONSTANT Recipients = {"none", "c1", "c2"}
CONSTANT GasPrices = {0, 1}
CONSTRAINT PrintWalk
INVARIANT PhaseOk
INVARIANT ValidateAccepts
INVARIANT BlockAsSpec
INVARIANT CommitIsProduced
INVARIANT SpentExisted
INVARIANT SpentOnce
INVARIANT CreatedFresh
INVARIANT EventsAreDiff
INVARIANT CoinsAsSpec
INVARIANT EventsAsSpec
INVARIANT MintRules
INVARIANT Limits
INVARIANT AskedWhatIsLeft
INVARIANT MintTamperedRejected
INVARIANT RevertFrame
INVARIANT SkipFrame
INVARIANT DaExact
INVARIANT ImportedInOrder
INVARIANT MessageImportedOnce
INVARIANT ForcedExecutedOrFailed
INVARIANT InboxRoot
INVARIANT MessagesLand
INVARIANT ExecutedOnce
INVARIANT ProcessedRecorded
INVARIANT DupRejected
INVARIANT ReplayOk
CHECK_DEADLOCK FALSE
