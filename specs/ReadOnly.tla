------------------------------- MODULE ReadOnly -------------------------------
(* C45 - dry runs and read-only queries leave the chain state unchanged.                                     *)
(*                                                                                                           *)
(* An abstract fuel-core node as seen through its API:                                                       *)
(*   Submit(t)            TxMutation::submit -> txpool insert                                                *)
(*   Produce              manual block production (PoA -> Producer::produce_and_execute_block_txpool ->       *)
(*                        executor -> importer commit -> off-chain worker, pool's block processing)           *)
(*   DryRun(..)           TxQuery::dry_run / dry_run_record_storage_reads -> Producer::dry_run ->             *)
(*                        upgradable Executor::dry_run: the SAME execution as block production, on a view of  *)
(*                        the latest state or (at = h) of the state before block h, whose changes are         *)
(*                        dropped (`into_result()`) instead of committed                                      *)
(*   Est(p)               TxQuery::estimate_predicates (reads consensus parameters only)                      *)
(*   Asm(k, who)          TxQuery::assemble_tx: coins of `who` from the off-chain coins-to-spend index,       *)
(*                        contract inputs and gas found by internal dry runs, final dry run of the result    *)
(* The chain is: genesis (height 0) funds owner A with `Coins`, block 1 deploys a counter contract; after    *)
(* that every block is the set of pool transactions.  Transactions are (kind, coin): each spends one coin    *)
(* of A; "ok" returns 1, "rev" reverts, "inc" increments the counter and returns it.  Dry-run-only kinds:     *)
(* "noctr" (contract input that does not exist), "noinp" (calls the counter without listing it), "ghost"     *)
(* (spends a coin that never existed).                                                                        *)
(* Ghost: memo = the answers given since the chain last changed.                                              *)
EXTENDS Naturals, Integers, Sequences, FiniteSets, TLC

CONSTANTS Coins,      \* ids of A's genesis coins (small positive integers)
          MaxBlocks   \* bound on Produce (model checking only)

WKinds == {"ok", "rev", "inc"}
DKinds == WKinds \cup {"noctr", "noinp"}
GhostTx == [k |-> "ghost", c |-> 0]
WTx == [k : WKinds, c : Coins]
DTx == [k : DKinds, c : Coins] \cup {GhostTx}
Preds == {"true", "false", "bad", "none"}
Whos == {"A", "B", "N"}          \* A: the coins above; B: exactly one coin, never spent; N: no coins

VARIABLES height,     \* latest block height
          onchain,    \* [blocks: txs of block 2.., spent: A's coins gone from Coins, ctr: counter slot, dg: id of the digest of ALL columns]
          offchain,   \* [synced: height processed by the off-chain worker, owned: A's coins in the owned-coins index, dg]
          poolTxs,    \* transactions resident in the pool
          poolSpent,  \* A's coins the pool has marked as spent
          memo,       \* ghost: request -> answer since the chain last changed
          act

chain == <<height, onchain, offchain, poolTxs, poolSpent>>
vars == <<height, onchain, offchain, poolTxs, poolSpent, memo>>

ReadOnlyOps == {"DryRun", "Est", "Asm"}

\* ---------------------------------------------------------------- views of the on-chain state
UnionOf(S) == UNION S
TxsBefore(h) ==     \* transactions of blocks 2..h
  UnionOf({onchain.blocks[i] : i \in {j \in 1..Len(onchain.blocks) : j + 1 <= h}})
PastView(h) == [spent |-> {t.c : t \in TxsBefore(h)},
                ctr   |-> Cardinality({t \in TxsBefore(h) : t.k = "inc"}),
                done  |-> TxsBefore(h),
                dep   |-> h >= 1]
LatestView == [spent |-> onchain.spent, ctr |-> onchain.ctr, done |-> TxsBefore(height), dep |-> height >= 1]

\* the tables are what the blocks imply (sanity of the transcription; holds by construction of Produce)
ChainConsistent == /\ onchain.spent = PastView(height).spent
                   /\ onchain.ctr = PastView(height).ctr
                   /\ height = Len(onchain.blocks) + 1
                   /\ offchain.synced = height
                   /\ offchain.owned = Coins \ onchain.spent
                   /\ poolSpent = onchain.spent

\* ---------------------------------------------------------------- execution of one transaction on a view
\* (what ExecutionInstance does for one transaction of a block; block production commits the resulting view,
\*  a dry run drops it).  e = "" : executed, otherwise the transaction is invalid (skipped / dry run fails).
Res(s, v) == [s |-> s, v |-> v]
ExecTx(V, t, uv) ==
  IF t \in V.done THEN [e |-> "dup", v |-> V, r |-> Res("-", -1)]
  ELSE IF uv /\ (t.k = "ghost" \/ t.c \in V.spent) THEN [e |-> "coin", v |-> V, r |-> Res("-", -1)]
  \* a contract input must exist, with or without utxo validation (inputs are checked in order: the coin first)
  ELSE IF t.k = "noctr" \/ (t.k = "inc" /\ ~V.dep) THEN [e |-> "contract", v |-> V, r |-> Res("-", -1)]
  ELSE LET V1 == [V EXCEPT !.spent = @ \cup (IF t.k = "ghost" THEN {} ELSE {t.c}), !.done = @ \cup {t}] IN
       CASE t.k \in {"ok", "ghost"} -> [e |-> "", v |-> V1, r |-> Res("S", 1)]
         [] t.k = "rev"   -> [e |-> "", v |-> V1, r |-> Res("R", -1)]
         [] t.k = "inc"   -> [e |-> "", v |-> [V1 EXCEPT !.ctr = @ + 1], r |-> Res("S", V.ctr + 1)]
         [] t.k = "noinp" -> [e |-> "", v |-> V1, r |-> Res("P", -1)]

RECURSIVE ExecSeq(_, _, _, _)
ExecSeq(V, txs, uv, acc) ==
  IF txs = <<>> THEN [e |-> "", r |-> acc]
  ELSE LET x == ExecTx(V, Head(txs), uv) IN
       IF x.e # "" THEN [e |-> x.e, r |-> <<>>]      \* "If any of the transactions fails, return an error"
       ELSE ExecSeq(x.v, Tail(txs), uv, Append(acc, x.r))

\* utxo_validation: None falls back to the node's configuration (true in the harness' node)
UvEff(uv) == uv # 0

\* at = 0: latest state; at = h: the state before block h (view_at(h - 1)); only existing blocks and the next one
DryRunAnswer(txs, at, uv) ==
  IF at > height + 1 THEN [e |-> "height", r |-> <<>>]
  ELSE ExecSeq(IF at = 0 \/ at = height + 1 THEN LatestView ELSE PastView(at - 1), txs, UvEff(uv), <<>>)

\* estimation only measures: a predicate that returns 0 is estimated like one that returns 1, one that panics (a
\* contract instruction) is left with gas 0, like a transaction without predicates
EstAnswer(p) == [e |-> "", r |-> <<Res("G", IF p \in {"true", "false"} THEN 1 ELSE 0)>>]

\* assembleTx: the fee payer's coins come from the off-chain index; the contract input is added by the assembler
AsmFunds(who) == CASE who = "A" -> offchain.owned # {} [] who = "B" -> TRUE [] who = "N" -> FALSE
AsmAnswer(k, who) ==
  IF ~AsmFunds(who) THEN [e |-> "funds", r |-> <<>>]
  ELSE CASE k = "ok"  -> [e |-> "", r |-> <<Res("S", 1)>>]
         [] k = "rev" -> [e |-> "", r |-> <<Res("R", -1)>>]
         [] k = "inc" -> [e |-> "", r |-> <<Res("S", onchain.ctr + 1)>>]
\* coin selection draws the number of dust coins at random (coins_query::max_dust_count): the selection, hence
\* the assembled transaction, is a function of the request only when there is no choice
AsmDet(who) == who # "A" \/ Cardinality(offchain.owned) <= 1

\* ---------------------------------------------------------------- ghost
Req(op, txs, at, uv, rec, gp, k, who) ==
  [op |-> op, txs |-> txs, at |-> at, uv |-> uv, rec |-> rec, gp |-> gp, k |-> k, who |-> who]
\* remember the answer; forget everything when the databases changed (judged on the primed values, so that the
\* same operator serves the observe mode of the trace specification)
GhostMemo(q, a) ==
  memo' = (q :> a) @@ (IF onchain' = onchain /\ offchain' = offchain THEN memo ELSE <<>>)
GhostForget == memo' = (IF onchain' = onchain /\ offchain' = offchain THEN memo ELSE <<>>)

\* ---------------------------------------------------------------- actions
Init == /\ height = 1
        /\ onchain = [blocks |-> <<>>, spent |-> {}, ctr |-> 0, dg |-> 0]
        /\ offchain = [synced |-> 1, owned |-> Coins, dg |-> 0]
        /\ poolTxs = {} /\ poolSpent = {}
        /\ memo = <<>>
        /\ act = [name |-> "Init"]

Submit(t) ==
  /\ t \in WTx
  /\ t.c \notin onchain.spent /\ t.c \notin poolSpent /\ \A u \in poolTxs : u.c # t.c
  /\ poolTxs' = poolTxs \cup {t}
  /\ UNCHANGED <<height, onchain, offchain, poolSpent>>
  /\ GhostForget
  /\ act' = [name |-> "Submit", k |-> t.k, c |-> t.c]

Produce ==
  /\ height' = height + 1
  /\ onchain' = [blocks |-> Append(onchain.blocks, poolTxs),
                 spent  |-> onchain.spent \cup {t.c : t \in poolTxs},
                 ctr    |-> onchain.ctr + Cardinality({t \in poolTxs : t.k = "inc"}),
                 dg     |-> onchain.dg + 1]        \* every block changes the database: a digest never seen before
  /\ offchain' = [synced |-> height + 1, owned |-> offchain.owned \ {t.c : t \in poolTxs}, dg |-> offchain.dg + 1]
  /\ poolSpent' = poolSpent \cup {t.c : t \in poolTxs}
  /\ poolTxs' = {}
  /\ GhostForget
  /\ act' = [name |-> "Produce"]

\* wall-clock time passes (a second or more); nothing else happens
Tick == UNCHANGED vars /\ act' = [name |-> "Tick"]

\* dg: what the abstract answer leaves out (receipts, gas, fee, storage reads, the assembled transaction): an
\* opaque id, 0 in the model, the interned digest of the complete answer in implementation traces
DryRun(txs, at, uv, rec, gp, dg) ==
  LET a == DryRunAnswer(txs, at, uv) IN
  /\ UNCHANGED chain
  /\ GhostMemo(Req("DryRun", txs, at, uv, rec, gp, "", ""), [e |-> a.e, r |-> a.r, dg |-> dg])
  /\ act' = [name |-> "DryRun", txs |-> txs, at |-> at, uv |-> uv, rec |-> rec, gp |-> gp, res |-> a]

Est(p, dg) ==
  LET a == EstAnswer(p) IN
  /\ UNCHANGED chain
  /\ GhostMemo(Req("Est", <<>>, 0, 0, FALSE, 0, p, ""), [e |-> a.e, r |-> a.r, dg |-> dg])
  /\ act' = [name |-> "Est", p |-> p, res |-> a]

Asm(k, who, dg) ==
  LET a == AsmAnswer(k, who) IN
  /\ UNCHANGED chain
  /\ GhostMemo(Req("Asm", <<>>, 0, 0, FALSE, 0, k, who),
               [e |-> a.e, r |-> a.r, dg |-> IF AsmDet(who) \/ a.e # "" THEN dg ELSE -1])
  /\ act' = [name |-> "Asm", k |-> k, who |-> who, res |-> a]

\* ---------------------------------------------------------------- properties
\* a read-only operation is a stuttering step on the databases, the height and the pool
ReadOnlyFrame == [][act'.name \in ReadOnlyOps => UNCHANGED chain]_<<vars, act>>
\* equal requests on an unchanged chain get equal answers
Repeatable == [][\A q \in (DOMAIN memo) \cap (DOMAIN memo') :
                   (onchain' = onchain /\ offchain' = offchain) => memo'[q] = memo[q]]_<<vars, act>>

StateRec == [height |-> height, onchain |-> onchain, offchain |-> offchain, poolTxs |-> poolTxs,
             poolSpent |-> poolSpent]
=============================================================================
