---------------------------- MODULE MC_CoinsQuery ----------------------------
(* Model-checking instance of CoinsQuery: the wallets, queries and (for the shuffle of random_improve)  *)
(* candidate answers that are enumerated.                                                               *)
EXTENDS CoinsQuery, Json

CONSTANTS SlotKinds,     \* kind of each slot, sequence over {"c", "m"}
          Amts,          \* amounts of the owner's spendable resources
          Foreign,       \* also put foreign-owner / other-asset / retryable / spent resources into slots
          MaxT, MaxMax, MaxEx,   \* targets 0..MaxT, max 0..MaxMax, at most MaxEx excluded ids
          Algos,         \* algorithms explored
          IndexedMinMax  \* smallest `max` explored for the indexed algorithm (known finding C37-1: max = 0)

Mine(kind, v) == [k |-> kind, o |-> 1, a |-> Base, v |-> v, r |-> FALSE, s |-> FALSE]
MaxAmt == CHOOSE v \in Amts : \A w \in Amts : v >= w
\* slot i can also hold a resource the query must never return: foreign owner / other asset (slot 1),
\* retryable message or spent (slot 2), spent (other slots)
ForeignOf(kind, i) ==
  IF ~Foreign THEN {}
  ELSE IF i = 1 THEN {[Mine(kind, MaxAmt) EXCEPT !.o = 2], IF kind = "c" THEN [Mine(kind, MaxAmt) EXCEPT !.a = 1]
                                                             ELSE [Mine(kind, MaxAmt) EXCEPT !.r = TRUE]}
  ELSE IF i = 2 THEN {IF kind = "m" THEN [Mine(kind, MaxAmt) EXCEPT !.r = TRUE] ELSE [Mine(kind, MaxAmt) EXCEPT !.a = 1]}
  ELSE {[Mine(kind, MaxAmt) EXCEPT !.s = TRUE]}
Profiles(kind, i) == {Absent} \cup {Mine(kind, v) : v \in Amts} \cup ForeignOf(kind, i)
WalletSpace == {W \in [Ids -> UNION {Profiles(kk, i) : kk \in {"c", "m"}, i \in Ids}] :
                  \A i \in Ids : W[i] \in Profiles(SlotKinds[i], i)}
RECURSIVE InjSeqs(_, _)
InjSeqs(S, n) == IF n = 0 THEN {<<>>}
                 ELSE {<<>>} \cup UNION {{<<x>> \o s : s \in InjSeqs(S \ {x}, n - 1)} : x \in S}
QuerySpace == {qq \in [algo : Algos, o : {1}, a : {Base}, t : 0..MaxT, max : 0..MaxMax,
                       ex : {e \in SUBSET Ids : Cardinality(e) <= MaxEx}, p : BOOLEAN] :
                 qq.algo = "indexed" => qq.max >= IndexedMinMax}
Candidates == {Ok(s) : s \in InjSeqs(Ids, N)} \cup {Err("max"), Err("insufficient")}
\* every possible answer (the deterministic parts computed, the shuffle enumerated)
AnswerSet(W, qq) ==
  CASE qq.algo = "indexed" -> {Indexed(W, qq, d) : d \in IndexedDusts(W, qq)}
    [] qq.algo = "largest" -> {LargestFirst(W, qq)}
    [] qq.algo = "improve" -> {c \in Candidates : IsAnswer(W, qq, c)}

Next == \/ \E W \in WalletSpace : NewWallet(W)
        \/ q = NoQuery /\ \E qq \in QuerySpace : \E ans \in AnswerSet(wallet, qq) : Query(qq, ans)
        \/ Done
Spec == Init /\ [][Next]_<<vars, act>>


View == vars
Slots3 == <<"c", "m", "c">>
Slots4 == <<"c", "m", "c", "m">>
=============================================================================
