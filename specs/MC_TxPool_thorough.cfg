SPECIFICATION SpecMC
CONSTANTS
  MaxTxs = 3
  MaxGas = 8
  MaxSize = 9
  ChainLimit = 3
  PendingPct = 67
  MaxHeight = 2
  WalkLen = 4
VIEW View
CONSTRAINT DepthBound
INVARIANT NoTwoSpendSameInput
INVARIANT NoTwoCreateSameContractOrBlob
INVARIANT StatsExact
INVARIANT EdgesCoverCoinParents
INVARIANT EdgesInPool
INVARIANT NoDiamond
INVARIANT ChainLen
INVARIANT ExecutableHaveNoParents
PROPERTY ParentBeforeChild
PROPERTY RemovalCascades
PROPERTY ExtractPost
PROPERTY InsertAdmits
PROPERTY InsertBeatsCollisions
PROPERTY BlockReconciles
PROPERTY LatePreconfIsNoop
PROPERTY SqueezedExactlyOnce
CHECK_DEADLOCK FALSE
