SPECIFICATION SpecMC
CONSTANTS
  MaxTxs = 4
  MaxGas = 7
  MaxSize = 6
  ChainLimit = 4
  PendingPct = 50
  MaxHeight = 3
  WalkLen = 3
VIEW View
CONSTRAINT DepthBound
INVARIANT NoTwoSpendSameInput
INVARIANT NoTwoCreateSameContractOrBlob
INVARIANT StatsExact
INVARIANT EdgesCoverCoinParents
INVARIANT EdgesInPool
INVARIANT NoDiamond
INVARIANT ChainLen
INVARIANT ExecutableHaveNoParents
PROPERTY ParentBeforeChild
PROPERTY RemovalCascades
PROPERTY ExtractPost
PROPERTY InsertAdmits
PROPERTY InsertBeatsCollisions
PROPERTY BlockReconciles
PROPERTY LatePreconfIsNoop
PROPERTY SqueezedExactlyOnce
CHECK_DEADLOCK FALSE
