SPECIFICATION SimCoarse
CONSTANTS
  Replica = {"A", "B"}
  Node = {"n1", "n2", "n3"}
  NoReplica = "none"
  MaxHeight = 3
  MaxEpoch = 8
  MaxMade = 5
  MaxLate = 2
  MaxInc = 1
  Budget = 1
  LateKinds = {"write"}
  EarlyStop = FALSE
  WalkLen = 40
  OkWeight = 6
CONSTRAINT Bounded
CHECK_DEADLOCK FALSE
