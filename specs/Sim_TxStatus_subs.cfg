SPECIFICATION SimSpec
CONSTANT NTx = 1
CONSTANT Kinds = {"Sub", "PSucc", "PFail", "Succ"}
CONSTANT Cap = 2
CONSTANT SubTtl = 3
CONSTANT CacheTtl = 2
CONSTANT Buf = 3
CONSTANT MaxSubs = 3
CONSTANT MaxPub = 12
CONSTANT MaxClock = 5
CONSTANT Ticks = {1, 2}
INVARIANT EmitWalk
CHECK_DEADLOCK FALSE
