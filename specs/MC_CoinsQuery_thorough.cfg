SPECIFICATION Spec
CONSTANT N = 4
CONSTANT SlotKinds <- Slots4
CONSTANT Amts = {1, 2, 4}
CONSTANT Foreign = FALSE
CONSTANT MaxT = 7
CONSTANT MaxMax = 4
CONSTANT MaxEx = 1
CONSTANT Algos = {"indexed", "largest", "improve"}
CONSTANT IndexedMinMax = 1
VIEW View
INVARIANT OnlyOwnedUnspent
INVARIANT NoExcluded
INVARIANT NoDup
INVARIANT AtMostMax
INVARIANT CoversTarget
INVARIANT ErrorOnlyWhenNoAdmissibleSelection
INVARIANT SearchLemma
CHECK_DEADLOCK FALSE
