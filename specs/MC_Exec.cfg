SPECIFICATION MCSpec
CONSTANT MaxBlocks = 2
CONSTANT MaxTry = 2
CONSTANT WalkLen = 0
CONSTANT TxIds = {"t1", "t2", "t3", "t4", "t7", "t9"}
CONSTANT Recipients = {"none", "c1"}
CONSTANT GasPrices = {1}
VIEW View
INVARIANT PhaseOk
INVARIANT ValidateAccepts
INVARIANT BlockAsSpec
INVARIANT CommitIsProduced
INVARIANT SpentExisted
INVARIANT SpentOnce
INVARIANT CreatedFresh
INVARIANT EventsAreDiff
INVARIANT CoinsAsSpec
INVARIANT EventsAsSpec
INVARIANT MintRules
INVARIANT Limits
INVARIANT AskedWhatIsLeft
INVARIANT MintTamperedRejected
INVARIANT RevertFrame
INVARIANT SkipFrame
INVARIANT DaExact
INVARIANT ImportedInOrder
INVARIANT MessageImportedOnce
INVARIANT ForcedExecutedOrFailed
INVARIANT InboxRoot
INVARIANT MessagesLand
INVARIANT ExecutedOnce
INVARIANT DupRejected
INVARIANT ReplayOk
INVARIANT TamperedRejected
CHECK_DEADLOCK FALSE
