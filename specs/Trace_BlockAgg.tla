---------------------------- MODULE Trace_BlockAgg ----------------------------
(* Trace validation of the real StorageDB / StorageBlocksProvider with the real fuel <-> protobuf      *)
(* conversions in the observation path (h-compress c43-run / c43-sweep / c43-random).                  *)
EXTENDS BlockAgg, Json, IOUtils

Rec == ndJsonDeserialize(IOEnv.TRACE)
Strict == IOEnv.STRICT = "1"
VARIABLE l
tvars == <<vars, act, l>>
IsEv(e) == l <= Len(Rec) /\ Rec[l].ev = e /\ l' = l + 1
TInit == Init /\ l = 1

RangeOf(s) == { s[i] : i \in 1..Len(s) }
ShapeOf(p) == [tx |-> p.tx, ins |-> p.ins, outs |-> p.outs, rcs |-> p.rcs, pol |-> p.pol]
Items(r) == [i \in 1..Len(r.items) |-> [h |-> r.items[i].h, p |-> ShapeOf(r.items[i].p), rt |-> r.items[i].rt]]

\* the Blocks table is projected to its heights; payloads are observed when they are read back
PostStrict(st) == latest' = st.latest /\ DOMAIN stored' = RangeOf(st.heights)
\* observe mode: heights as logged; the payload of a height is the shape submitted by the last accepted
\* store of that height (what the harness compares against)
PostObserve(st, h, p, ok) ==
  /\ latest' = st.latest
  /\ stored' = [g \in RangeOf(st.heights) |->
                  IF ok /\ g = h THEN p ELSE IF g \in DOMAIN stored THEN stored[g] ELSE p]

TReset == /\ IsEv("reset")
          /\ born' = FALSE /\ top' = FALSE /\ stored' = EmptyFn /\ latest' = None
          /\ res' = NoRes /\ out' = NoOut /\ act' = [name |-> "reset"]

TNew == /\ IsEv("New")
        /\ LET r == Rec[l] IN
             IF Strict THEN New(r.top) /\ PostStrict(r.st)
             ELSE /\ born' = TRUE /\ top' = r.top /\ stored' = EmptyFn /\ latest' = r.st.latest
                  /\ UNCHANGED <<res, out>> /\ act' = [name |-> "New", top |-> r.top]

TStore == /\ IsEv("Store")
          /\ LET r == Rec[l]  p == ShapeOf(r.p) IN
               IF Strict THEN /\ Store(r.h, p)
                              /\ res' = [store |-> r.res, conv |-> r.conv]
                              /\ PostStrict(r.st)
               ELSE /\ PostObserve(r.st, r.h, p, r.res = "Ok")
                    /\ res' = [store |-> r.res, conv |-> r.conv]
                    /\ UNCHANGED <<born, top, out>>
                    /\ act' = [name |-> "Store", h |-> r.h, p |-> p]

TGetRange == /\ IsEv("GetRange")
             /\ LET r == Rec[l]  o == [first |-> r.first, last |-> r.last, items |-> Items(r)] IN
                  IF Strict THEN GetRange(r.first, r.last) /\ out' = o /\ r.res = "Ok" /\ PostStrict(r.st)
                  ELSE /\ out' = o
                       /\ UNCHANGED <<born, top, stored, latest, res>>
                       /\ act' = [name |-> "GetRange", first |-> r.first, last |-> r.last]

TNext == TReset \/ TNew \/ TStore \/ TGetRange
TSpec == TInit /\ [][TNext]_tvars
TraceAccepted ==
  LET d == TLCGet("stats").diameter IN
  IF d - 1 = Len(Rec) THEN PrintT(<<"TRACE-ACCEPTED", Len(Rec)>>)
  ELSE PrintT(<<"TRACE-REJECTED", d>>) /\ PrintT(Rec[d])
=============================================================================
