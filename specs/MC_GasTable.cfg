SPECIFICATION Spec
CONSTANT M = 25
CONSTANT N = 25
CONSTANT MaxBlocks = 27
CONSTANT MaxPct = 27
CONSTANT Prices = {0, 1, 99, 100, 10000}
INVARIANT TableIndexInDomain
INVARIANT Total
INVARIANT Bound
PROPERTY Monotone
CHECK_DEADLOCK FALSE
