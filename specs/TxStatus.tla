---------------------------- MODULE TxStatus ----------------------------
(* C22 / C23 — fuel-core-tx-status-manager: TxStatusManager (manager.rs) with its UpdateSender   *)
(* (update_sender.rs) and the per-subscriber automaton (tx_status_stream.rs, module TxStreamOps). *)
(*                                                                                                *)
(* One action per public call: Publish = TxStatusManager::status_update, Subscribe =              *)
(* tx_update_subscribe, Read = one poll of the subscriber's TxStatusStream, DropSub = the          *)
(* subscriber drops its stream, Tick = time passes (the code reads tokio::time::Instant).          *)
(* The sender map is mutex protected and the manager is owned by one task, so Publish and          *)
(* Subscribe are atomic; reads happen on the receiver side of a tokio mpsc channel of capacity     *)
(* Buf (= BUFFER_SIZE = 3) and interleave freely with them.                                        *)
(*                                                                                                *)
(* Transcription variables: clock, nonprun/prun/queue (Data), senders (SenderMap: per tx the list  *)
(* of Sender{stream state, created, id of its channel}), chans/rx (the mpsc channels).             *)
(* Observed variable: view[tx] = what TxStatusManager::status(tx) returns.                         *)
(* Ghosts (defined from the calls and their results only): published, pubTime, sg.                 *)
EXTENDS TxStreamOps, TLC, FiniteSets

CONSTANTS NTx,        \* transactions 1..NTx
          Kinds,      \* status kinds that Publish may use (subset of StatusKinds)
          Cap,        \* Config::max_tx_update_subscriptions (semaphore permits)
          SubTtl,     \* Config::subscription_ttl   (clock units)
          CacheTtl,   \* Config::status_cache_ttl   (clock units)
          Buf,        \* BUFFER_SIZE of a subscriber channel
          MaxSubs, MaxPub, MaxClock, Ticks   \* model-checking bounds only (guards of Next)

Txs == 1..NTx

VARIABLES clock,
          nonprun,    \* [Txs -> status | NoMsg]                  Data::non_prunable_statuses
          prun,       \* [Txs -> [t, st]]  st = NoMsg when absent   Data::prunable_statuses
          queue,      \* <<[t, tx]>>  index 1 = front (newest)      Data::pruning_queue
          senders,    \* [Txs -> <<[id, st, created]>>]             UpdateSender::senders
          chans,      \* <<buffer of channel i>>                    mpsc buffers, by subscriber id
          rx,         \* <<"open" | "dropped">>                     receiver ends, by subscriber id
          view,       \* [Txs -> status | NoMsg]                    TxStatusManager::status
          published,  \* ghost [Txs -> sequence of statuses]
          pubTime,    \* ghost [Txs -> clock of the last publication]
          sg,         \* ghost <<per subscriber record>>, see NewSubGhost
          act

model == <<clock, nonprun, prun, queue, senders, chans, rx>>
ghosts == <<published, pubTime, sg>>
vars == <<clock, nonprun, prun, queue, senders, chans, rx, view, published, pubTime, sg>>

NoEntry == [t |-> 0, st |-> NoMsg]
Last(s) == s[Len(s)]
HasFinal(s) == \E i \in 1..Len(s) : IsFinalMsg(s[i])

Init ==
  /\ clock = 0
  /\ nonprun = [x \in Txs |-> NoMsg]
  /\ prun = [x \in Txs |-> NoEntry]
  /\ queue = <<>>
  /\ senders = [x \in Txs |-> <<>>]
  /\ chans = <<>> /\ rx = <<>>
  /\ view = [x \in Txs |-> NoMsg]
  /\ published = [x \in Txs |-> <<>>]
  /\ pubTime = [x \in Txs |-> 0]
  /\ sg = <<>>
  /\ act = [name |-> "Init"]

(* ------------------------------------------------------------------------ *)
(* Data: prune_old_statuses / add_new_status / status                         *)

\* pops from the back while the entry is at least CacheTtl old; the cached status is removed only
\* when its timestamp is the popped one
RECURSIVE Prune(_, _, _)
Prune(q, p, now) ==
  IF q = <<>> THEN [q |-> q, p |-> p]
  ELSE LET e == q[Len(q)] IN
       IF now - e.t < CacheTtl THEN [q |-> q, p |-> p]
       ELSE Prune(SubSeq(q, 1, Len(q) - 1),
                  IF p[e.tx].st # NoMsg /\ p[e.tx].t = e.t THEN [p EXCEPT ![e.tx] = NoEntry] ELSE p,
                  now)

IsPrunable(s) == s.k # "Sub"

\* register_status: [q, p, np] after pruning and adding status s of tx at time now
Register(q, p, np, tx, s, now) ==
  LET pr == Prune(q, p, now) IN
  IF IsPrunable(s)
  THEN [q |-> <<[t |-> now, tx |-> tx]>> \o pr.q,
        p |-> [pr.p EXCEPT ![tx] = [t |-> now, st |-> s]],
        np |-> [np EXCEPT ![tx] = NoMsg]]
  ELSE [q |-> pr.q, p |-> pr.p, np |-> [np EXCEPT ![tx] = s]]

\* TxStatusManager::status
StatusOf(np, p, tx) == IF np[tx] # NoMsg THEN np[tx] ELSE p[tx].st

(* ------------------------------------------------------------------------ *)
(* UpdateSender                                                               *)

\* remove_closed_and_expired
Alive(e, now) == ~SIsClosed(e.st) /\ now - e.created < SubTtl
RemoveClosedExpired(snd, now) == [x \in Txs |-> SelectSeq(snd[x], LAMBDA e : Alive(e, now))]

SenderExists(snd, id) == \E x \in Txs : \E i \in 1..Len(snd[x]) : snd[x][i].id = id
InUse(snd) == LET RECURSIVE Sum(_)
                  Sum(S) == IF S = {} THEN 0 ELSE LET x == CHOOSE y \in S : TRUE IN Len(snd[x]) + Sum(S \ {x})
              IN Sum(Txs)

\* Sender::try_send for one sender e and message m, against its channel:
\*   [st |-> stream state afterwards, sent |-> message put into the channel or NoMsg]
TrySend(e, m, ch, rxs) ==
  LET st1 == SAddMsg(e.st, m)
      tn  == STryNext(st1) IN
  IF tn.out = NoMsg THEN [st |-> tn.st, sent |-> NoMsg]
  ELSE IF rxs[e.id] = "dropped" THEN [st |-> SCloseRecv(tn.st), sent |-> NoMsg]      \* SendError::Closed
  ELSE IF Len(ch[e.id]) >= Buf THEN [st |-> SAddFailure(tn.st), sent |-> NoMsg]      \* SendError::Full
  ELSE [st |-> tn.st, sent |-> tn.out]

(* ------------------------------------------------------------------------ *)
(* ghosts                                                                     *)

NewSubGhost(tx, now) ==
  [tx |-> tx,
   at |-> Len(published[tx]),   \* publications of tx before the subscription
   time |-> now,                \* clock of the subscription
   delivered |-> <<>>,          \* messages the subscriber has read
   endLen |-> -1,               \* Len(delivered) when the stream reported its end
   dropped |-> FALSE,           \* the subscriber dropped its stream
   caughtUp |-> TRUE,           \* the subscriber saw Pending/End since the last publication of tx
   drained |-> TRUE,            \* caughtUp held at every publication of tx so far
   due |-> <<>>]                \* what a draining subscriber is entitled to: publications of tx made
                                \* while younger than SubTtl, up to and including the first final one

GhostPublish(tx, s, now) ==
  /\ published' = [published EXCEPT ![tx] = Append(@, s)]
  /\ pubTime' = [pubTime EXCEPT ![tx] = now]
  /\ sg' = [i \in 1..Len(sg) |->
             IF sg[i].tx # tx THEN sg[i]
             ELSE [sg[i] EXCEPT !.drained = @ /\ sg[i].caughtUp,
                                !.caughtUp = FALSE,
                                !.due = IF ~HasFinal(@) /\ now - sg[i].time < SubTtl THEN Append(@, s) ELSE @]]

GhostSubscribe(tx, ok, now) ==
  /\ published' = published /\ pubTime' = pubTime
  /\ sg' = IF ok THEN Append(sg, NewSubGhost(tx, now)) ELSE sg

GhostRead(sub, out) ==
  /\ published' = published /\ pubTime' = pubTime
  /\ sg' = IF sub \notin 1..Len(sg) THEN sg ELSE
           [sg EXCEPT ![sub] =
              CASE out.k = "Pending" -> [@ EXCEPT !.caughtUp = TRUE]
                [] out.k = "End" -> [@ EXCEPT !.caughtUp = TRUE,
                                              !.endLen = IF @ = -1 THEN Len(sg[sub].delivered) ELSE @]
                [] out.k = "NoSub" -> @
                [] OTHER -> [@ EXCEPT !.delivered = Append(@, out)]]

GhostDrop(sub) ==
  /\ published' = published /\ pubTime' = pubTime
  /\ sg' = IF sub \notin 1..Len(sg) THEN sg ELSE [sg EXCEPT ![sub].dropped = TRUE]

GhostQuiet == published' = published /\ pubTime' = pubTime /\ sg' = sg

(* ------------------------------------------------------------------------ *)
(* actions                                                                    *)

ViewOf(np, p) == [x \in Txs |-> StatusOf(np, p, x)]

\* TxStatusManager::status_update(tx, status of kind k); the harness numbers the statuses of a tx 1, 2, ...
Publish(tx, k) ==
  LET s   == Stat(k, Len(published[tx]) + 1)
      reg == Register(queue, prun, nonprun, tx, s, clock)
      s1  == RemoveClosedExpired(senders, clock)
      rs  == [i \in 1..Len(s1[tx]) |-> TrySend(s1[tx][i], s, chans, rx)]
      upd == [i \in 1..Len(s1[tx]) |-> [s1[tx][i] EXCEPT !.st = rs[i].st]]
      Sent(id) == {i \in 1..Len(s1[tx]) : s1[tx][i].id = id /\ rs[i].sent # NoMsg}
  IN
  /\ queue' = reg.q /\ prun' = reg.p /\ nonprun' = reg.np
  /\ view' = ViewOf(reg.np, reg.p)
  /\ senders' = [s1 EXCEPT ![tx] = SelectSeq(upd, LAMBDA e : ~SIsClosed(e.st))]
  /\ chans' = [id \in 1..Len(chans) |->
                 IF Sent(id) = {} THEN chans[id]
                 ELSE Append(chans[id], rs[CHOOSE i \in Sent(id) : TRUE].sent)]
  /\ UNCHANGED <<clock, rx>>
  /\ GhostPublish(tx, s, clock)
  /\ act' = [name |-> "Publish", tx |-> tx, k |-> k]

\* TxStatusManager::tx_update_subscribe -> UpdateSender::try_subscribe
Subscribe(tx) ==
  LET s1 == RemoveClosedExpired(senders, clock)
      ok == InUse(s1) < Cap
      id == Len(rx) + 1 IN
  /\ senders' = IF ok THEN [s1 EXCEPT ![tx] = Append(@, [id |-> id, st |-> SEmpty, created |-> clock])] ELSE s1
  /\ rx' = IF ok THEN Append(rx, "open") ELSE rx
  /\ chans' = IF ok THEN Append(chans, <<>>) ELSE chans
  /\ UNCHANGED <<clock, nonprun, prun, queue, view>>
  /\ GhostSubscribe(tx, ok, clock)
  /\ act' = [name |-> "Subscribe", tx |-> tx, res |-> IF ok THEN "ok" ELSE "full"]

\* one poll of the subscriber's stream (ReceiverStream over the mpsc receiver)
ReadOut(sub) ==
  IF sub \notin 1..Len(rx) \/ rx[sub] # "open" THEN Stat("NoSub", 0)
  ELSE IF chans[sub] # <<>> THEN Head(chans[sub])
  ELSE IF SenderExists(senders, sub) THEN Stat("Pending", 0)
  ELSE Stat("End", 0)

Read(sub) ==
  LET out == ReadOut(sub) IN
  /\ chans' = IF out.k \in {"NoSub", "Pending", "End"} THEN chans ELSE [chans EXCEPT ![sub] = Tail(@)]
  /\ UNCHANGED <<clock, nonprun, prun, queue, senders, rx, view>>
  /\ GhostRead(sub, out)
  /\ act' = [name |-> "Read", sub |-> sub, res |-> out]

DropSub(sub) ==
  /\ sub \in 1..Len(rx) /\ rx[sub] = "open"
  /\ rx' = [rx EXCEPT ![sub] = "dropped"]
  /\ chans' = [chans EXCEPT ![sub] = <<>>]
  /\ UNCHANGED <<clock, nonprun, prun, queue, senders, view>>
  /\ GhostDrop(sub)
  /\ act' = [name |-> "DropSub", sub |-> sub]

Tick(d) ==
  /\ clock' = clock + d
  /\ UNCHANGED <<nonprun, prun, queue, senders, chans, rx, view>>
  /\ GhostQuiet
  /\ act' = [name |-> "Tick", d |-> d]

TotalPub == LET RECURSIVE Sum(_)
                Sum(S) == IF S = {} THEN 0 ELSE LET x == CHOOSE y \in S : TRUE IN Len(published[x]) + Sum(S \ {x})
            IN Sum(Txs)

Next ==
  \/ \E tx \in Txs, k \in Kinds : TotalPub < MaxPub /\ Publish(tx, k)
  \/ \E tx \in Txs : Len(rx) < MaxSubs /\ Subscribe(tx)
  \/ \E sub \in 1..Len(rx) : rx[sub] = "open" /\ Read(sub)
  \/ \E sub \in 1..Len(rx) : DropSub(sub)
  \/ \E d \in Ticks : clock + d <= MaxClock /\ Tick(d)

Spec == Init /\ [][Next]_<<vars, act>>

(* ------------------------------------------------------------------------ *)
(* C23 — the status cache                                                     *)

\* a returned status is the most recently published one
StatusIsLatest == \A x \in Txs : view[x] # NoMsg => (published[x] # <<>> /\ view[x] = Last(published[x]))
\* a status is forgotten only if it is not a submitted one and at least CacheTtl has passed since it
\* was published (so: submitted is kept until replaced, others are returned for at least the TTL)
ForgottenOnlyAfterTtl ==
  \A x \in Txs : (view[x] = NoMsg /\ published[x] # <<>>) =>
      (Last(published[x]).k # "Sub" /\ clock - pubTime[x] >= CacheTtl)

(* C22 — subscriptions                                                         *)

\* the statuses a subscriber read are, in publication order and without duplicates, statuses
\* published for its transaction after it subscribed (statuses of a tx are numbered by publication)
InOrderNoDup ==
  \A i \in 1..Len(sg) :
    LET D == SelectStatus(sg[i].delivered)
        P == published[sg[i].tx] IN
    \A j \in 1..Len(D) :
      /\ D[j].n > sg[i].at /\ D[j].n <= Len(P) /\ P[D[j].n] = D[j]
      /\ j > 1 => D[j].n > D[j - 1].n
\* nothing after the first final message
NothingAfterFinal ==
  \A i \in 1..Len(sg) : \A j \in 1..Len(sg[i].delivered) :
    IsFinalMsg(sg[i].delivered[j]) => j = Len(sg[i].delivered)
\* nothing after the stream ended
NothingAfterEnd == \A i \in 1..Len(sg) : sg[i].endLen # -1 => Len(sg[i].delivered) = sg[i].endLen
\* a subscriber that drained its stream before each publication (and has drained it now) got every
\* status it was entitled to, up to and including the first final one, and then its stream ended
DrainedSubscriberGetsEverythingUpToFirstFinal ==
  \A i \in 1..Len(sg) :
    (sg[i].drained /\ sg[i].caughtUp /\ ~sg[i].dropped) =>
      /\ SelectStatus(sg[i].delivered) = sg[i].due
      /\ HasFinal(sg[i].due) => sg[i].endLen # -1

(* sanity of the transcription (not part of the properties) *)
TypeOK ==
  /\ Len(chans) = Len(rx) /\ Len(sg) = Len(rx)
  /\ \A i \in 1..Len(chans) : Len(chans[i]) <= Buf
  /\ InUse(senders) <= Cap
  /\ \A x \in Txs : \A i \in 1..Len(senders[x]) : senders[x][i].st.s \in {"Empty", "Failed"}

\* projections compared with the implementation in strict mode
SizesView == [q |-> Len(queue),
              p |-> Cardinality({x \in Txs : prun[x].st # NoMsg}),
              np |-> Cardinality({x \in Txs : nonprun[x] # NoMsg})]
SndView == [x \in Txs |-> [i \in 1..Len(senders[x]) |->
              [s |-> senders[x][i].st.s, h |-> Len(senders[x][i].st.h), c |-> senders[x][i].created]]]
KeysView == Cardinality({x \in Txs : senders[x] # <<>>})
=============================================================================
