SPECIFICATION TSpec
CONSTANT MaxKey = 5
CONSTANT MaxSize = 6
INVARIANT PageLen
INVARIANT FlagsExact
INVARIANT EveryEntryOnceInOrder
INVARIANT ErrorsOnlyForBadArgs
POSTCONDITION TraceAccepted
CHECK_DEADLOCK FALSE
