SPECIFICATION TSpec
CONSTANT MaxKey = 5
CONSTANT MaxSize = 6
INVARIANT EveryEntryOnceInOrder
INVARIANT PageLen
INVARIANT FlagsExact
INVARIANT ErrorsOnlyForBadArgs
INVARIANT RejectsRefused
POSTCONDITION TraceAccepted
CHECK_DEADLOCK FALSE
