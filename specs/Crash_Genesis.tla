---------------------------- MODULE Crash_Genesis ----------------------------
(* Crash-point enumeration for C40 (and model checking of Genesis for the real table set).         *)
(* The worlds (sizes of the 20 snapshot tables of generated source states, with an encoding and a    *)
(* group size each) are read from the file IOEnv.WORLDS; all 26 workers of run_workers are in the   *)
(* model.  The workers are scheduled as run_workers does for tables with fewer than 10 groups: one   *)
(* after the other in the fixed order, the run ending at the first failure.  TLC explores every      *)
(* interruption (Fail at every point of every group of every table, Cancel after every hook point,  *)
(* loss of the result) followed by the resumed import, checks the invariants and prints every        *)
(* interruption once: those are the crash points the harness injects into the real import.          *)
EXTENDS Genesis, Json, IOUtils

FileWorlds == ndJsonDeserialize(IOEnv.WORLDS)
AllMigs == DOMAIN MigInfo
NoWorlds == <<>>

VARIABLE wsel      \* index of the exported world
cvars == <<vars, wsel>>

\* the order in which SnapshotImporter::run_workers starts the workers
Order == << "Coins -> Coins", "Messages -> Messages", "Blobs -> Blobs",
            "ContractsRawCode -> ContractsRawCode", "ContractsLatestUtxo -> ContractsLatestUtxo",
            "ContractsState -> ContractsState", "ContractsAssets -> ContractsAssets",
            "ProcessedTransactions -> ProcessedTransactions", "FuelBlockMerkleData -> FuelBlockMerkleData",
            "FuelBlockMerkleMetadata -> FuelBlockMerkleMetadata",
            "TransactionStatus -> TransactionStatus", "TransactionsByOwnerBlockIdx -> TransactionsByOwnerBlockIdx",
            "SpentMessages -> SpentMessages", "Messages -> OwnedMessageIds", "Coins -> OwnedCoins",
            "FuelBlocks -> OldFuelBlocks", "Transactions -> OldTransactions",
            "FuelBlockConsensus -> OldFuelBlockConsensus", "ContractsInfo -> ContractsInfo",
            "Transactions -> ContractsInfo", "OldTransactions -> ContractsInfo", "OldFuelBlocks -> OldFuelBlocks",
            "OldFuelBlockConsensus -> OldFuelBlockConsensus", "OldTransactions -> OldTransactions",
            "FuelBlocks -> FuelBlockIdsToHeights", "OldFuelBlocks -> FuelBlockIdsToHeights" >>
IdxF == [m \in AllMigs |-> CHOOSE k \in 1..Len(Order) : Order[k] = m]
Idx(m) == IdxF[m]
Done(m) == ws[m] = "none" \/ (Idle(m) /\ pos[m] >= NG(m))

CInit == Init /\ wsel = 0
ExportFile(w) ==
  /\ ExportW(FileWorlds[w].n, FileWorlds[w].h, FileWorlds[w].enc, FileWorlds[w].g)
  /\ wsel' = w
  /\ act' = [name |-> "Export", w |-> w]
\* Next of Genesis with the sequential scheduling of run_workers (task_manager.run for tables with fewer
\* than 10 groups) as guards: a worker starts when all earlier ones returned Ok, the run ends at the first
\* failure, and a cancelled run ends as soon as no group is in flight.
CNext ==
  \/ \E w \in DOMAIN FileWorlds : ExportFile(w)
  \/ /\ UNCHANGED wsel
     /\ \/ Begin
        \/ /\ ~SomeFailed
           /\ \/ \E m \in Migs : ws[m] = "new" /\ (\A m2 \in Migs : Idx(m2) < Idx(m) => Done(m2)) /\ Task(m)
              \/ \E m \in Migs : Start(m) \/ Commit(m)
              \/ (crashes < MaxCrashes /\ \E m \in Migs, pt \in Points : Fail(m, pt))
              \/ (crashes < MaxCrashes /\ Cancel)
        \/ End("Ok")
        \/ End("Err:failed")
        \/ ((\A m \in Migs : ws[m] # "ingroup") /\ End("Err:cancelled"))
        \/ CommitBlock
        \/ ClearOffChain
        \/ (WithDrop /\ crashes < MaxCrashes /\ DropResult)
CSpec == CInit /\ [][CNext]_<<cvars, act>>

ActiveSet == {m \in Migs : ws[m] \in {"tasked", "ingroup", "committed"}}
Active == CHOOSE m \in ActiveSet : \A m2 \in ActiveSet : Idx(m2) <= Idx(m)
\* the hook point at which the harness flips the watcher so that the flag turns here
CancelPoint ==
  IF ActiveSet = {} THEN [m |-> "", i |-> -1, pt |-> "begin"]
  ELSE LET m == Active IN
       CASE ws[m] = "tasked" -> [m |-> m, i |-> pos[m], pt |-> "task_start"]
         [] ws[m] = "ingroup" -> [m |-> m, i |-> pos[m], pt |-> "group_start"]
         [] OTHER -> [m |-> m, i |-> pos[m] - 1, pt |-> "after_commit"]

EmitCrash ==
  CASE act'.name = "Fail" ->
            PrintT(<<"CRASH", ToJson([w |-> wsel, kind |-> "fail", m |-> act'.m, i |-> act'.i, pt |-> act'.pt,
                                      nth |-> crashes])>>)
       [] act'.name = "Cancel" ->
            PrintT(<<"CRASH", ToJson([w |-> wsel, kind |-> "cancel", m |-> CancelPoint.m, i |-> CancelPoint.i,
                                      pt |-> CancelPoint.pt, nth |-> crashes])>>)
       [] act'.name = "DropResult" ->
            PrintT(<<"CRASH", ToJson([w |-> wsel, kind |-> "drop", m |-> "", i |-> -1, pt |-> "result", nth |-> crashes])>>)
       [] OTHER -> TRUE
View == cvars
=============================================================================
