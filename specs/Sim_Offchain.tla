---------------------------- MODULE Sim_Offchain ----------------------------
(* Simulation instance: carries the action history so that `tlc -simulate` behaviours can be *)
(* replayed on the real off-chain indexation (vlib.sim_walks).                                *)
EXTENDS MC_Offchain, Sequences
VARIABLE hist
SimInit == Init /\ hist = <<>>
SimNext == Next /\ hist' = Append(hist, act')
SimSpec == SimInit /\ [][SimNext]_<<vars, act, hist>>
EmitWalk == PrintT(<<"WALK", ToJson(hist)>>)
=============================================================================
