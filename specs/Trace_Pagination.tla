---------------------------- MODULE Trace_Pagination ----------------------------
(* Trace validation of the real query_pagination (hook fuel_core::schema::verif) against Pagination.  *)
(* STRICT=1: every logged answer must equal `PageOf` and the session must move as the spec says.       *)
(* STRICT=0: `last` is bound to the logged answer, the session ghost follows the logged pages;         *)
(* only the invariants judge.                                                                          *)
EXTENDS Pagination, Json, IOUtils

Rec == ndJsonDeserialize(IOEnv.TRACE)
Strict == IOEnv.STRICT = "1"

VARIABLE l
tvars == <<vars, act, l>>

IsEv(e) == l <= Len(Rec) /\ Rec[l].ev = e /\ l' = l + 1
TInit == Init /\ l = 1
TReset == /\ IsEv("reset")
          /\ born' = FALSE /\ coll' = {} /\ sess' = Idle /\ last' = NoPage /\ act' = [name |-> "reset"]

\* the logged answer as a page record
Logged(r) == [kind |-> r.res.kind, why |-> r.res.why, edges |-> r.res.edges, hp |-> r.res.hp, hn |-> r.res.hn,
              size |-> r.res.size]

TNew == /\ IsEv("New")
        /\ LET r == Rec[l] IN
             IF Strict THEN New(r.m) /\ coll' = {r.coll[i] : i \in 1..Len(r.coll)}
             ELSE /\ born' = TRUE /\ coll' = {r.coll[i] : i \in 1..Len(r.coll)} /\ sess' = Idle /\ last' = NoPage
                  /\ act' = [name |-> "New", m |-> r.m]

TStart == /\ IsEv("Start")
          /\ LET r == Rec[l] IN
               IF Strict THEN Start(r.d, r.c, r.n) /\ last' = Logged(r)
               ELSE /\ last' = Logged(r) /\ GhostStart(r.d, r.c, Logged(r))
                    /\ UNCHANGED <<born, coll>> /\ act' = [name |-> "Start", d |-> r.d, c |-> r.c, n |-> r.n]

TFollow == /\ IsEv("Follow")
           /\ LET r == Rec[l] IN
                IF Strict THEN Follow(r.n) /\ r.cur = sess.cur /\ last' = Logged(r)
                ELSE /\ last' = Logged(r) /\ GhostFollow(Logged(r))
                     /\ UNCHANGED <<born, coll>> /\ act' = [name |-> "Follow", n |-> r.n]

TEnd == /\ IsEv("End")
        /\ IF Strict THEN End
           ELSE sess' = Idle /\ last' = NoPage /\ UNCHANGED <<born, coll>> /\ act' = [name |-> "End"]

TReject == /\ IsEv("Reject")
           /\ LET r == Rec[l] IN
                IF Strict THEN Reject(r.why) /\ last'.kind = r.res.kind
                ELSE /\ last' = [Logged(r) EXCEPT !.why = IF r.res.kind = "err" THEN r.why ELSE ""]
                     /\ UNCHANGED <<born, coll, sess>> /\ act' = [name |-> "Reject", why |-> r.why]

TNext == TReset \/ TNew \/ TStart \/ TFollow \/ TEnd \/ TReject
TSpec == TInit /\ [][TNext]_tvars

\* a refused combination must be refused (Reject events only)
RejectsRefused == (act.name = "Reject") => last.kind = "err"

TraceAccepted ==
  LET d == TLCGet("stats").diameter IN
  IF d - 1 = Len(Rec) THEN PrintT(<<"TRACE-ACCEPTED", Len(Rec)>>)
  ELSE PrintT(<<"TRACE-REJECTED", d>>) /\ PrintT(Rec[d])
=============================================================================
