SPECIFICATION MCSpec
CONSTANT Coins = {1, 2}
CONSTANT MaxBlocks = 2
CONSTANT Full = FALSE
CONSTRAINT OneMemo
VIEW View
INVARIANT ChainConsistent
PROPERTY ReadOnlyFrame
PROPERTY Repeatable
CHECK_DEADLOCK FALSE
