SPECIFICATION Spec
CONSTANT CellSet <- CellsTwoCol
CONSTANT NVals = 1
CONSTANT MaxDepth = 1
CONSTANT MaxDet = 1
CONSTANT Pols = {"F"}
CONSTANT Offs = {}
CONSTANT Lens = {}
CONSTANT Reads = FALSE
VIEW View
ACTION_CONSTRAINT EmitEdge
CHECK_DEADLOCK FALSE
