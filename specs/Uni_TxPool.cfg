CONSTANTS
  MaxTxs = 3
  MaxGas = 8
  MaxSize = 9
  ChainLimit = 3
  PendingPct = 67
  MaxHeight = 2
INIT Init
NEXT UNext
CHECK_DEADLOCK FALSE
