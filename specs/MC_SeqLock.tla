---------------------------- MODULE MC_SeqLock ----------------------------
EXTENDS SeqLock, Json
View == vars
EmitEdge == PrintT(<<"EDGE", ToJson([src |-> StateRec, act |-> act', dst |-> StateRec'])>>)
=============================================================================
