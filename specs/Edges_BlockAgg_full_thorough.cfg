SPECIFICATION Spec
CONSTANT MaxH = 0
CONSTANT ShapeMode = "full"
CONSTANT Shapes <- MCShapes
CONSTANT OneShot = TRUE
VIEW View
ACTION_CONSTRAINT EmitEdge
CHECK_DEADLOCK FALSE
