SPECIFICATION Spec
CONSTANT NO = 2
CONSTANT NA = 2
CONSTANT NC = 3
CONSTANT NM = 2
CONSTANT Amts = {1, 2}
VIEW View
INVARIANT IndexesEqualUnspent
CHECK_DEADLOCK FALSE
