SPECIFICATION TSpec
INVARIANT PhaseOk
INVARIANT ValidateAccepts
INVARIANT BlockAsSpec
INVARIANT CommitIsProduced
INVARIANT SpentExisted
INVARIANT SpentOnce
INVARIANT CreatedFresh
INVARIANT EventsAreDiff
INVARIANT CoinsAsSpec
INVARIANT EventsAsSpec
INVARIANT MintRules
INVARIANT Limits
INVARIANT AskedWhatIsLeft
INVARIANT MintTamperedRejected
INVARIANT RevertFrame
INVARIANT SkipFrame
INVARIANT DaExact
INVARIANT ImportedInOrder
INVARIANT MessageImportedOnce
INVARIANT ForcedExecutedOrFailed
INVARIANT InboxRoot
INVARIANT MessagesLand
INVARIANT ExecutedOnce
INVARIANT ProcessedRecorded
INVARIANT DupRejected
POSTCONDITION TraceAccepted
CHECK_DEADLOCK FALSE
