SPECIFICATION Spec
CONSTANT Prevs = {0, 2}
CONSTANT MaxN = 3
CONSTANT Costs = {0, 1, 2, 3}
CONSTANT Txs = {0, 1, 2}
CONSTANT GasLimits = {2, 4}
CONSTANT TxLimits = {2, 3}
INVARIANT LargestFittingPrefix
INVARIANT WithinRange
CHECK_DEADLOCK FALSE
