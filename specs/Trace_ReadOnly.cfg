SPECIFICATION TSpec
CONSTANT Coins = {1, 2, 3}
CONSTANT MaxBlocks = 100
PROPERTY ReadOnlyFrame
PROPERTY Repeatable
POSTCONDITION TraceAccepted
CHECK_DEADLOCK FALSE
