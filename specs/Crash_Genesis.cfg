SPECIFICATION CSpec
CONSTANTS
  Migs <- AllMigs
  Worlds <- NoWorlds
  GroupSizes = {}
  Encodings = {}
  MaxCrashes = 1
  WithDrop = TRUE
  ClearOffEarly = FALSE
VIEW View
ACTION_CONSTRAINT EmitCrash
INVARIANT ImportedEqualsExportedCarried
INVARIANT FinalEqualsUninterrupted
INVARIANT EachGroupOnce
CHECK_DEADLOCK FALSE
