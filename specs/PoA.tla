------------------------------- MODULE PoA -------------------------------
(* C24 - the PoA block production task (crates/services/consensus_module/poa/src/service.rs, sync.rs).  *)
(*                                                                                                       *)
(* Three processes, transcribed from the code:                                                           *)
(*   * MainTask  - a program-counter machine with ONE ACTION PER PORT CALL of MainTask::run /            *)
(*                 try_to_produce_block / produce_block / produce_manual_blocks (the call, its result    *)
(*                 and everything the task computes until just before its next port call);               *)
(*   * SyncTask  - one action per branch of SyncTask::run (peer count, imported block, timer tick);      *)
(*   * the environment (what the harness scripts): tokio clock, GetTime skew, the importer's database    *)
(*     and block stream, one-shot producer/signer/importer failures, the next leader_state result,       *)
(*     manual production requests, tx notifications.                                                     *)
(* Time: `now` counts ticks of the paused tokio clock (TPS ticks per second); Tai64 values are seconds.  *)
(* The GetTime port is  T0 + lag + now \div TPS + skew.                                                  *)
(* Ghost variables (prefix g) carry what the property talks about: the heights / timestamps the task was told  *)
(* and the last request it made through its ports.                                                       *)
(* History: on the tree before /repo 7f7d2f072b `update_last_block_values` ignored a sync header that    *)
(* was not higher than last_height; TLC found ReqTimeMonotone violated (last_height taken from the       *)
(* database, stale last_timestamp) and the real service reproduced it.  LoopStart transcribes the fix.   *)
EXTENDS Integers, Sequences, FiniteSets, TLC

CONSTANTS Configs,        \* set of [trig, bt, tus, minPeers, lag]: trigger kind, block time / period (s),
                          \* time_until_synced (ticks, 0 = none), min_connected_reserved_peers, clock lag (s)
          TPS,            \* ticks per second
          H0, T0,         \* height / timestamp of the last block the service is constructed with
          Advs,           \* clock advances (ticks)
          Skews,          \* GetTime offsets (s)
          ImportDts,      \* timestamp increments of network blocks (s)
          ManualStarts,   \* start_time of manual requests (-1 = None)
          ManualNs,       \* number_of_blocks of manual requests
          FailKinds,      \* subset of {"produce","seal","commit","import","signer"}
          Leaders,        \* scripted results of the next leader_state call
          PeerCounts

VARIABLES cfg, now, skew, dbH, dbT, blockQ, peersQ, fails, leader, txDirty,          \* environment
          sk, sh, st, sp, timer, pub, dirty, wm,                                      \* SyncTask (+ watch channel, watermark)
          pc, lastH, lastT, lastC, trigAt, mode, left, curH, curT, curDl, curC,       \* MainTask
          recon, wakeAt, reqQ, respQ,
          gKnown, gToldT, gReq, gSealed, gProdAt, gCurAt, gTrig,                       \* ghosts
          act

envVars  == <<cfg, now, skew, dbH, dbT, blockQ, peersQ, fails, leader, txDirty>>
syncVars == <<sk, sh, st, sp, timer, pub, dirty, wm>>
taskVars == <<pc, lastH, lastT, lastC, trigAt, mode, left, curH, curT, curDl, curC, recon, wakeAt, reqQ, respQ>>
ghostVars == <<gKnown, gToldT, gReq, gSealed, gProdAt, gCurAt, gTrig>>
vars == <<envVars, syncVars, taskVars, ghostVars>>

Max(a, b) == IF a >= b THEN a ELSE b
NoInst == -1000000                      \* "no instant"
Big    == 1000000
NoCfg  == [trig |-> "none", bt |-> 0, tus |-> 0, minPeers |-> 0, lag |-> 0]
PubN   == [k |-> "N", h |-> 0, t |-> 0]
PubS(h, t) == [k |-> "S", h |-> h, t |-> t]
LeaderL == [k |-> "L", off |-> 0, cnt |-> 0, dt |-> 0]
NoReq  == [k |-> "none", h |-> 0, t |-> 0, known |-> 0, told |-> 0, sealed |-> TRUE, gap |-> Big]
Born   == cfg.trig # "none"

ClockOf(c, n, s) == T0 + c.lag + (n \div TPS) + s
Clock == ClockOf(cfg, now, skew)                              \* GetTime::now()
\* MainTask::extract_block_info: Instant::now() - (clock.now() saturating_sub time)
CreatedFor(t) == now - TPS * Max(Clock - t, 0)
BtTicks == cfg.bt * TPS
\* MainTask::error_retry_delay
RetryTicks == IF cfg.trig \in {"Interval", "Open"} THEN BtTicks ELSE TPS

(* ---- MainTask::next_time ------------------------------------------------------------------------*)
NextTimeManual(lt, lc) ==
  IF cfg.trig \in {"Never", "Instant"} THEN lt + (Max(now - lc, 0) \div TPS)     \* last_block_created.elapsed()
  ELSE lt + cfg.bt
NextTimeTrigger ==
  IF cfg.trig = "Open"
  THEN (IF Clock > lastT + cfg.bt THEN Clock ELSE lastT + cfg.bt)
  ELSE (IF Clock > lastT THEN Clock ELSE NextTimeManual(lastT, lastC))

Init ==
  /\ cfg = NoCfg /\ now = 0 /\ skew = 0 /\ dbH = H0 /\ dbT = T0 /\ blockQ = <<>> /\ peersQ = <<>>
  /\ fails = {} /\ leader = LeaderL /\ txDirty = FALSE
  /\ sk = "I" /\ sh = H0 /\ st = T0 /\ sp = TRUE /\ timer = -1 /\ pub = PubN /\ dirty = FALSE /\ wm = 0
  /\ pc = "Unborn" /\ lastH = H0 /\ lastT = T0 /\ lastC = 0 /\ trigAt = 0 /\ mode = "none" /\ left = 0
  /\ curH = 0 /\ curT = 0 /\ curDl = 0 /\ curC = 0 /\ recon = <<>> /\ wakeAt = 0 /\ reqQ = <<>> /\ respQ = <<>>
  /\ gKnown = H0 /\ gToldT = T0 /\ gReq = NoReq /\ gSealed = <<0, 0>> /\ gProdAt = NoInst /\ gCurAt = NoInst
  /\ gTrig = FALSE
  /\ act = [name |-> "Init"]

(* ================================ ghost updates (shared with the trace spec) ====================== *)
\* the task is told that block (h, t) exists (sync header, reconciled block, its own committed block)
GhostTold(h, t, own, at) ==
  /\ gKnown' = Max(gKnown, h)
  /\ gToldT' = Max(gToldT, t)
  /\ gProdAt' = IF own THEN at ELSE IF h > gKnown THEN NoInst ELSE gProdAt
\* the task is told a height only (latest_block_height)
GhostToldH(h) ==
  /\ gKnown' = Max(gKnown, h) /\ gToldT' = gToldT
  /\ gProdAt' = IF h > gKnown THEN NoInst ELSE gProdAt
\* a port call that reveals the height the task works on (and, for produce/commit, the timestamp)
ReqRec(k, h, t, known, told, sealedOk, gap) ==
  [k |-> k, h |-> h, t |-> t, known |-> known, told |-> told, sealed |-> sealedOk, gap |-> gap]
GhostLoopStart(h) ==                         \* ensure_synced read `pub`, then predefined_blocks.get_block(h)
  /\ IF pub.k = "S" THEN GhostTold(pub.h, pub.t, FALSE, NoInst)
     ELSE UNCHANGED <<gKnown, gToldT, gProdAt>>
  /\ gReq' = ReqRec("predef", h, gToldT', gKnown', gToldT', TRUE, Big)
  /\ gTrig' = FALSE
  /\ UNCHANGED <<gSealed, gCurAt>>
GhostDbHeight(h) ==
  /\ GhostToldH(h) /\ UNCHANGED <<gReq, gSealed, gCurAt, gTrig>>
GhostLeader(h, res) ==
  /\ gReq' = ReqRec("leader", h, gToldT, gKnown, gToldT, TRUE, Big)
  /\ gTrig' = (res = "L")
  /\ UNCHANGED <<gKnown, gToldT, gProdAt, gSealed, gCurAt>>
GhostProduce(h, t) ==
  /\ gReq' = ReqRec("produce", h, t, gKnown, gToldT, TRUE,
                    IF gTrig /\ gProdAt # NoInst THEN now - gProdAt ELSE Big)
  /\ gCurAt' = now
  /\ gSealed' = <<0, 0>>
  /\ UNCHANGED <<gKnown, gToldT, gProdAt, gTrig>>
GhostSeal(h, t, ok) ==
  /\ gSealed' = IF ok THEN <<h, t>> ELSE gSealed
  /\ UNCHANGED <<gKnown, gToldT, gReq, gProdAt, gCurAt, gTrig>>
GhostCommit(h, t, sealedFlag, ok) ==
  /\ gReq' = ReqRec("commit", h, t, gKnown, gToldT, sealedFlag /\ gSealed = <<h, t>>, Big)
  /\ IF ok THEN GhostTold(h, t, TRUE, gCurAt) ELSE UNCHANGED <<gKnown, gToldT, gProdAt>>
  /\ UNCHANGED <<gSealed, gCurAt, gTrig>>
GhostExecCommit(h, t, ok) ==
  /\ IF ok THEN GhostTold(h, t, FALSE, NoInst) ELSE UNCHANGED <<gKnown, gToldT, gProdAt>>
  /\ UNCHANGED <<gReq, gSealed, gCurAt, gTrig>>

(* ================================ environment ====================================================== *)
\* mock importer: the database accepts only the next height with a non-decreasing timestamp
DbAccepts(h, t) == h = dbH + 1 /\ t >= dbT

\* SyncTask::new and the environment part of the construction
NewEnvSync(c) ==
  /\ ~Born
  /\ cfg' = c
  /\ sk' = IF c.minPeers = 0 /\ c.tus = 0 THEN "Y" ELSE IF c.minPeers = 0 THEN "S" ELSE "I"
  /\ sh' = H0 /\ st' = T0 /\ sp' = TRUE
  /\ timer' = IF c.tus = 0 THEN -1 ELSE now            \* tokio interval: first tick immediately
  /\ pub' = IF c.minPeers = 0 /\ c.tus = 0 THEN PubS(H0, T0) ELSE PubN
  /\ dirty' = FALSE /\ wm' = 0
  /\ UNCHANGED <<now, skew, dbH, dbT, blockQ, peersQ, fails, leader, txDirty>>
  /\ UNCHANGED ghostVars
  /\ act' = [name |-> "New", c |-> c]
\* MainTask::new (extract_block_info) and into_task (Interval/Open restart the block timer)
NewTask(c) ==
  /\ pc = "Unborn"
  /\ lastH' = H0 /\ lastT' = T0
  /\ lastC' = IF c.trig \in {"Interval", "Open"} THEN now
              ELSE now - TPS * Max(ClockOf(c, now, skew) - T0, 0)
  /\ pc' = "Sleep" /\ wakeAt' = now                    \* first run() after the sync task has started
  /\ UNCHANGED <<trigAt, mode, left, curH, curT, curDl, curC, recon, reqQ, respQ>>
New(c) == NewEnvSync(c) /\ NewTask(c)

Advance(d) ==
  /\ Born /\ now' = now + d
  /\ UNCHANGED <<cfg, skew, dbH, dbT, blockQ, peersQ, fails, leader, txDirty>>
  /\ UNCHANGED <<syncVars, taskVars, ghostVars>>
  /\ act' = [name |-> "Advance", d |-> d]
Skew(s) ==
  /\ Born /\ skew' = s
  /\ UNCHANGED <<cfg, now, dbH, dbT, blockQ, peersQ, fails, leader, txDirty>>
  /\ UNCHANGED <<syncVars, taskVars, ghostVars>>
  /\ act' = [name |-> "Skew", s |-> s]
\* a block arrives from the network (p2p sync): committed to the database and broadcast
NetImport(dt) ==
  /\ Born
  /\ dbH' = dbH + 1 /\ dbT' = dbT + dt
  /\ blockQ' = Append(blockQ, [h |-> dbH + 1, t |-> dbT + dt, src |-> "net"])
  /\ UNCHANGED <<cfg, now, skew, peersQ, fails, leader, txDirty>>
  /\ UNCHANGED <<syncVars, taskVars, ghostVars>>
  /\ act' = [name |-> "NetImport", dt |-> dt]
Peers(n) ==
  /\ Born /\ peersQ' = Append(peersQ, n)
  /\ UNCHANGED <<cfg, now, skew, dbH, dbT, blockQ, fails, leader, txDirty>>
  /\ UNCHANGED <<syncVars, taskVars, ghostVars>>
  /\ act' = [name |-> "Peers", n |-> n]
Fail(k) ==
  /\ Born /\ fails' = fails \cup {k}
  /\ UNCHANGED <<cfg, now, skew, dbH, dbT, blockQ, peersQ, leader, txDirty>>
  /\ UNCHANGED <<syncVars, taskVars, ghostVars>>
  /\ act' = [name |-> "Fail", k |-> k]
SetLeader(ld) ==
  /\ Born /\ leader' = ld
  /\ UNCHANGED <<cfg, now, skew, dbH, dbT, blockQ, peersQ, fails, txDirty>>
  /\ UNCHANGED <<syncVars, taskVars, ghostVars>>
  /\ act' = [name |-> "SetLeader", k |-> ld.k, off |-> ld.off, cnt |-> ld.cnt, dt |-> ld.dt]
Manual(start, n) ==
  /\ Born /\ reqQ' = Append(reqQ, [start |-> start, n |-> n])
  /\ UNCHANGED <<envVars, syncVars, ghostVars>>
  /\ UNCHANGED <<pc, lastH, lastT, lastC, trigAt, mode, left, curH, curT, curDl, curC, recon, wakeAt, respQ>>
  /\ act' = [name |-> "Manual", start |-> start, n |-> n]
NewTx ==
  /\ Born /\ txDirty' = TRUE
  /\ UNCHANGED <<cfg, now, skew, dbH, dbT, blockQ, peersQ, fails, leader>>
  /\ UNCHANGED <<syncVars, taskVars, ghostVars>>
  /\ act' = [name |-> "NewTx"]
\* the caller of manually_produce_block receives the answer
ManualDone ==
  /\ respQ # <<>> /\ respQ' = Tail(respQ)
  /\ UNCHANGED <<envVars, syncVars, ghostVars>>
  /\ UNCHANGED <<pc, lastH, lastT, lastC, trigAt, mode, left, curH, curT, curDl, curC, recon, wakeAt, reqQ>>
  /\ act' = [name |-> "ManualDone", res |-> Head(respQ)]

(* ================================ SyncTask::run ==================================================== *)
Publish(p) == pub' = p /\ dirty' = (dirty \/ p # pub)            \* watch::Sender::send_if_modified
Restart == IF timer = -1 THEN -1 ELSE now + cfg.tus               \* restart_timer
SyncPeers ==
  /\ Born /\ peersQ # <<>>
  /\ LET suff == Head(peersQ) >= cfg.minPeers IN
       /\ peersQ' = Tail(peersQ)
       /\ sk' = IF sk = "I" /\ suff THEN "S" ELSE IF sk = "S" /\ ~suff THEN "I" ELSE sk
       /\ timer' = IF (sk = "I" /\ suff) \/ (sk = "S" /\ ~suff) THEN Restart ELSE timer
       /\ sp' = IF sk = "Y" THEN suff ELSE sp
  /\ UNCHANGED <<sh, st, pub, dirty, wm>>
  /\ UNCHANGED <<cfg, now, skew, dbH, dbT, blockQ, fails, leader, txDirty>>
  /\ UNCHANGED <<taskVars, ghostVars>>
  /\ act' = [name |-> "SyncPeers", n |-> Head(peersQ)]
SyncBlock ==
  /\ Born /\ peersQ = <<>> /\ blockQ # <<>>
  /\ LET b == Head(blockQ) IN
       /\ blockQ' = Tail(blockQ)
       /\ IF b.h <= sh THEN UNCHANGED <<sk, sh, st, sp, timer, pub, dirty>>
          ELSE /\ sh' = b.h /\ st' = b.t /\ sp' = sp
               /\ IF sk = "Y"
                  THEN IF b.src = "local" \/ (wm > 0 /\ b.h <= wm)
                       THEN sk' = sk /\ timer' = timer /\ Publish(PubS(b.h, b.t))
                       ELSE /\ sk' = IF sp THEN "S" ELSE "I"
                            /\ timer' = IF sp THEN Restart ELSE timer
                            /\ Publish(PubN)
                  ELSE /\ sk' = sk /\ timer' = IF sk = "S" THEN Restart ELSE timer
                       /\ UNCHANGED <<pub, dirty>>
       /\ act' = [name |-> "SyncBlock", h |-> b.h, t |-> b.t, src |-> b.src]
  /\ UNCHANGED wm
  /\ UNCHANGED <<cfg, now, skew, dbH, dbT, peersQ, fails, leader, txDirty>>
  /\ UNCHANGED <<taskVars, ghostVars>>
TimerDue == timer >= 0 /\ now >= timer
SyncTick ==
  /\ Born /\ peersQ = <<>> /\ blockQ = <<>> /\ TimerDue
  /\ timer' = now + cfg.tus - ((now - timer) % cfg.tus)           \* MissedTickBehavior::Skip
  /\ IF sk = "S" THEN sk' = "Y" /\ sp' = TRUE /\ Publish(PubS(sh, st))
     ELSE UNCHANGED <<sk, sp, pub, dirty>>
  /\ UNCHANGED <<sh, st, wm>>
  /\ UNCHANGED <<envVars, taskVars, ghostVars>>
  /\ act' = [name |-> "SyncTick"]

(* ================================ MainTask ========================================================= *)
\* end of one run(): the next run() starts at once with ensure_synced's first borrow_and_update
GoTop == pc' = (IF pub.k = "N" THEN "WaitSync" ELSE "Sync") /\ dirty' = FALSE
Pending(r, H) == SelectSeq(r, LAMBDA b : b.h > H)

\* a sleep ends while the node is not synced: ensure_synced starts waiting (no port call)
SleepToWait ==
  /\ pc = "Sleep" /\ now >= wakeAt /\ pub.k = "N"
  /\ pc' = "WaitSync" /\ dirty' = FALSE
  /\ UNCHANGED <<sk, sh, st, sp, timer, pub, wm>>
  /\ UNCHANGED <<lastH, lastT, lastC, trigAt, mode, left, curH, curT, curDl, curC, recon, wakeAt, reqQ, respQ>>
  /\ UNCHANGED <<envVars, ghostVars>>
  /\ act' = [name |-> "SleepToWait"]

\* ensure_synced (second borrow, update_last_block_values) + predefined_blocks.get_block + trigger set-up
LoopStartEnabled ==
  \/ pc = "Sync"
  \/ pc = "WaitSync" /\ dirty
  \/ pc = "Sleep" /\ now >= wakeAt /\ pub.k = "S"
LoopStart ==
  /\ LoopStartEnabled
  /\ dirty' = FALSE
  /\ LET upd == pub.k = "S" /\ pub.h > lastH IN
       /\ lastH' = IF upd THEN pub.h ELSE lastH
       \* update_last_block_values: a header that is not higher still refreshes a lower timestamp
       \* (last_height may have been taken from the database, which knows no timestamps)
       /\ lastT' = IF upd THEN pub.t ELSE IF pub.k = "S" /\ pub.t > lastT THEN pub.t ELSE lastT
       /\ lastC' = IF upd THEN CreatedFor(pub.t) ELSE lastC
  /\ trigAt' = lastC' + BtTicks
  /\ pc' = "Select"
  /\ GhostLoopStart(lastH' + 1)
  /\ UNCHANGED <<sk, sh, st, sp, timer, pub, wm>>
  /\ UNCHANGED <<mode, left, curH, curT, curDl, curC, recon, wakeAt, reqQ, respQ>>
  /\ UNCHANGED envVars
  /\ act' = [name |-> "LoopStart", h |-> lastH' + 1, nc |-> IF pub.k = "S" THEN 1 ELSE 0]

\* a failed production: manual -> answer Err; trigger -> release the lease, then sleep
ProdFail ==
  IF mode = "manual"
  THEN /\ respQ' = Append(respQ, "Err") /\ mode' = "none" /\ GoTop
  ELSE /\ pc' = "Release" /\ UNCHANGED <<respQ, mode, dirty>>

\* produce_block: signer.is_available() and the timestamp check
IsAvailCommon(res, T) ==
  /\ res = ("signer" \notin fails)
  /\ fails' = fails \ {"signer"}
  /\ IF res /\ ~(lastT > T) THEN pc' = "Produce" /\ UNCHANGED <<respQ, mode, dirty>>
     ELSE ProdFail
\* Request::ManualBlocks taken by the select (it has priority over the trigger), first produce_block
ManualBegin(res) ==
  /\ pc = "Select" /\ reqQ # <<>> /\ cfg.trig # "Open"
  /\ LET r == Head(reqQ)
         T == IF r.start >= 0 THEN r.start ELSE NextTimeManual(lastT, lastC) IN
       /\ reqQ' = Tail(reqQ)
       /\ curH' = lastH + 1 /\ curT' = T /\ curDl' = now
       /\ IF res /\ ~(lastT > T)
          THEN mode' = "manual" /\ left' = r.n /\ pc' = "Produce" /\ UNCHANGED <<respQ, dirty>>
          ELSE mode' = "none" /\ left' = 0 /\ respQ' = Append(respQ, "Err") /\ GoTop
       /\ res = ("signer" \notin fails)
       /\ fails' = fails \ {"signer"}
  /\ UNCHANGED <<sk, sh, st, sp, timer, pub, wm>>
  /\ UNCHANGED <<lastH, lastT, lastC, trigAt, curC, recon, wakeAt>>
  /\ UNCHANGED <<cfg, now, skew, dbH, dbT, blockQ, peersQ, leader, txDirty>>
  /\ UNCHANGED ghostVars
  /\ act' = [name |-> "IsAvail", res |-> res, nc |-> 0]
\* with Trigger::Open manual production is refused (no port call)
ManualReject ==
  /\ pc = "Select" /\ reqQ # <<>> /\ cfg.trig = "Open"
  /\ reqQ' = Tail(reqQ) /\ respQ' = Append(respQ, "Err") /\ GoTop
  /\ UNCHANGED <<sk, sh, st, sp, timer, pub, wm>>
  /\ UNCHANGED <<lastH, lastT, lastC, trigAt, mode, left, curH, curT, curDl, curC, recon, wakeAt>>
  /\ UNCHANGED <<envVars, ghostVars>>
  /\ act' = [name |-> "ManualReject"]
IsAvail(res) ==
  /\ pc = "IsAvail"
  /\ IsAvailCommon(res, curT)
  /\ UNCHANGED <<sk, sh, st, sp, timer, pub, wm>>
  /\ UNCHANGED <<lastH, lastT, lastC, trigAt, left, curH, curT, curDl, curC, recon, wakeAt, reqQ>>
  /\ UNCHANGED <<cfg, now, skew, dbH, dbT, blockQ, peersQ, leader, txDirty>>
  /\ UNCHANGED ghostVars
  /\ act' = [name |-> "IsAvail", res |-> res, nc |-> IF mode = "trigger" THEN 1 ELSE 0]

\* block_producer.produce_and_execute_block(height, block_time, TxPool, deadline)
Produce(res) ==
  /\ pc = "Produce"
  /\ res = ("produce" \notin fails)
  /\ fails' = fails \ {"produce"}
  /\ IF res THEN pc' = "Seal" /\ UNCHANGED <<respQ, mode, dirty>> ELSE ProdFail
  /\ GhostProduce(curH, curT)
  /\ curC' = now                                 \* produce_block's `last_block_created = Instant::now()`
  /\ UNCHANGED <<sk, sh, st, sp, timer, pub, wm>>
  /\ UNCHANGED <<lastH, lastT, lastC, trigAt, left, curH, curT, curDl, recon, wakeAt, reqQ>>
  /\ UNCHANGED <<cfg, now, skew, dbH, dbT, blockQ, peersQ, leader, txDirty>>
  /\ act' = [name |-> "Produce", h |-> curH, t |-> curT, dl |-> curDl, res |-> res]

\* sleep_until(deadline), then signer.seal_block(block)
Seal(res) ==
  /\ pc = "Seal" /\ now >= curDl
  /\ res = ("seal" \notin fails)
  /\ fails' = fails \ {"seal"}
  /\ IF res THEN pc' = "Commit" /\ UNCHANGED <<respQ, mode, dirty>> ELSE ProdFail
  /\ GhostSeal(curH, curT, res)
  /\ UNCHANGED <<sk, sh, st, sp, timer, pub, wm>>
  /\ UNCHANGED <<lastH, lastT, lastC, trigAt, left, curH, curT, curDl, curC, recon, wakeAt, reqQ>>
  /\ UNCHANGED <<cfg, now, skew, dbH, dbT, blockQ, peersQ, leader, txDirty>>
  /\ act' = [name |-> "Seal", h |-> curH, t |-> curT, res |-> res]

\* block_importer.commit_result(sealed block); on success the task's last_* values are updated
Commit(res) ==
  /\ pc = "Commit"
  /\ res = ("commit" \notin fails /\ DbAccepts(curH, curT))
  /\ fails' = fails \ {"commit"}
  /\ GhostCommit(curH, curT, TRUE, res)
  /\ IF res
     THEN /\ dbH' = curH /\ dbT' = curT
          /\ blockQ' = Append(blockQ, [h |-> curH, t |-> curT, src |-> "local"])
          /\ lastH' = curH /\ lastT' = curT
          /\ lastC' = IF cfg.trig = "Open" THEN Max(curDl, curC) ELSE curC
          /\ IF mode = "manual" /\ left > 1
             THEN /\ left' = left - 1 /\ curH' = curH + 1 /\ curC' = curC /\ curDl' = now
                  /\ curT' = NextTimeManual(lastT', lastC')
                  /\ pc' = "IsAvail" /\ UNCHANGED <<respQ, mode, dirty>>
             ELSE /\ UNCHANGED <<left, curH, curT, curDl, curC>>
                  /\ respQ' = IF mode = "manual" THEN Append(respQ, "Ok") ELSE respQ
                  /\ mode' = "none" /\ GoTop
     ELSE /\ UNCHANGED <<dbH, dbT, blockQ, lastH, lastT, lastC, left, curH, curT, curDl, curC>>
          /\ ProdFail
  /\ UNCHANGED <<sk, sh, st, sp, timer, pub, wm>>
  /\ UNCHANGED <<trigAt, recon, wakeAt, reqQ>>
  /\ UNCHANGED <<cfg, now, skew, peersQ, leader, txDirty>>
  /\ act' = [name |-> "Commit", h |-> curH, t |-> curT, res |-> res]

\* handle_normal_block_production's error path: reconciliation_port.release(), then sleep(retry delay)
Release ==
  /\ pc = "Release"
  /\ pc' = "Sleep" /\ wakeAt' = now + RetryTicks /\ mode' = "none"
  /\ UNCHANGED <<lastH, lastT, lastC, trigAt, left, curH, curT, curDl, curC, recon, reqQ, respQ>>
  /\ UNCHANGED <<envVars, syncVars, ghostVars>>
  /\ act' = [name |-> "Release"]

\* the trigger fires; try_to_produce_block starts with block_importer.latest_block_height()
TriggerReady ==
  CASE cfg.trig = "Interval" -> now >= trigAt
    [] cfg.trig = "Instant"  -> txDirty
    [] cfg.trig = "Open"     -> TRUE
    [] OTHER                 -> FALSE
TriggerFire ==
  /\ pc = "Select" /\ reqQ = <<>> /\ TriggerReady
  /\ curDl' = IF cfg.trig = "Open" THEN trigAt ELSE now
  /\ txDirty' = IF cfg.trig = "Instant" THEN FALSE ELSE txDirty
  /\ lastH' = Max(lastH, dbH)
  /\ pc' = "Leader"
  /\ GhostDbHeight(dbH)
  /\ UNCHANGED <<lastT, lastC, trigAt, mode, left, curH, curT, curC, recon, wakeAt, reqQ, respQ>>
  /\ UNCHANGED <<cfg, now, skew, dbH, dbT, blockQ, peersQ, fails, leader>>
  /\ UNCHANGED syncVars
  /\ act' = [name |-> "DbHeight", res |-> dbH, why |-> "fire"]

\* the blocks the reconciliation port returns for `next_height`
ReconBlocks(nh) == [i \in 1..leader.cnt |-> [h |-> nh + leader.off + i - 1, t |-> dbT + leader.dt]]
\* reconciliation_port.leader_state(next_height)
LeaderState(res) ==
  /\ pc = "Leader"
  /\ res = leader.k
  /\ leader' = LeaderL
  /\ GhostLeader(lastH + 1, res)
  /\ CASE res = "E" -> GoTop /\ UNCHANGED <<mode, curH, curT, curC, recon, wakeAt>>
       [] res = "F" -> /\ IF now >= curDl THEN GoTop /\ wakeAt' = wakeAt
                          ELSE pc' = "Sleep" /\ wakeAt' = curDl /\ dirty' = dirty
                       /\ UNCHANGED <<mode, curH, curT, curC, recon>>
       [] res = "L" -> /\ mode' = "trigger" /\ curH' = lastH + 1 /\ curT' = NextTimeTrigger /\ curC' = curC
                       /\ pc' = "IsAvail" /\ UNCHANGED <<recon, wakeAt, dirty>>
       [] res = "U" -> LET rest == Pending(ReconBlocks(lastH + 1), lastH) IN
                       /\ IF rest = <<>> THEN GoTop /\ recon' = <<>>
                          ELSE pc' = "Recon" /\ recon' = rest /\ dirty' = dirty
                       /\ UNCHANGED <<mode, curH, curT, curC, wakeAt>>
  /\ UNCHANGED <<sk, sh, st, sp, timer, pub, wm>>
  /\ UNCHANGED <<lastH, lastT, lastC, trigAt, left, curDl, reqQ, respQ>>
  /\ UNCHANGED <<cfg, now, skew, dbH, dbT, blockQ, peersQ, fails, txDirty>>
  /\ act' = [name |-> "LeaderState", h |-> lastH + 1, res |-> res]

\* block_importer.execute_and_commit(block) for the next unreconciled block
ExecCommit(res) ==
  /\ pc = "Recon"
  /\ LET b == Head(recon) IN
       /\ res = ("import" \notin fails /\ DbAccepts(b.h, b.t))
       /\ fails' = fails \ {"import"}
       /\ wm' = Max(wm, b.h)                          \* reconciliation_watermark.fetch_max
       /\ GhostExecCommit(b.h, b.t, res)
       /\ IF res
          THEN /\ dbH' = b.h /\ dbT' = b.t
               /\ blockQ' = Append(blockQ, [h |-> b.h, t |-> b.t, src |-> "net"])
               /\ lastH' = b.h /\ lastT' = b.t
               /\ LET rest == Pending(Tail(recon), b.h) IN
                    IF rest = <<>> THEN GoTop /\ recon' = <<>>
                    ELSE pc' = "Recon" /\ recon' = rest /\ dirty' = dirty
          ELSE /\ UNCHANGED <<dbH, dbT, blockQ, lastH, lastT, dirty>>
               /\ pc' = "ReconDb" /\ recon' = Tail(recon)
       /\ act' = [name |-> "ExecCommit", h |-> b.h, t |-> b.t, res |-> res]
  /\ UNCHANGED <<sk, sh, st, sp, timer, pub>>
  /\ UNCHANGED <<lastC, trigAt, mode, left, curH, curT, curDl, curC, wakeAt, reqQ, respQ>>
  /\ UNCHANGED <<cfg, now, skew, peersQ, leader, txDirty>>
\* after a failed reconciliation import: latest_block_height() again
ReconDb ==
  /\ pc = "ReconDb"
  /\ lastH' = Max(lastH, dbH)
  /\ GhostDbHeight(dbH)
  /\ LET rest == Pending(recon, lastH') IN
       IF rest = <<>> THEN GoTop /\ recon' = <<>>
       ELSE pc' = "Recon" /\ recon' = rest /\ dirty' = dirty
  /\ UNCHANGED <<sk, sh, st, sp, timer, pub, wm>>
  /\ UNCHANGED <<lastT, lastC, trigAt, mode, left, curH, curT, curDl, curC, wakeAt, reqQ, respQ>>
  /\ UNCHANGED envVars
  /\ act' = [name |-> "DbHeight", res |-> dbH, why |-> "recon"]

TaskNext ==
  \/ SleepToWait \/ LoopStart \/ ManualReject \/ Release \/ TriggerFire \/ ReconDb
  \/ \E res \in BOOLEAN : ManualBegin(res) \/ IsAvail(res) \/ Produce(res) \/ Seal(res) \/ Commit(res) \/ ExecCommit(res)
  \/ \E res \in {"L", "F", "E", "U"} : LeaderState(res)
SyncNext == SyncPeers \/ SyncBlock \/ SyncTick
EnvNext ==
  \/ \E c \in Configs : New(c)
  \/ \E d \in Advs : Advance(d)
  \/ \E s \in Skews : Skew(s)
  \/ \E dt \in ImportDts : NetImport(dt)
  \/ \E n \in PeerCounts : Peers(n)
  \/ \E k \in FailKinds : Fail(k)
  \/ \E ld \in Leaders : SetLeader(ld)
  \/ \E s \in ManualStarts, n \in ManualNs : Manual(s, n)
  \/ NewTx
  \/ ManualDone
Next == TaskNext \/ SyncNext \/ EnvNext
Spec == Init /\ [][Next]_<<vars, act>>

EnvActs == {"New", "Advance", "Skew", "NetImport", "Peers", "Fail", "SetLeader", "Manual", "NewTx"}

(* ================================ the property ====================================================== *)
\* every port call that names a height names the one after the latest height the task was told:
\* commit/produce requests are for the next height, and a failed produce / seal / commit (or anything else
\* that is not a told block) leaves the height where it was
ReqNextHeight == gReq.k # "none" => gReq.h = gReq.known + 1
\* timestamps of produce / commit requests are never lower than the timestamp of any block the task was
\* told exists (its initial block, its own committed blocks, reconciled blocks, the sync header)
ReqTimeMonotone == gReq.k \in {"produce", "commit"} => gReq.t >= gReq.told
\* a block is sealed (for exactly this height and timestamp, after its production) before it is committed
SealedBeforeCommit == gReq.k = "commit" => gReq.sealed
\* under the interval trigger a trigger-initiated production starts at least block_time after the
\* production of the previous block (when that was produced by this task)
IntervalSpacing == (cfg.trig = "Interval" /\ gReq.k = "produce") => gReq.gap >= BtTicks
\* design-level sanity (internal variables; not checked on implementation traces)
TaskKnowsHeight == Born => lastH = gKnown
TypeOK ==
  /\ pc \in {"Unborn", "Sleep", "Sync", "WaitSync", "Select", "Leader", "IsAvail", "Produce", "Seal", "Commit",
             "Release", "Recon", "ReconDb"}
  /\ sk \in {"I", "S", "Y"} /\ pub.k \in {"N", "S"}
  /\ mode \in {"none", "manual", "trigger"}

StateRec == [pc |-> pc, lastH |-> lastH, lastT |-> lastT, lastC |-> lastC, now |-> now, dbH |-> dbH, dbT |-> dbT,
             pub |-> pub, sk |-> sk, gKnown |-> gKnown, gToldT |-> gToldT, gReq |-> gReq]
=============================================================================
