SPECIFICATION TSpec
CONSTANTS
  Reserved = {"r1", "r2"}
  Others = {"o1", "o2", "o3", "o4"}
  Limits = {0, 1, 2, 3}
  Deltas <- DeltasDefault
  Scored = {"o1", "o2", "o3", "o4", "r1", "r2"}
  MaxDecay = 1
INVARIANT NonReservedWithinLimit
INVARIANT AdmittedIffSlotFree
INVARIANT ReservedAlwaysAdmittedNeverBanned
INVARIANT ScoreWithinMax
PROPERTY TConnectAdmission
POSTCONDITION TraceAccepted
CHECK_DEADLOCK FALSE
