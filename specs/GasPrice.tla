---------------------------- MODULE GasPrice ----------------------------
(* C34 — AlgorithmUpdaterV1 (crates/fuel-gas-price-algorithm/src/v1.rs).                     *)
(* One action per public update call, transcribed statement by statement over small integers *)
(* (no saturation is reachable inside the bound; i128 division truncates toward zero).       *)
EXTENDS Integers, FiniteSets, TLC

CONSTANTS Configs,          \* set of configuration records (see MC cfg)
          MaxHeight,
          Useds, Caps, Bytess, Fees, RecBytess, Costs

VARIABLES cfg,              \* chosen configuration ("none" before New)
          exec, da,         \* scaled execution / DA gas price
          h,                \* l2_block_height
          rewards, known, proj, lp, slp, cpb, activity,
          unrec,            \* unrecorded blocks: [height -> bytes] over a finite domain
          unrecBytes,
          act
vars == <<cfg, exec, da, h, rewards, known, proj, lp, slp, cpb, activity, unrec, unrecBytes>>

Max(a, b) == IF a >= b THEN a ELSE b
Min(a, b) == IF a <= b THEN a ELSE b
Abs(a) == IF a >= 0 THEN a ELSE -a
Sgn(a) == IF a > 0 THEN 1 ELSE IF a < 0 THEN -1 ELSE 0
TDiv(a, b) == IF b = 0 THEN 0                       \* checked_div(..).unwrap_or(0)
              ELSE Sgn(a) * Sgn(b) * (Abs(a) \div Abs(b))   \* Rust integer division truncates
CeilDiv(a, b) == (a + b - 1) \div b

None == [id |-> 0]
Born == cfg.id # 0
Init == /\ cfg = None /\ exec = 0 /\ da = 0 /\ h = 0 /\ rewards = 0 /\ known = 0 /\ proj = 0
        /\ lp = 0 /\ slp = 0 /\ cpb = 0 /\ activity = 0 /\ unrec = << >> /\ unrecBytes = 0
        /\ act = [name |-> "Init"]

MinExecS(c) == c.minExec * c.factor
MinDaS(c)   == c.minDa * c.factor
MaxDaS(c)   == Max(c.maxDa, c.minDa) * c.factor
MaxAct(c)   == c.dec + c.cap + c.norm
CappedThr(c) == c.dec + c.cap
DecThr(c)   == c.dec

New(c) ==
  /\ ~Born
  /\ cfg' = c /\ exec' = c.exec0 /\ da' = c.da0 /\ h' = c.h0
  /\ rewards' = 0 /\ known' = 0 /\ proj' = 0 /\ lp' = 0 /\ slp' = 0 /\ cpb' = c.cpb0
  /\ activity' = Min(c.act0, MaxAct(c)) /\ unrec' = << >> /\ unrecBytes' = 0
  /\ act' = [name |-> "New", c |-> c]

(* ---- update_da_gas_price --------------------------------------------------*)
MaxChange(c, d) == (d * c.daPct) \div 100
NewDa(c, d, lastP, sndP, actv) ==
  LET p  == -TDiv(lastP, c.pc)
      dd == -TDiv(lastP - sndP, c.dc)
      pd == (p + dd) * c.factor
      mc == MaxChange(c, d)
      ch == Sgn(pd) * Min(Abs(pd), mc)
      ch2 == IF ch > 0
             THEN (IF actv >= CappedThr(c) THEN ch ELSE IF actv >= DecThr(c) THEN 0 ELSE -mc)
             ELSE ch
      raw == IF d + ch2 < 0 THEN 0 ELSE d + ch2
  IN Min(Max(MinDaS(c), raw), MaxDaS(c))

(* ---- update_l2_block_data -------------------------------------------------*)
L2Ok(height) == height = h + 1
UpdateL2(height, used, cap, bytes, fee) ==
  /\ Born
  /\ IF ~L2Ok(height)
     THEN /\ UNCHANGED vars
          /\ act' = [name |-> "UpdateL2", height |-> height, used |-> used, cap |-> cap,
                     bytes |-> bytes, fee |-> fee, res |-> "Err:SkippedL2Block"]
     ELSE
       LET c == cfg
           dExec == exec \div c.factor
           dDa == da \div c.factor
           den == dExec + dDa
           reward == IF den = 0 THEN 0 ELSE CeilDiv(fee * dDa, den)
           rewards1 == rewards + reward
           proj1 == proj + bytes * cpb
           profit == rewards1 - proj1
           blockAct == Min((used * 100) \div cap, 100)
           act1 == IF blockAct < c.blkAct THEN Max(activity - 1, 0)
                   ELSE Min(activity + 1, MaxAct(c))
           full == (used * 100) \div cap
           chg == (exec * c.execPct) \div 100
           exec1 == IF full >= c.thr THEN exec + chg ELSE Max(exec - chg, 0)
       IN /\ h' = height
          /\ rewards' = rewards1 /\ proj' = proj1
          /\ slp' = lp /\ lp' = profit
          /\ activity' = act1
          /\ exec' = Max(MinExecS(c), exec1)
          /\ da' = NewDa(c, da, profit, lp, act1)
          /\ unrec' = [x \in (DOMAIN unrec) \cup {height} |-> IF x = height THEN bytes ELSE unrec[x]]
          /\ unrecBytes' = unrecBytes + bytes
          /\ UNCHANGED <<cfg, known, cpb>>
          /\ act' = [name |-> "UpdateL2", height |-> height, used |-> used, cap |-> cap,
                     bytes |-> bytes, fee |-> fee, res |-> "Ok"]

(* ---- update_da_record_data ------------------------------------------------*)
RECURSIVE SumOver(_, _)
SumOver(f, S) == IF S = {} THEN 0 ELSE LET x == CHOOSE y \in S : TRUE IN f[x] + SumOver(f, S \ {x})

UpdateDa(lo, hi, recBytes, cost) ==
  /\ Born
  /\ IF lo > hi
     THEN /\ UNCHANGED vars
          /\ act' = [name |-> "UpdateDa", lo |-> lo, hi |-> hi, recBytes |-> recBytes,
                     cost |-> cost, res |-> "Ok"]
     ELSE
       LET c == cfg
           hit == {x \in DOMAIN unrec : lo <= x /\ x <= hi}
           total == SumOver(unrec, hit)
           unrec1 == [x \in (DOMAIN unrec) \ hit |-> unrec[x]]
           ub1 == Max(unrecBytes - total, 0)
           known1 == known + cost
       IN IF recBytes = 0
          THEN \* the error is raised after the unrecorded blocks and the known cost were updated
               /\ unrec' = unrec1 /\ unrecBytes' = ub1 /\ known' = known1
               /\ UNCHANGED <<cfg, exec, da, h, rewards, proj, lp, slp, cpb, activity>>
               /\ act' = [name |-> "UpdateDa", lo |-> lo, hi |-> hi, recBytes |-> recBytes,
                          cost |-> cost, res |-> "Err:CouldNotCalculateCostPerByte"]
          ELSE
            LET cpb1 == cost \div recBytes
                proj1 == known1 + ub1 * cpb1
            IN /\ unrec' = unrec1 /\ unrecBytes' = ub1 /\ known' = known1
               /\ cpb' = cpb1 /\ proj' = proj1
               /\ da' = NewDa(c, da, lp, slp, activity)
               /\ UNCHANGED <<cfg, exec, h, rewards, lp, slp, activity>>
               /\ act' = [name |-> "UpdateDa", lo |-> lo, hi |-> hi, recBytes |-> recBytes,
                          cost |-> cost, res |-> "Ok"]

Next ==
  \/ \E c \in Configs : New(c)
  \/ /\ Born /\ h < cfg.h0 + MaxHeight
     /\ \E height \in {h, h + 1, h + 2}, used \in Useds, cap \in Caps, bytes \in Bytess, fee \in Fees :
          UpdateL2(height, used, cap, bytes, fee)
  \/ /\ Born
     /\ \E lo \in (cfg.h0)..(cfg.h0 + MaxHeight), len \in -1..2, rb \in RecBytess, cost \in Costs :
          UpdateDa(lo, lo + len, rb, cost)

Spec == Init /\ [][Next]_<<vars, act>>

(* ---- the property ---------------------------------------------------------*)
ExecAboveMin == Born => exec >= MinExecS(cfg)
DaWithinBounds == Born => da >= MinDaS(cfg) /\ da <= MaxDaS(cfg)

\* per update call the prices move at most the configured percentage, apart from clamping
\* "apart from clamping": the result is clamp(old + delta) with |delta| within the percentage; clamping can
\* only produce a larger move when the old price was outside the bounds
ExecStepOk(c, e0, e1) == \/ Abs(e1 - e0) <= (e0 * c.execPct) \div 100
                         \/ e1 = MinExecS(c) /\ e0 < MinExecS(c)
DaStepOk(c, d0, d1) == \/ Abs(d1 - d0) <= (d0 * c.daPct) \div 100
                       \/ d1 = MinDaS(c) /\ d0 < MinDaS(c)
                       \/ d1 = MaxDaS(c) /\ d0 > MaxDaS(c)
BoundedChange == [][(Born /\ cfg' = cfg) => ExecStepOk(cfg, exec, exec') /\ DaStepOk(cfg, da, da')]_vars
\* DA record updates never move the execution price
DaUpdateKeepsExec == [][(Born /\ cfg' = cfg /\ act'.name = "UpdateDa") => exec' = exec]_<<vars, act>>
\* non-consecutive L2 heights are rejected without changing the state
SkippedRejected == [][(Born /\ cfg' = cfg /\ act'.name = "UpdateL2" /\ act'.height # h + 1)
                        => (act'.res = "Err:SkippedL2Block" /\ UNCHANGED vars)]_<<vars, act>>
HeightConsecutive == [][(Born /\ cfg' = cfg) => (h' = h \/ h' = h + 1)]_vars

StateRec == [cfg |-> cfg.id, exec |-> exec, da |-> da, h |-> h, rewards |-> rewards,
             known |-> known, proj |-> proj, lp |-> lp, slp |-> slp, cpb |-> cpb,
             activity |-> activity, unrecBytes |-> unrecBytes]
=============================================================================
