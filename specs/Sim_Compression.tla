---------------------------- MODULE Sim_Compression ----------------------------
(* Simulation instance (vlib.sim_walks): `tlc -simulate` behaviours of Compression with the REAL key    *)
(* space (2^24-1 keys; registries are finite partial functions, so this costs nothing), five keyspaces *)
(* and a cursor that an environment step parks in a small window around the wrap-around point, so that *)
(* wrap-around, eviction of live keys, overwriting and expiry occur within a few blocks.  The blocks    *)
(* are generated from a bounded pattern (sequence, keyspace mask, per-keyspace rotation, time step) to *)
(* keep the simulator's branching small.                                                               *)
EXTENDS Compression, Json

CONSTANTS NV,       \* Values = 1..NV
          SimDepth  \* histories are printed once they are this long (the -depth of the simulation)
VARIABLE hist

KSeq == <<"address", "asset_id", "contract_id", "script_code", "predicate_code">>
Masks == {{1, 2, 3, 4, 5}, {1, 4}, {2, 3, 5}}
Shift(v, s) == IF v = Default THEN Default ELSE ((v - 1 + s) % NV) + 1

SimCompress ==
  \E U \in SeqsUpTo(Values \cup {Default}, MaxLen) : \E m \in Masks : \E rot \in {1} :
  \E d \in {0, 1, Retention + 1} :
    LET ts == maxts + d
        used == [ks \in KS |->
                   LET i == CHOOSE i \in 1..5 : KSeq[i] = ks IN
                   IF i \in m THEN [j \in 1..Len(U) |-> Shift(U[j], rot * i)] ELSE <<>>]
    IN /\ ts >= 0 /\ ts <= MaxT
       /\ IF \E ks \in KS : Conflict(ks, used[ks], ts)
          THEN CompressBlock(used, ts, [ks \in KS |-> <<>>])
          ELSE CompressBlock(used, ts, [ks \in KS |-> Compressed(ks, used[ks], ts).ch])

\* (the simulator picks among the top-level disjuncts: a cursor jump only directly after a block)
SimNext == /\ \/ SimCompress
              \/ DecompressBlock
              \/ act.name = "CompressBlock" /\ \E ks \in KS : \E k \in JumpKeys : Jump(ks, k)
           /\ hist' = Append(hist, act')
SimInit == Init /\ hist = <<>>
SimSpec == SimInit /\ [][SimNext]_<<vars, act, hist>>
EmitWalk == Len(hist) >= SimDepth => PrintT(<<"WALK", ToJson(hist)>>)
=============================================================================
