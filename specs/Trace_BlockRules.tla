---------------------------- MODULE Trace_BlockRules ----------------------------
(* Trace validation of the real block verifier against BlockRules.  Every event names the consensus      *)
(* configuration / the mutation and logs the verdicts of the real code.                                   *)
(* STRICT=1: the logged verdicts must be the spec's.  STRICT=0: the verdict variables are bound to the    *)
(* logged values (the block / schedule are the model's, determined by the mutation); invariants judge.    *)
EXTENDS BlockRules, Json, IOUtils

Rec == ndJsonDeserialize(IOEnv.TRACE)
Strict == IOEnv.STRICT = "1"
VARIABLE l
tvars == <<vars, act, l>>
IsEv(e) == l <= Len(Rec) /\ Rec[l].ev = e /\ l' = l + 1
TInit == Init /\ l = 1

TReset == /\ IsEv("reset")
          /\ kind' = "none" /\ blk' = NoBlock /\ sched' = [genesis |-> "none", ov |-> {}] /\ mut' = NoMut
          /\ vf' = "none" /\ vc' = FALSE /\ te' = FALSE /\ idc' = FALSE /\ same' = TRUE
          /\ act' = [name |-> "reset"]

Logged(r) == vf' = r.vf /\ vc' = r.vc /\ te' = r.te /\ idc' = r.idc /\ same' = r.same

TNew == /\ IsEv("New")
        /\ LET r == Rec[l] IN
             IF Strict THEN New(r.k) /\ Logged(r)
             ELSE /\ kind = "none" /\ kind' = r.k /\ blk' = Valid(r.k) /\ sched' = SchedOf(r.k) /\ mut' = NoMut
                  /\ Logged(r) /\ act' = [name |-> "New", k |-> r.k]
TMutate == /\ IsEv("Mutate")
           /\ LET r == Rec[l] IN
                IF Strict THEN Mutate(r.f, r.v, r.fix) /\ Logged(r)
                ELSE /\ kind # "none" /\ kind' = kind
                     /\ blk' = Fixed(Raw(blk, r.f, r.v), {r.f}, r.fix, sched)
                     /\ sched' = IF r.f = "sched" THEN SchedMut(sched, blk.height) ELSE sched
                     /\ mut' = [f |-> r.f, v |-> r.v, f2 |-> "none", v2 |-> 0, fix |-> r.fix]
                     /\ Logged(r) /\ act' = [name |-> "Mutate", f |-> r.f, v |-> r.v, fix |-> r.fix]
TMutate2 == /\ IsEv("Mutate2")
            /\ LET r == Rec[l] IN
                 IF Strict THEN Mutate2(r.f, r.v, r.f2, r.v2, r.fix) /\ Logged(r)
                 ELSE /\ kind # "none" /\ kind' = kind
                      /\ blk' = Fixed(Raw(Raw(blk, r.f, r.v), r.f2, r.v2), {r.f, r.f2}, r.fix, sched)
                      /\ sched' = sched
                      /\ mut' = [f |-> r.f, v |-> r.v, f2 |-> r.f2, v2 |-> r.v2, fix |-> r.fix]
                      /\ Logged(r)
                      /\ act' = [name |-> "Mutate2", f |-> r.f, v |-> r.v, f2 |-> r.f2, v2 |-> r.v2, fix |-> r.fix]
TNext == TReset \/ TNew \/ TMutate \/ TMutate2
TSpec == TInit /\ [][TNext]_tvars
TraceAccepted ==
  LET d == TLCGet("stats").diameter IN
  IF d - 1 = Len(Rec) THEN PrintT(<<"TRACE-ACCEPTED", Len(Rec)>>)
  ELSE PrintT(<<"TRACE-REJECTED", d>>) /\ PrintT(Rec[d])
=============================================================================
