---------------------------- MODULE Pagination ----------------------------
(* C38 — cursor pagination of the GraphQL API: crates/fuel-core/src/schema.rs, `query_pagination`.   *)
(*                                                                                                     *)
(* `PageOf` transcribes query_pagination statement by statement: the argument checks, the choice of   *)
(* direction / start / end, the storage iterator handed in by the resolver (`entries(&start, dir)`:   *)
(* the collection in iteration order from `start` INCLUSIVE), `skip_while(key == start)` setting       *)
(* has_previous_page, `take(count + 1)`, and the `take_while` closure with its saturating counter      *)
(* setting has_next_page.  A *session* follows cursors the way fuel-core-client does: the next request *)
(* uses the page's end cursor (cursor of the last returned edge) with the same direction.              *)
(*                                                                                                     *)
(* Reading of the flags (decided on the code and on the repository's own client / integration tests,  *)
(* tests/tests/tx.rs, tests/tests/balances.rs): a `last/before` request is a *descending* traversal — *)
(* edges come in iteration order (descending), the cursor to follow is the end cursor, has_next_page  *)
(* means "more entries further in the traversal", has_previous_page "entries behind the traversal".   *)
(* FlagsExact states exactness in that (traversal-relative) sense.  `FlagsRelayAbsolute` is the other  *)
(* reading (has_previous_page <=> smaller keys exist, has_next_page <=> larger keys exist); it is NOT *)
(* an invariant of the check, C38.py only records how the real code relates to it.                     *)
EXTENDS Integers, Sequences, FiniteSets, TLC

CONSTANTS MaxKey,        \* keys of a collection are a subset of 1..MaxKey
          MaxSize        \* page sizes 0..MaxSize

Keys    == 1..MaxKey
Cursors == 0..(MaxKey + 1)            \* 0 is below every key, MaxKey+1 above; gaps are cursors not in the collection
None    == -1                         \* absent argument
Neg     == -2                         \* a negative first/last

VARIABLES born,          \* a collection exists
          coll,          \* the ordered collection (set of keys)
          sess,          \* the cursor-following session
          last,          \* the last answer
          act
vars == <<born, coll, sess, last>>

(* ---- sequences over sets of integers ------------------------------------*)
Min(S) == CHOOSE x \in S : \A y \in S : x <= y
Max(S) == CHOOSE x \in S : \A y \in S : x >= y
RECURSIVE Asc(_)
Asc(S) == IF S = {} THEN <<>> ELSE <<Min(S)>> \o Asc(S \ {Min(S)})
RECURSIVE Desc(_)
Desc(S) == IF S = {} THEN <<>> ELSE <<Max(S)>> \o Desc(S \ {Max(S)})
Take(s, n) == SubSeq(s, 1, IF n < Len(s) THEN n ELSE Len(s))
IsPrefix(s, t) == Len(s) <= Len(t) /\ SubSeq(t, 1, Len(s)) = s
MaskSet(m) == {k \in Keys : (m \div (2 ^ (k - 1))) % 2 = 1}

(* ---- the storage iterator given to query_pagination ---------------------*)
\* entries(&start, direction): database iteration from `start` inclusive in `direction`
Entries(C, start, dir) ==
  IF dir = "F" THEN Asc(IF start = None THEN C ELSE {k \in C : k >= start})
               ELSE Desc(IF start = None THEN C ELSE {k \in C : k <= start})

(* ---- query_pagination ---------------------------------------------------*)
Err(why) == [kind |-> "err", why |-> why, edges |-> <<>>, hp |-> FALSE, hn |-> FALSE, size |-> 0]

\* the take_while closure, folded over the (already `take`n) stream
RECURSIVE TakeWhile(_, _, _, _, _, _)
TakeWhile(s, i, cnt, end, out, hn) ==
  IF i > Len(s) THEN [out |-> out, hn |-> hn]
  ELSE IF end # None /\ s[i] = end THEN [out |-> out, hn |-> TRUE]
  ELSE LET c2  == IF cnt > 0 THEN cnt - 1 ELSE 0          \* count.saturating_sub(1)
           hn2 == hn \/ c2 = 0
       IN IF c2 # 0 THEN TakeWhile(s, i + 1, c2, end, Append(out, s[i]), hn2)
          ELSE [out |-> out, hn |-> hn2]

PageOf(C, after, before, first, last_) ==
  IF first # None /\ last_ # None THEN Err("both")
  ELSE IF after # None /\ last_ # None THEN Err("after_last")
  ELSE IF before # None /\ first # None THEN Err("before_first")
  ELSE IF first = None /\ last_ = None THEN Err("neither")
  ELSE IF first = Neg \/ last_ = Neg THEN Err("negative")             \* async_graphql::connection::query
  ELSE
    LET dir   == IF first # None THEN "F" ELSE "B"
        count == IF first # None THEN first ELSE last_
        start == IF dir = "F" THEN after ELSE before
        end   == IF dir = "F" THEN before ELSE after
        s0    == Entries(C, start, dir)
        hp    == start # None /\ Len(s0) > 0 /\ s0[1] = start        \* skip_while: keys are distinct
        s1    == IF hp THEN Tail(s0) ELSE s0
        s2    == Take(s1, count + 1)                                  \* .take(count + 1)
        tw    == TakeWhile(s2, 1, count + 1, end, <<>>, FALSE)
    IN [kind |-> "ok", why |-> "", edges |-> tw.out, hp |-> hp, hn |-> tw.hn, size |-> count]

(* ---- sessions -----------------------------------------------------------*)
Idle   == [dir |-> "N", start |-> None, cur |-> None, collected |-> <<>>, open |-> FALSE]
NoPage == [kind |-> "none", why |-> "", edges |-> <<>>, hp |-> FALSE, hn |-> FALSE, size |-> 0]

\* the request a traversal in direction d makes with cursor c and page size n
Request(C, d, c, n) == IF d = "F" THEN PageOf(C, c, None, n, None) ELSE PageOf(C, None, c, None, n)

\* ghost: what the session has after a page (also used by the trace spec on logged pages)
EndCursor(cur, page) == IF Len(page.edges) = 0 THEN cur ELSE page.edges[Len(page.edges)]
GhostStart(d, c, page) ==
  sess' = [dir |-> d, start |-> c, cur |-> EndCursor(c, page), collected |-> page.edges,
           open |-> page.hn /\ Len(page.edges) > 0]
GhostFollow(page) ==
  sess' = [sess EXCEPT !.cur = EndCursor(sess.cur, page), !.collected = sess.collected \o page.edges,
                       !.open = page.hn /\ Len(page.edges) > 0]

Init == born = FALSE /\ coll = {} /\ sess = Idle /\ last = NoPage /\ act = [name |-> "Init"]

New(m) ==
  /\ ~born
  /\ born' = TRUE /\ coll' = MaskSet(m) /\ sess' = Idle /\ last' = NoPage
  /\ act' = [name |-> "New", m |-> m]

\* first page of a traversal: from the start / the end (c = None) or from an arbitrary cursor
Start(d, c, n) ==
  /\ born /\ sess.dir = "N"
  /\ LET page == Request(coll, d, c, n) IN last' = page /\ GhostStart(d, c, page)
  /\ UNCHANGED <<born, coll>>
  /\ act' = [name |-> "Start", d |-> d, c |-> c, n |-> n]

\* next page: same direction, cursor = end cursor of the pages so far
Follow(n) ==
  /\ born /\ sess.dir # "N" /\ sess.open
  /\ LET page == Request(coll, sess.dir, sess.cur, n) IN last' = page /\ GhostFollow(page)
  /\ UNCHANGED <<born, coll>>
  /\ act' = [name |-> "Follow", n |-> n]

End ==
  /\ born /\ (sess.dir # "N" \/ last # NoPage)
  /\ sess' = Idle /\ last' = NoPage
  /\ UNCHANGED <<born, coll>>
  /\ act' = [name |-> "End"]

\* argument combinations query_pagination refuses; c is the cursor used where one is needed
RejectArgs(why, c, n) ==
  CASE why = "both"         -> <<None, None, n, n>>
    [] why = "after_last"   -> <<c, None, None, n>>
    [] why = "before_first" -> <<None, c, n, None>>
    [] why = "neither"      -> <<c, None, None, None>>
    [] why = "negative"     -> <<None, None, Neg, None>>
    [] why = "negative_last" -> <<None, None, None, Neg>>
RejectKinds == {"both", "after_last", "before_first", "neither", "negative", "negative_last"}
Reject(why) ==
  /\ born /\ sess.dir = "N" /\ last = NoPage
  /\ LET a == RejectArgs(why, 1, 2) IN last' = PageOf(coll, a[1], a[2], a[3], a[4])
  /\ UNCHANGED <<born, coll, sess>>
  /\ act' = [name |-> "Reject", why |-> why]

Next == \/ \E m \in 0..(2 ^ MaxKey - 1) : New(m)
        \/ \E d \in {"F", "B"} : \E c \in {None} \cup Cursors : \E n \in 0..MaxSize : Start(d, c, n)
        \/ \E n \in 0..MaxSize : Follow(n)
        \/ End
        \/ \E w \in RejectKinds : Reject(w)

Spec == Init /\ [][Next]_<<vars, act>>

StateRec == [born |-> born, coll |-> coll, sess |-> sess, last |-> last]

(* ---- the property -------------------------------------------------------*)
\* what a traversal in direction d from cursor c has to enumerate: everything strictly beyond c
Expected(C, d, c) ==
  IF d = "F" THEN Asc(IF c = None THEN C ELSE {k \in C : k > c})
             ELSE Desc(IF c = None THEN C ELSE {k \in C : k < c})
\* entries at or behind cursor c for a traversal in direction d
Behind(C, d, c) ==
  IF c = None THEN {} ELSE IF d = "F" THEN {k \in C : k <= c} ELSE {k \in C : k >= c}

InSession == sess.dir # "N" /\ last.kind = "ok"

\* following cursors returns every entry exactly once, in order, nothing skipped; a traversal that is told
\* there is no further page has seen everything
EveryEntryOnceInOrder ==
  InSession =>
    LET exp == Expected(coll, sess.dir, sess.start) IN
      /\ IsPrefix(sess.collected, exp)
      /\ ~last.hn => sess.collected = exp

PageLen == last.kind = "ok" => Len(last.edges) <= last.size

\* cursor the last page was requested with (the session's cursor before the page)
PrevCursor == IF Len(sess.collected) = Len(last.edges) THEN sess.start
              ELSE sess.collected[Len(sess.collected) - Len(last.edges)]
FlagsExact ==
  InSession =>
    LET exp == Expected(coll, sess.dir, sess.start)
        c   == PrevCursor
        beh == Behind(coll, sess.dir, c) IN
      /\ last.hn <=> Len(sess.collected) < Len(exp)                 \* more entries further on
      /\ last.hp => beh # {}                                        \* never claims entries that do not exist
      /\ (c = None \/ c \in coll) => (last.hp <=> beh # {})         \* exact for cursors taken from a page
      \* for a cursor that is not in the collection the code cannot tell (its own TODO "wild queries");
      \* the property is about following cursors, so only soundness is required there

\* refused argument combinations are errors and nothing else is
ErrorsOnlyForBadArgs == last.kind = "err" => sess.dir = "N"

\* NOT part of the check: flags read as in the Relay connection specification, independent of the traversal
FlagsRelayAbsolute ==
  (InSession /\ Len(last.edges) > 0) =>
    LET lo == Min({last.edges[i] : i \in 1..Len(last.edges)})
        hi == Max({last.edges[i] : i \in 1..Len(last.edges)}) IN
      /\ last.hp <=> (\E k \in coll : k < lo)
      /\ last.hn <=> (\E k \in coll : k > hi)
=============================================================================
