------------------------------ MODULE MC_Exec ------------------------------
(* Bounded instance of Exec: one hand-written genesis/descriptor table (double spends, a     *)
(* dependent spend, a reverting script with contract writes and a retryable message, a       *)
(* replayable reverting transaction, contract creation, relayed message + forced             *)
(* transactions; m1 / m2 are owned by the predicate root "oP" (predicate inputs in h-exec);  *)
(* transactions, missing / mismatching / expired inputs) and abstract gas/fee/size numbers.  *)
(* MC_Exec.cfg explores it exhaustively, Sim_Exec.cfg samples longer behaviours and prints   *)
(* them as walks for the harness (B2).                                                       *)
EXTENDS Exec, Json

CONSTANTS MaxBlocks, MaxTry, WalkLen, TxIds, Recipients, GasPrices

VARIABLE hist
View == vars

(* ---- descriptor table ------------------------------------------------------------------ *)
In(k, id, i, o, am, data) == [k |-> k, id |-> id, i |-> i, o |-> o, am |-> am, as |-> Base, data |-> data]
Coin(id, i, o, am) == In("coin", id, i, o, am, FALSE)
Msg(id, o, am, data) == In("msg", id, 0, o, am, data)
Con(id) == In("contract", id, 0, "", 0, FALSE)
Out(k, to, am, in) == [k |-> k, to |-> to, am |-> am, as |-> Base, in |-> in]
Change(to) == Out("change", to, 0, 0)
Op(op, c, slot, val, fwd, out, am, to) == [op |-> op, c |-> c, slot |-> slot, val |-> val, fwd |-> fwd, out |-> out, am |-> am, to |-> to]
Call(c, slot, val, fwd) == Op("call", c, slot, val, fwd, 0, 0, "")
\* mg/g/f/sz: abstract max gas, used gas, fee per unit of gas price, size
T(id, kind, ins, outs, ops, end, exp, c, f) ==
  [id |-> id, kind |-> kind, ins |-> ins, outs |-> outs, ops |-> ops, end |-> end, exp |-> exp, c |-> c,
   bad |-> "none", mf |-> IF id = "t7" THEN 0 ELSE 1, gl |-> "std", mg |-> 2, g |-> 1, f |-> f, sz |-> 1]

Txs == <<
  T("t1", "script", <<Coin("g1", 0, "o1", 10)>>, <<Change("o1")>>, <<>>, "ret", 0 - 1, "", 0),
  T("t2", "script", <<Coin("g2", 0, "o1", 10), Con("c1"), Msg("m2", "oP", 5, TRUE)>>,
       <<Out("contract", "", 0, 1), Change("o1")>>, <<Call("c1", 1, 5, 2)>>, "rvrt", 0 - 1, "", 1),
  T("t3", "script", <<Coin("g1", 0, "o1", 10), Msg("m1", "oP", 5, FALSE), Con("c1")>>,
       <<Change("o1"), Out("contract", "", 0, 2), Out("variable", "", 0, 0)>>,
       <<Call("c1", 1, 7, 3), Op("ctro", "c1", 0, 0, 0, 2, 1, "o2"), Op("smo", "", 0, 0, 0, 0, 1, "")>>, "ret", 0 - 1, "", 1),
  T("t4", "script", <<Coin("t1", 0, "o1", 10)>>, <<Out("coin", "o2", 3, 0), Change("o1")>>, <<>>, "ret", 0 - 1, "", 1),
  T("t5", "create", <<Coin("g3", 0, "o2", 10)>>, <<Out("created", "", 0, 0), Change("o2")>>, <<>>, "ret", 0 - 1, "c2", 1),
  T("t6", "script", <<Msg("m3", "o2", 4, FALSE)>>, <<Change("o2")>>, <<>>, "ret", 0 - 1, "", 0),
  T("t7", "script", <<Msg("m2", "oP", 5, TRUE), Msg("m1", "oP", 5, FALSE)>>, <<>>, <<>>, "rvrt", 0 - 1, "", 0),
  T("t8", "script", <<Coin("gX", 0, "o1", 10)>>, <<Change("o1")>>, <<>>, "ret", 0 - 1, "", 0),
  T("t9", "script", <<Coin("g2", 0, "o1", 11)>>, <<Change("o1")>>, <<>>, "ret", 1, "", 0),
  T("t10", "script", <<Coin("g3", 0, "o2", 10), Con("c1")>>,
       <<Change("o2"), Out("contract", "", 0, 1), Out("variable", "", 0, 0)>>,
       <<Call("c1", 2, 9, 1), Op("tro", "", 0, 0, 0, 2, 1, "o1"), Op("callrvrt", "c1", 1, 8, 0, 0, 0, "")>>, "ret", 0 - 1, "", 1),
  \* valid, but its id is among the processed ids preserved by regenesis
  T("t11", "script", <<Coin("g2", 0, "o1", 10)>>, <<Change("o2")>>, <<>>, "ret", 0 - 1, "", 0)
>>

REv(k, id, o, am, data, valid) == [k |-> k, id |-> id, o |-> o, am |-> am, data |-> data, valid |-> valid]
Cfg1 ==
  [coins |-> <<[id |-> CoinId("g1", 0), o |-> "o1", am |-> 10, as |-> Base],
               [id |-> CoinId("g2", 0), o |-> "o1", am |-> 10, as |-> Base],
               [id |-> CoinId("g3", 0), o |-> "o2", am |-> 10, as |-> Base]>>,
   msgs |-> <<[id |-> "m1", o |-> "oP", am |-> 5, da |-> 0, data |-> FALSE],
              [id |-> "m2", o |-> "oP", am |-> 5, da |-> 0, data |-> TRUE]>>,
   contracts |-> <<"c1">>,
   relayer |-> << <<REv("msg", "m3", "o2", 4, FALSE, TRUE)>>,
                  <<REv("tx", "t6", "", 0, FALSE, TRUE), REv("tx", "bad1", "", 0, FALSE, FALSE)>> >>,
   txs |-> Txs,
   processed0 |-> <<"t8", "t11">>,
   gasLimit |-> 4, sizeLimit |-> 3, maxTx |-> 100,
   roots |-> <<[p |-> 0, d |-> 0, root |-> "r00"], [p |-> 0, d |-> 1, root |-> "r01"], [p |-> 0, d |-> 2, root |-> "r02"],
               [p |-> 1, d |-> 1, root |-> "r11"], [p |-> 1, d |-> 2, root |-> "r12"], [p |-> 2, d |-> 2, root |-> "r22"]>>,
   da0 |-> 0]
Configs == {Cfg1}
MaxDa == 2
\* TxIds (CONSTANT): descriptors the source may offer; t6 only arrives through the relayer

(* ---- abstract results -------------------------------------------------------------------- *)
OpsSum(tx, kinds, F(_)) == SeqSum(tx.ops, LAMBDA op : IF op.op \in kinds THEN F(op) ELSE 0)
McOuts(tx, res, fee) ==
  LET rev == res = "Revert"
      inB == SeqSum(tx.ins, LAMBDA in : IF in.k = "coin" THEN in.am
                                         ELSE IF in.k = "msg" /\ ~(in.data /\ rev) THEN in.am ELSE 0)
      outB == SeqSum(tx.outs, LAMBDA o : IF o.k = "coin" THEN o.am ELSE 0)
      moved == IF rev THEN 0 ELSE OpsSum(tx, {"call", "callrvrt"}, LAMBDA op : op.fwd) + OpsSum(tx, {"tro", "smo"}, LAMBDA op : op.am)
  IN MapSeq([i \in DOMAIN tx.outs |-> i], LAMBDA i :
       LET o == tx.outs[i] IN
       IF o.k = "coin" THEN [am |-> o.am, to |-> o.to]
       ELSE IF o.k = "change" THEN [am |-> inB - outB - fee - moved, to |-> o.to]
       ELSE IF o.k = "variable" THEN
            [am |-> IF rev THEN 0 ELSE SeqSum(tx.ops, LAMBDA op : IF op.op \in {"tro", "ctro"} /\ op.out = i - 1 THEN op.am ELSE 0),
             to |-> IF rev THEN "" ELSE Pick({tx.ops[j].to : j \in {x \in DOMAIN tx.ops : tx.ops[x].op \in {"tro", "ctro"} /\ tx.ops[x].out = i - 1}})]
       ELSE [am |-> 0, to |-> ""])
McResult(tx, reason, skipWord, gp) ==
  IF reason # "" THEN [res |-> skipWord, reason |-> reason, maxGas |-> tx.mg, gas |-> 0, fee |-> 0, size |-> tx.sz, outs |-> <<>>, msgs |-> 0]
  ELSE LET res == IF WillRevert(tx) THEN "Revert" ELSE "Ok" IN
       [res |-> res, reason |-> "", maxGas |-> tx.mg, gas |-> tx.g, fee |-> gp * tx.f, size |-> tx.sz,
        outs |-> McOuts(tx, res, gp * tx.f), msgs |-> OpsSum(tx, {"smo"}, LAMBDA op : 1)]
McTry(id) == LET tx == Tx(id) IN McResult(tx, L2Reason(tx, [maxGas |-> tx.mg]), "Skip", blk.gp)
McForced(id) == LET tx == Tx(id) IN McResult(tx, ExecReason(tx, 0), "Fail", 0)
McAsk == [gas |-> Max2(0, cfg.gasLimit - blk.gas), n |-> Max2(0, cfg.maxTx - blk.count), size |-> Max2(0, cfg.sizeLimit - blk.size)]
McMint == [id |-> "mint" \o ToString(blk.h), idx |-> blk.count, gp |-> blk.gp, amt |-> MintAmount, cb |-> blk.cb]
McDg == [ch |-> "ch", st |-> "st", ev |-> "ev"]
McProd ==
  IF blk.stage = "minted"
  THEN [ok |-> TRUE, err |-> "", txs |-> MapSeq(blk.txs, LAMBDA e : e.id),
        kinds |-> MapSeq(blk.txs, LAMBDA e : IF e.id = blk.mint.id THEN "mint" ELSE Tx(e.id).kind),
        statuses |-> MapSeq(blk.txs, LAMBDA e : [id |-> e.id, res |-> e.res, fee |-> e.fee, gas |-> e.gas]),
        sizes |-> MapSeq(blk.txs, LAMBDA e : e.size), events |-> blk.events, msgCount |-> blk.msgCount,
        inbox |-> RootOf(chain.da, blk.da), da |-> blk.da, h |-> blk.h, mint |-> blk.mint, dg |-> McDg,
        \* C07: in the model both strategies are the one deterministic transition function
        strat |-> "native", bid |-> "b", skippedIds |-> MapSeq(blk.skipped, LAMBDA e : e.id),
        other |-> [strat |-> "wasm", ok |-> TRUE, err |-> "", bid |-> "b", dg |-> McDg,
                   skipped |-> MapSeq(blk.skipped, LAMBDA e : e.id)]]
  ELSE [NoProd EXCEPT !.err = "ContractDoesNotExist"]
McCommit == [coins |-> w.coins, msgs |-> w.msgs, contracts |-> w.contracts, processed |-> w.processed, h |-> blk.h, da |-> blk.da]
Tries == Len(blk.txs) + Len(blk.skipped)

MCNext ==
  \/ \E c \in Configs : Setup(c, GenesisState(c))
  \/ \E da \in chain.da..MaxDa, gp \in GasPrices, cb \in Recipients :
        chain.h < MaxBlocks /\ ProduceBegin([h |-> chain.h + 1, da |-> da, gp |-> gp, cb |-> cb])
  \/ ImportDa(NextDa)
  \/ blk.forced # <<>> /\ ForcedTx(Head(blk.forced), McForced(Head(blk.forced)))
  \/ Len(blk.asks) < 1 /\ Ask(McAsk)
  \/ \E id \in TxIds : Tries < MaxTry /\ TryTx(id, McTry(id))
  \/ Mint(McMint)
  \/ ProduceEnd(McProd)
  \/ Validate([res |-> IF ReplayAccepts THEN "Accept" ELSE "Reject", dg |-> McDg, daCalls |-> Replayed.b.daCalls])
  \/ \E k \in {"mintAmount", "dupTx"} : Len(tampers) < 1 /\ Tamper([kind |-> k, res |-> "Reject", reason |-> TamperReason(k)])
  \/ Commit(McCommit)
  \/ Abort

MCInit == Init /\ hist = <<>>
MCSpec == MCInit /\ [][MCNext /\ UNCHANGED hist]_<<vars, act, hist>>

(* ---- B2: simulated behaviours printed as walks ------------------------------------------- *)
SimNext == MCNext /\ hist' = Append(hist, act')
SimSpec == MCInit /\ [][SimNext]_<<vars, act, hist>>
PrintWalk == (Len(hist) = WalkLen \/ (Len(hist) < WalkLen /\ phase = "committed" /\ chain.h = MaxBlocks)) => PrintT(<<"WALK", ToJson([cfg |-> cfg, steps |-> hist])>>)

EmitEdge == PrintT(<<"EDGE", ToJson([src |-> StateRec, act |-> act', dst |-> StateRec'])>>)
=============================================================================
