SPECIFICATION TSpec
CONSTANT KS = {"address", "asset_id", "contract_id", "script_code", "predicate_code"}
CONSTANT NKeys = 16777215
CONSTANT Values = {1, 2, 3, 4}
CONSTANT Default = 0
CONSTANT MaxT = 1000000
CONSTANT Retention = 2
CONSTANT MaxLen = 8
CONSTANT Back = 0
CONSTANT MaxLag = 1000
CONSTANT JumpKeys = {}
INVARIANT RoundTrip
INVARIANT EveryRefResolvesToOriginal
INVARIANT RegistriesAgree
INVARIANT CompressTotal
POSTCONDITION TraceAccepted
CHECK_DEADLOCK FALSE
