SPECIFICATION Spec
CONSTANT Part = "dense"
CONSTANT DKeys = {0, 1, 2}
CONSTANT DVals = {1, 2}
CONSTANT MaxLeaves = 3
CONSTANT MaxBatch = 2
CONSTANT PKs = {1}
CONSTANT Subs = {1}
CONSTANT SVals = {1}
VIEW View
INVARIANT DRootsExact
PROPERTY DAppendOnly
PROPERTY DOverwriteRejected
PROPERTY DFailedOpChangesNoRoot
CHECK_DEADLOCK FALSE
