SPECIFICATION TSpec
CONSTANT MaxH = 6
CONSTANT MaxSize = 7
INVARIANT PartitionInv
POSTCONDITION TraceAccepted
CHECK_DEADLOCK FALSE
