SPECIFICATION TSpec
CONSTANT NW = 2
CONSTANT NRd = 1
CONSTANT NReads = 2
CONSTANT FineRead = FALSE
INVARIANT NoTornRead
INVARIANT NotOlderThanCompletedWrite
POSTCONDITION TraceAccepted
CHECK_DEADLOCK FALSE
