---------------------------- MODULE MC_PeerManager ----------------------------
EXTENDS PeerManager, Json
View == vars
EmitEdge == PrintT(<<"EDGE", ToJson([src |-> StateRec, act |-> act', dst |-> StateRec'])>>)
\* quick tier: the edge cover leaves Decay out (it multiplies the score values of the graph by ~9);
\* Decay stays in the exhaustive model check, in the random histories and in the thorough edge cover
EmitEdgeNoDecay == act'.name # "Decay" /\ EmitEdge
=============================================================================
