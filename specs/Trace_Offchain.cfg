SPECIFICATION TSpec
CONSTANT NO = 2
CONSTANT NA = 2
CONSTANT NC = 6
CONSTANT NM = 4
CONSTANT Amts = {0, 1, 2, 3, 5, 8}
INVARIANT IndexesEqualUnspent
POSTCONDITION TraceAccepted
CHECK_DEADLOCK FALSE
