SPECIFICATION SpecKeep
CONSTANT NKeys = 2
CONSTANT Vals = {1, 2}
CONSTANT MaxH = 3
CONSTANT Policies = {"none", "full", "r1", "r2"}
VIEW View_
INVARIANT LatestExact
INVARIANT ViewExactOrNoHistory
PROPERTY RollbackRestoresPrevious
CHECK_DEADLOCK FALSE
