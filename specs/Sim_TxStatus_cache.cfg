SPECIFICATION SimSpec
CONSTANT NTx = 2
CONSTANT Kinds = {"Sub", "PSucc", "Succ", "PSq"}
CONSTANT Cap = 2
CONSTANT SubTtl = 3
CONSTANT CacheTtl = 2
CONSTANT Buf = 3
CONSTANT MaxSubs = 0
CONSTANT MaxPub = 12
CONSTANT MaxClock = 12
CONSTANT Ticks = {1, 2, 3}
INVARIANT EmitWalk
CHECK_DEADLOCK FALSE
