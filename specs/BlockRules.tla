---------------------------- MODULE BlockRules ----------------------------
(* C15 - only blocks that satisfy the consensus rules are accepted.                                      *)
(*   crates/services/consensus_module/poa/src/verifier.rs      verify_block_fields / verify_consensus    *)
(*   crates/services/consensus_module/src/block_verifier.rs    Verifier (dispatch on the seal kind)      *)
(*   crates/types/src/blockchain/header.rs, block.rs           block id, validate_transactions           *)
(* A valid block at height 5 on a fixed parent chain (heights 0..4) is built for one of the consensus    *)
(* configurations of the code (PoA single key, PoAV2 with a key schedule); `Mutate` applies one          *)
(* single-field mutation, `Mutate2` every PAIR of header-field mutations on distinct fields (a rule that *)
(* is only consulted when another field is unchanged must not hide), optionally followed by the          *)
(* adversary's repairs (fix level):                                                                      *)
(*   0 raw   1 + transaction root/count recomputed   2 + application hash recomputed                     *)
(*   3 + re-signed with the adversary's key   4 = 2 + re-signed with the authority's key for that height *)
(*   (a faulty or malicious authority: the field rules must hold for correctly signed blocks too).       *)
(* Hashes and signatures are abstracted as injective constructors (crypto strength is assumed):          *)
(*   Root(txs), HApp(application header), Id(consensus header), Sig(key, message).                       *)
(* VF / VC / TE transcribe what the code checks, in its order; `Rules` is the conjunction the property   *)
(* lists.  The harness builds each block with real transactions, headers and secp256k1 keys and logs     *)
(* the verdicts of the real verifier; the trace spec compares and the invariants judge.                  *)
EXTENDS Integers, Sequences, TLC

VARIABLES kind,        \* consensus configuration ("none" before New)
          blk,         \* the block under test
          sched,       \* key schedule of the verifier: [genesis |-> key, ov |-> set of <<height, key>>]
          mut,         \* the mutation that produced blk: [f, v, f2, v2, fix]  (f2 = "none" for a single one)
          vf, vc, te,  \* verdicts: verify_block_fields reason, verify_consensus, validate_transactions
          idc,         \* block id differs from the valid block's id
          same,        \* block (entity and seal) and verifier configuration are those of the valid case
          act
vars == <<kind, blk, sched, mut, vf, vc, te, idc, same>>

Kinds == {"PoA", "V2a", "V2b", "V2c", "V2d"}
\* parent chain: heights 0..4, each with block-merkle root, da height and time
ChainTop == 4
RootAt(h) == <<"root", h>>
DaAt(h)   == IF h = 0 THEN 0 ELSE h - 1          \* da heights 0,0,1,2,3
TimeAt(h) == 16 + h                              \* times 16..20
GenesisHeight == 0
GenesisDa == 0

SchedOf(k) ==
  CASE k = "PoA" -> [genesis |-> "K1", ov |-> {}]
    [] k = "V2a" -> [genesis |-> "K1", ov |-> {}]
    [] k = "V2b" -> [genesis |-> "K1", ov |-> {<<3, "K2">>}]
    [] k = "V2c" -> [genesis |-> "K1", ov |-> {<<3, "K2">>, <<5, "K3">>}]
    [] k = "V2d" -> [genesis |-> "K1", ov |-> {<<6, "K2">>}]
\* PoAV2::address_for_height: the override with the largest height <= h, else the genesis key
KeyFor(s, h) ==
  LET below == {e \in s.ov : e[1] <= h} IN
  IF below = {} THEN s.genesis
  ELSE (CHOOSE e \in below : \A o \in below : o[1] <= e[1])[2]

(* ---- abstract hashes / signatures -----------------------------------------------------------------*)
Root(txs) == <<"txroot", txs>>
HApp(b) == <<"app", b.da, b.cpv, b.stf, b.txCount, b.msgCount, b.txRoot, b.msgRoot, b.evRoot>>
Id(b) == <<"id", b.prevRoot, b.height, b.time, b.appHash>>
Sig(key, msg) == [ok |-> TRUE, key |-> key, msg |-> msg]
Garbage == [ok |-> FALSE, key |-> "none", msg |-> <<>>]
\* recovering from a signature over another message yields an unrelated key
Recover(sig, msg) == IF sig.ok /\ sig.msg = msg THEN sig.key ELSE "none"

Tx(i) == <<"tx", i>>
ValidTxs == <<Tx(1), Tx(2), Tx(3)>>
Unsigned ==
  LET b0 == [height |-> 5, prevRoot |-> RootAt(4), da |-> 3, time |-> 20, cpv |-> 0, stf |-> 0, msgCount |-> 0,
             msgRoot |-> "M0", evRoot |-> "E0", txRoot |-> Root(ValidTxs), txCount |-> 3, txs |-> ValidTxs,
             appHash |-> <<"tbd">>, seal |-> "PoA", sig |-> Garbage] IN
  [b0 EXCEPT !.appHash = HApp(b0)]
Valid(k) == [Unsigned EXCEPT !.sig = Sig(KeyFor(SchedOf(k), 5), Id(Unsigned))]

(* ---- what the code checks ---------------------------------------------------------------------------*)
TxsMatch(b) == b.txRoot = Root(b.txs) /\ b.txCount = Len(b.txs)            \* validate_transactions
\* Verifier::verify_block_fields: the first failing check names the verdict
VF(b) ==
  IF b.seal = "Genesis"
  THEN (IF b.prevRoot = RootAt(-2) /\ b.time = 0 /\ b.da = GenesisDa /\ b.height = GenesisHeight THEN "ok" ELSE "genesis")
  ELSE IF b.height = 0 THEN "zero"
  ELSE IF b.height - 1 > ChainTop THEN "notfound"
  ELSE IF b.prevRoot # RootAt(b.height - 1) THEN "prevroot"
  ELSE IF ~(b.da >= DaAt(b.height - 1)) THEN "da"
  ELSE IF ~(b.time >= TimeAt(b.height - 1)) THEN "time"
  ELSE IF b.appHash # HApp(b) THEN "apphash"
  ELSE IF ~TxsMatch(b) THEN "txs"
  ELSE "ok"
\* Verifier::verify_consensus
VC(b, s) == IF b.seal = "Genesis" THEN TRUE ELSE Recover(b.sig, Id(b)) = KeyFor(s, b.height)
Accepted == vf = "ok" /\ vc

(* ---- the conjunction the property lists, for a non-genesis block ------------------------------------*)
Rules(b, s) ==
  /\ b.height # 0
  /\ b.height - 1 <= ChainTop /\ b.prevRoot = RootAt(b.height - 1)
  /\ b.da >= DaAt(b.height - 1) /\ b.time >= TimeAt(b.height - 1)
  /\ b.appHash = HApp(b)
  /\ b.txRoot = Root(b.txs) /\ b.txCount = Len(b.txs)
  /\ b.seal = "PoA" /\ Recover(b.sig, Id(b)) = KeyFor(s, b.height)

(* ---- mutations ---------------------------------------------------------------------------------------*)
InsertAt(s, i, x) == SubSeq(s, 1, i) \o <<x>> \o SubSeq(s, i + 1, Len(s))       \* after position i (0 = front)
RemoveAt(s, i) == SubSeq(s, 1, i - 1) \o SubSeq(s, i + 1, Len(s))
SwapAt(s, i) == [s EXCEPT ![i] = s[i + 1], ![i + 1] = s[i]]
TxMuts  == {"txInsert", "txRemove", "txSwap", "txFlip"}
AppMuts == {"da", "cpv", "stf", "msgCount", "msgRoot", "evRoot", "txRoot", "txCount"}
ConsMuts == {"height", "prevRoot", "time", "appHash"}
Mutations ==
  {<<"height", 0>>, <<"height", 4>>, <<"height", 6>>,
   <<"prevRoot", 1>>, <<"prevRoot", 2>>, <<"da", 2>>, <<"da", 4>>, <<"time", 19>>, <<"time", 21>>,
   <<"appHash", 1>>, <<"txRoot", 1>>, <<"txCount", 2>>, <<"txCount", 4>>,
   <<"cpv", 1>>, <<"stf", 1>>, <<"msgCount", 1>>, <<"msgRoot", 1>>, <<"evRoot", 1>>,
   <<"txInsert", 0>>, <<"txInsert", 1>>, <<"txInsert", 3>>, <<"txRemove", 1>>, <<"txRemove", 3>>,
   <<"txSwap", 1>>, <<"txSwap", 2>>, <<"txFlip", 1>>, <<"txFlip", 2>>, <<"txFlip", 3>>,
   <<"sig", 1>>, <<"sig", 2>>, <<"sig", 3>>, <<"seal", 1>>, <<"sched", 1>>}
FixLevels(f) == IF f \in TxMuts THEN {0, 1, 2, 3, 4} ELSE IF f \in AppMuts THEN {0, 2, 3, 4}
                ELSE IF f \in ConsMuts THEN {0, 3, 4} ELSE {0}

Raw(b, f, v) ==
  CASE f = "height"   -> [b EXCEPT !.height = v]
    [] f = "prevRoot" -> [b EXCEPT !.prevRoot = IF v = 1 THEN RootAt(-1) ELSE RootAt(3)]
    [] f = "da"       -> [b EXCEPT !.da = v]
    [] f = "time"     -> [b EXCEPT !.time = v]
    [] f = "appHash"  -> [b EXCEPT !.appHash = <<"bogus app hash">>]
    [] f = "txRoot"   -> [b EXCEPT !.txRoot = <<"bogus", <<>> >>]
    [] f = "txCount"  -> [b EXCEPT !.txCount = v]
    [] f = "cpv"      -> [b EXCEPT !.cpv = 1]
    [] f = "stf"      -> [b EXCEPT !.stf = 1]
    [] f = "msgCount" -> [b EXCEPT !.msgCount = 1]
    [] f = "msgRoot"  -> [b EXCEPT !.msgRoot = "Mx"]
    [] f = "evRoot"   -> [b EXCEPT !.evRoot = "Ex"]
    [] f = "txInsert" -> [b EXCEPT !.txs = InsertAt(b.txs, v, Tx(9))]
    [] f = "txRemove" -> [b EXCEPT !.txs = RemoveAt(b.txs, v)]
    [] f = "txSwap"   -> [b EXCEPT !.txs = SwapAt(b.txs, v)]
    [] f = "txFlip"   -> [b EXCEPT !.txs[v] = Tx(100 + v)]
    [] f = "sig"      -> [b EXCEPT !.sig = CASE v = 1 -> Garbage
                                            [] v = 2 -> Sig("KA", Id(b))
                                            [] v = 3 -> Sig(b.sig.key, <<"other message">>)]
    [] f = "seal"     -> [b EXCEPT !.seal = "Genesis"]
    [] f = "sched"    -> b
\* F = the set of mutated fields
Fixed(b, F, fix, s) ==
  LET b1 == IF fix >= 1 /\ F \cap TxMuts # {} THEN [b EXCEPT !.txRoot = Root(b.txs), !.txCount = Len(b.txs)] ELSE b
      b2 == IF fix >= 2 /\ "appHash" \notin F THEN [b1 EXCEPT !.appHash = HApp(b1)] ELSE b1
  IN IF fix = 3 THEN [b2 EXCEPT !.sig = Sig("KA", Id(b2))]
     ELSE IF fix = 4 THEN [b2 EXCEPT !.sig = Sig(KeyFor(s, b2.height), Id(b2))] ELSE b2
\* "sched": the schedule entry that applies to the block's height names another key
SchedMut(s, h) ==
  LET below == {e \in s.ov : e[1] <= h} IN
  IF below = {} THEN [s EXCEPT !.genesis = "KA"]
  ELSE LET top == CHOOSE e \in below : \A o \in below : o[1] <= e[1] IN
       [s EXCEPT !.ov = (s.ov \ {top}) \cup {<<top[1], "KA">>}]

NoBlock == [height |-> -1]
NoMut == [f |-> "none", v |-> 0, f2 |-> "none", v2 |-> 0, fix |-> 0]
\* pairs of header-field mutations on two distinct fields (unordered: the first field name is the smaller one)
HeaderMuts == {m \in Mutations : m[1] \in AppMuts \cup ConsMuts}
FieldOrder == <<"height", "prevRoot", "time", "appHash", "da", "cpv", "stf", "msgCount", "msgRoot", "evRoot",
                "txRoot", "txCount">>
Pos(f) == CHOOSE i \in 1..Len(FieldOrder) : FieldOrder[i] = f
Pairs == {p \in HeaderMuts \X HeaderMuts : Pos(p[1][1]) < Pos(p[2][1])}
FixLevels2(f, f2) == IF {f, f2} \subseteq ConsMuts THEN {0, 3, 4} ELSE {0, 2, 3, 4}
Init == /\ kind = "none" /\ blk = NoBlock /\ sched = [genesis |-> "none", ov |-> {}] /\ mut = NoMut
        /\ vf = "none" /\ vc = FALSE /\ te = FALSE /\ idc = FALSE /\ same = TRUE
        /\ act = [name |-> "Init"]

Judge(b, s, k) ==
  /\ vf' = VF(b) /\ vc' = VC(b, s) /\ te' = TxsMatch(b)
  /\ idc' = (Id(b) # Id(Valid(k)))
  /\ same' = (b = Valid(k) /\ s = SchedOf(k))

New(k) ==
  /\ kind = "none"
  /\ kind' = k /\ blk' = Valid(k) /\ sched' = SchedOf(k) /\ mut' = NoMut
  /\ Judge(Valid(k), SchedOf(k), k)
  /\ act' = [name |-> "New", k |-> k]

Mutate(f, v, fix) ==
  /\ kind # "none" /\ mut = NoMut
  /\ LET b == Fixed(Raw(blk, f, v), {f}, fix, sched)
         s == IF f = "sched" THEN SchedMut(sched, blk.height) ELSE sched IN
       /\ blk' = b /\ sched' = s /\ Judge(b, s, kind)
  /\ mut' = [f |-> f, v |-> v, f2 |-> "none", v2 |-> 0, fix |-> fix] /\ kind' = kind
  /\ act' = [name |-> "Mutate", f |-> f, v |-> v, fix |-> fix]

Mutate2(f, v, f2, v2, fix) ==
  /\ kind # "none" /\ mut = NoMut
  /\ LET b == Fixed(Raw(Raw(blk, f, v), f2, v2), {f, f2}, fix, sched) IN
       /\ blk' = b /\ sched' = sched /\ Judge(b, sched, kind)
  /\ mut' = [f |-> f, v |-> v, f2 |-> f2, v2 |-> v2, fix |-> fix] /\ kind' = kind
  /\ act' = [name |-> "Mutate2", f |-> f, v |-> v, f2 |-> f2, v2 |-> v2, fix |-> fix]

Next == \/ \E k \in Kinds : New(k)
        \/ \E m \in Mutations : \E fix \in FixLevels(m[1]) : Mutate(m[1], m[2], fix)
        \/ \E p \in Pairs : \E fix \in FixLevels2(p[1][1], p[2][1]) :
             Mutate2(p[1][1], p[1][2], p[2][1], p[2][2], fix)
Spec == Init /\ [][Next]_<<vars, act>>

(* ---- the property -------------------------------------------------------------------------------------*)
\* a (non-genesis) block is accepted only if it satisfies every listed rule
AcceptedOnlyIfRules == (kind # "none" /\ Accepted) => Rules(blk, sched)
\* the unmodified block is accepted (the checks are not vacuous)
ValidAccepted == (kind # "none" /\ mut = NoMut) => (Accepted /\ te /\ ~idc)
\* any change to a transaction, its order or a header field (or the seal / the key schedule entry) changes the
\* block id or makes the block fail the checks
MutationDetected == (kind # "none" /\ ~same) => (~Accepted \/ idc)
\* Block::try_from_executed-style validity agrees with the verifier's transaction check
TxValidityAgrees == (kind # "none" /\ vf = "ok" /\ blk.seal = "PoA") => te

StateRec == [kind |-> kind, mut |-> mut, vf |-> vf, vc |-> vc, te |-> te, idc |-> idc, same |-> same]
=============================================================================
