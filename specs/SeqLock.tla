---------------------------- MODULE SeqLock ----------------------------
(* C42 — fuel-core-services `SeqLock` (crates/services/src/seqlock.rs), one writer and NRd readers  *)
(* at the granularity of the atomic steps of `SeqLockWriter::write` / `SeqLockReader::read`.         *)
(* Each step is named by the tag of the guarded yield point (`verif::yield_point(tag)`) that         *)
(* precedes it in the code; a thread's pc is the tag of the step it will perform next.               *)
(*                                                                                                  *)
(*   write(f):  w_inc1  sequence.fetch_add(1)                                                        *)
(*              w_data  f(&mut data) starts: the closure stores field 1 ...                          *)
(*              w_f2    ... and field 2 (yield point inside the harness's closure)                   *)
(*              w_inc2  sequence.fetch_add(1); write() returns                                       *)
(*   read():    r_call  the caller invokes read()                     (harness yield point)          *)
(*              r_load1 start = sequence.load(); odd -> yield_now, retry                             *)
(*              r_data  data = *lock.data.get()     (one copy; FineRead splits it per field: r_data2)*)
(*              r_load2 end = sequence.load(); start == end && even -> return data, else retry       *)
(* Write k stores k into both fields, so a value is "completely written" iff both fields are equal,  *)
(* and its age is the write index.  Sequential consistency only: the Ordering::* arguments and the    *)
(* fences are not modelled.                                                                          *)
EXTENDS Integers, TLC

CONSTANTS NW,        \* number of write() calls of the single writer
          NRd,       \* number of reader threads
          NReads,    \* read() calls per reader
          FineRead   \* TRUE: the reader copies the two fields in separate steps (finer than the code)

Readers == 1..NRd

VARIABLES seq, d,            \* the lock: sequence counter, data <<field1, field2>>
          wpc, wk,           \* writer: pc, index of the write in progress
          completed,         \* number of write() calls that have returned
          rpc, rstart, rcopy,\* readers: pc, local `start`, local `data`
          ret,               \* readers: [v |-> last value returned by read(), n |-> number of returns]
          rcas, retcas,      \* ghosts: `completed` when the current read started / when the read
                             \*         that returned ret[r].v started
          act

vars == <<seq, d, wpc, wk, completed, rpc, rstart, rcopy, ret, rcas, retcas>>

Even(x) == x % 2 = 0

Init == /\ seq = 0 /\ d = <<0, 0>>
        /\ wpc = "w_inc1" /\ wk = 1 /\ completed = 0
        /\ rpc = [r \in Readers |-> "r_call"]
        /\ rstart = [r \in Readers |-> 0]
        /\ rcopy = [r \in Readers |-> <<0, 0>>]
        /\ ret = [r \in Readers |-> [v |-> <<0, 0>>, n |-> 0]]
        /\ rcas = [r \in Readers |-> 0]
        /\ retcas = [r \in Readers |-> 0]
        /\ act = [name |-> "Init"]

RVars == <<rpc, rstart, rcopy, ret, rcas, retcas>>
WVars == <<wpc, wk, completed>>

(* ---- writer ---------------------------------------------------------------------------------------*)
WInc1 == /\ wpc = "w_inc1" /\ seq' = seq + 1 /\ wpc' = "w_data"
         /\ UNCHANGED <<d, wk, completed>>
WData == /\ wpc = "w_data" /\ d' = <<wk, d[2]>> /\ wpc' = "w_f2"
         /\ UNCHANGED <<seq, wk, completed>>
WF2   == /\ wpc = "w_f2" /\ d' = <<d[1], wk>> /\ wpc' = "w_inc2"
         /\ UNCHANGED <<seq, wk, completed>>
WInc2 == /\ wpc = "w_inc2" /\ seq' = seq + 1 /\ completed' = completed + 1
         /\ IF wk < NW THEN wk' = wk + 1 /\ wpc' = "w_inc1" ELSE wk' = wk /\ wpc' = "done"
         /\ d' = d
WStep == /\ (WInc1 \/ WData \/ WF2 \/ WInc2)
         /\ UNCHANGED RVars
         /\ act' = [name |-> "Step", t |-> 0, tag |-> wpc]

(* ---- readers --------------------------------------------------------------------------------------*)
\* ghost bookkeeping, shared with the trace spec's observe mode
GhostCall(r, c) == rcas' = [rcas EXCEPT ![r] = c] /\ retcas' = retcas
GhostReturn(r)  == retcas' = [retcas EXCEPT ![r] = rcas[r]] /\ rcas' = rcas
GhostNone       == rcas' = rcas /\ retcas' = retcas

RCall(r) == /\ rpc[r] = "r_call" /\ rpc' = [rpc EXCEPT ![r] = "r_load1"]
            /\ GhostCall(r, completed)
            /\ UNCHANGED <<rstart, rcopy, ret>>
RLoad1(r) == /\ rpc[r] = "r_load1" /\ rstart' = [rstart EXCEPT ![r] = seq]
             /\ rpc' = [rpc EXCEPT ![r] = IF Even(seq) THEN "r_data" ELSE "r_load1"]
             /\ GhostNone
             /\ UNCHANGED <<rcopy, ret>>
RData(r) == /\ rpc[r] = "r_data"
            /\ IF FineRead THEN /\ rcopy' = [rcopy EXCEPT ![r] = <<d[1], @[2]>>]
                                /\ rpc' = [rpc EXCEPT ![r] = "r_data2"]
                           ELSE /\ rcopy' = [rcopy EXCEPT ![r] = d]
                                /\ rpc' = [rpc EXCEPT ![r] = "r_load2"]
            /\ GhostNone
            /\ UNCHANGED <<rstart, ret>>
RData2(r) == /\ rpc[r] = "r_data2" /\ rcopy' = [rcopy EXCEPT ![r] = <<@[1], d[2]>>]
             /\ rpc' = [rpc EXCEPT ![r] = "r_load2"]
             /\ GhostNone
             /\ UNCHANGED <<rstart, ret>>
RLoad2(r) == /\ rpc[r] = "r_load2"
             /\ IF rstart[r] = seq /\ Even(rstart[r])
                THEN /\ ret' = [ret EXCEPT ![r] = [v |-> rcopy[r], n |-> @.n + 1]]
                     /\ rpc' = [rpc EXCEPT ![r] = IF ret[r].n + 1 < NReads THEN "r_call" ELSE "done"]
                     /\ GhostReturn(r)
                ELSE /\ ret' = ret /\ rpc' = [rpc EXCEPT ![r] = "r_load1"] /\ GhostNone
             /\ UNCHANGED <<rstart, rcopy>>
RStep(r) == /\ (RCall(r) \/ RLoad1(r) \/ RData(r) \/ RData2(r) \/ RLoad2(r))
            /\ UNCHANGED <<seq, d>> /\ UNCHANGED WVars
            /\ act' = [name |-> "Step", t |-> r, tag |-> rpc[r]]

Next == WStep \/ \E r \in Readers : RStep(r)
Spec == Init /\ [][Next]_<<vars, act>>

(* ---- the property ---------------------------------------------------------------------------------*)
\* a returned value was completely written by some write (or is the initial value), never a mixture
NoTornRead == \A r \in Readers : ret[r].v[1] = ret[r].v[2] /\ ret[r].v[1] \in 0..NW
\* and is not older than the last write that completed before that read started
NotOlderThanCompletedWrite == \A r \in Readers : ret[r].v[1] >= retcas[r]

StateRec == [seq |-> seq, d |-> d, wpc |-> wpc, wk |-> wk, completed |-> completed, rpc |-> rpc,
             rstart |-> rstart, rcopy |-> rcopy, ret |-> ret, rcas |-> rcas, retcas |-> retcas]
=============================================================================
