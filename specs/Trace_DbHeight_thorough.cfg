SPECIFICATION TSpec
CONSTANT MaxH = 6
INVARIANT ReportedExact
INVARIANT CommitsLinked
PROPERTY RejectedChangesNothing
POSTCONDITION TraceAccepted
CHECK_DEADLOCK FALSE
