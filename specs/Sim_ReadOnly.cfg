SPECIFICATION SimSpec
CONSTANT Coins = {1, 2, 3}
CONSTANT MaxBlocks = 100
CONSTANT SimDepth = 30
INVARIANT EmitWalk
CHECK_DEADLOCK FALSE
