SPECIFICATION SimSpec
CONSTANT MaxH = 3
CONSTANT TxSets <- MCTxSets
CONSTANT Clients = {1, 2}
CONSTANT Buf = 2
CONSTANT Lockers = {1, 2}
CONSTANT FailReqs <- MCFailReqs
CONSTANT MaxSeeds = 2
CONSTANT Subs = 3
CONSTANT SimDepth = 70
INVARIANT EmitWalk
CHECK_DEADLOCK FALSE
