SPECIFICATION TSpec
CONSTANT NW = 2
CONSTANT NRd = 2
CONSTANT NReads = 1
CONSTANT FineRead = FALSE
INVARIANT NoTornRead
INVARIANT NotOlderThanCompletedWrite
POSTCONDITION TraceAccepted
CHECK_DEADLOCK FALSE
