SPECIFICATION Spec
CONSTANT Configs <- MCConfigs
CONSTANT MaxHeight = 3
CONSTANT Useds = {0, 50, 100}
CONSTANT Caps = {100}
CONSTANT Bytess = {0, 10}
CONSTANT Fees = {0, 1000}
CONSTANT RecBytess = {0, 5}
CONSTANT Costs = {0, 500}
VIEW View
CONSTRAINT Bounded
INVARIANT ExecAboveMin
INVARIANT DaWithinBounds
PROPERTY BoundedChange
PROPERTY DaUpdateKeepsExec
PROPERTY SkippedRejected
PROPERTY HeightConsecutive
CHECK_DEADLOCK FALSE
