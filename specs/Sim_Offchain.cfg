SPECIFICATION SimSpec
CONSTANT NO = 2
CONSTANT NA = 2
CONSTANT NC = 5
CONSTANT NM = 4
CONSTANT Amts = {0, 1, 2, 5}
INVARIANT EmitWalk
INVARIANT IndexesEqualUnspent
CHECK_DEADLOCK FALSE
