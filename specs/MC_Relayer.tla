---------------------------- MODULE MC_Relayer ----------------------------
EXTENDS Relayer, Json
L(h, idx, id, k) == [h |-> h, idx |-> idx, id |-> id, k |-> k]
\* two DA chains over heights 1..6: several logs per height, log indexes out of order, ignored topics,
\* empty heights; with max_logs_per_rpc = 2 a wide page naturally carries "too many" logs
DaA == << <<L(1, 1, 11, "m"), L(1, 0, 12, "t")>>,
          << >>,
          <<L(3, 0, 31, "i"), L(3, 2, 32, "m"), L(3, 1, 33, "m")>>,
          <<L(4, 0, 41, "m")>>,
          << >>,
          <<L(6, 3, 61, "t"), L(6, 1, 62, "m")>> >>
DaB == << << >>, <<L(2, 5, 21, "m")>>, << >>, << >>, <<L(5, 1, 51, "t"), L(5, 0, 52, "m")>>, << >> >>
MCDaSet == {DaA, DaB}
MCDaOne == {DaA}
View == vars
=============================================================================
