SPECIFICATION Spec
CONSTANT Prevs = {0, 1, 3}
CONSTANT MaxN = 4
CONSTANT Costs = {0, 1, 2, 3}
CONSTANT Txs = {0, 1, 2}
CONSTANT GasLimits = {0, 2, 3, 5}
CONSTANT TxLimits = {1, 2, 3}
INVARIANT LargestFittingPrefix
INVARIANT WithinRange
CHECK_DEADLOCK FALSE
