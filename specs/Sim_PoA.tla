------------------------------ MODULE Sim_PoA ------------------------------
(* Simulation instance: `tlc -simulate` behaviours of PoA; the history keeps only the ENVIRONMENT actions, *)
(* which the harness replays on the real service (the task's and the sync task's own steps are taken by   *)
(* the real code and come back as port-call events).                                                      *)
EXTENDS MC_PoA
VARIABLE hist
SimInit == Init /\ hist = <<>>
SimNext == Next /\ hist' = IF act'.name \in EnvActs THEN Append(hist, act') ELSE hist
SimSpec == SimInit /\ [][SimNext]_<<vars, act, hist>>
EmitWalk == PrintT(<<"WALK", ToJson(hist)>>)
=============================================================================
