SPECIFICATION TSpec
CONSTANT N = 12
INVARIANT OnlyOwnedUnspent
INVARIANT NoExcluded
INVARIANT NoDup
INVARIANT AtMostMax
INVARIANT CoversTarget
INVARIANT ErrorOnlyWhenNoAdmissibleSelection
POSTCONDITION TraceAccepted
CHECK_DEADLOCK FALSE
