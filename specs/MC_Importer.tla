---------------------------- MODULE MC_Importer ----------------------------
EXTENDS Importer, Json
MCTxSets == {{}, {1}, {2}, {1, 2}}
MCTxSetsSmall == {{}, {1}, {1, 2}}
MCFailReqs == {[kind |-> "commit", b |-> [h |-> 1, k |-> "P", txs |-> {}], exe |-> "clean", ver |-> "ok", pub |-> "ok"],
               [kind |-> "exec", b |-> [h |-> 1, k |-> "P", txs |-> {}], exe |-> "clean", ver |-> "ok", pub |-> "ok"]}
View == vars
EmitEdge == PrintT(<<"EDGE", ToJson([src |-> StateRec, act |-> act', dst |-> StateRec'])>>)
=============================================================================
