SPECIFICATION Spec
CONSTANT CellSet <- CellsFour
CONSTANT NVals = 3
CONSTANT MaxDepth = 3
CONSTANT MaxDet = 2
CONSTANT Pols = {"F", "O"}
CONSTANT Offs = {1, 4}
CONSTANT Lens = {2}
CONSTANT Reads = TRUE
INVARIANT ReadYourWrites
INVARIANT AllLevels
INVARIANT Shape
PROPERTY ResultsExact
PROPERTY ConflictExact
CHECK_DEADLOCK FALSE
