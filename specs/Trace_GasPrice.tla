---------------------------- MODULE Trace_GasPrice ----------------------------
(* Trace validation of the real AlgorithmUpdaterV1.  Every event logs the call's arguments, *)
(* its result and ALL updater fields afterwards.                                            *)
EXTENDS GasPrice, Json, IOUtils, Sequences

Rec == ndJsonDeserialize(IOEnv.TRACE)
Strict == IOEnv.STRICT = "1"
VARIABLE l
tvars == <<vars, act, l>>
IsEv(e) == l <= Len(Rec) /\ Rec[l].ev = e /\ l' = l + 1
TInit == Init /\ l = 1

LoggedUnrec(s) == [x \in {s.unrec[i][1] : i \in 1..Len(s.unrec)} |->
                     s.unrec[CHOOSE i \in 1..Len(s.unrec) : s.unrec[i][1] = x][2]]
\* logged post-state = primed variables
Post(s) == /\ exec' = s.exec /\ da' = s.da /\ h' = s.h /\ rewards' = s.rewards /\ known' = s.known
           /\ proj' = s.proj /\ lp' = s.lp /\ slp' = s.slp /\ cpb' = s.cpb /\ activity' = s.activity
           /\ unrecBytes' = s.unrecBytes /\ unrec' = LoggedUnrec(s)

TReset == /\ IsEv("reset")
          /\ cfg' = None /\ exec' = 0 /\ da' = 0 /\ h' = 0 /\ rewards' = 0 /\ known' = 0 /\ proj' = 0
          /\ lp' = 0 /\ slp' = 0 /\ cpb' = 0 /\ activity' = 0 /\ unrec' = << >> /\ unrecBytes' = 0
          /\ act' = [name |-> "reset"]

TNew == /\ IsEv("New")
        /\ LET r == Rec[l] IN
             IF Strict THEN New(r.c) /\ Post(r.st)
             ELSE cfg' = r.c /\ Post(r.st) /\ act' = [name |-> "New", c |-> r.c]

TL2 == /\ IsEv("UpdateL2")
       /\ LET r == Rec[l] IN
            IF Strict THEN UpdateL2(r.height, r.used, r.cap, r.bytes, r.fee) /\ act'.res = r.res /\ Post(r.st)
            ELSE /\ cfg' = cfg /\ Post(r.st)
                 /\ act' = [name |-> "UpdateL2", height |-> r.height, used |-> r.used, cap |-> r.cap,
                            bytes |-> r.bytes, fee |-> r.fee, res |-> r.res]

TDa == /\ IsEv("UpdateDa")
       /\ LET r == Rec[l] IN
            IF Strict THEN UpdateDa(r.lo, r.hi, r.recBytes, r.cost) /\ act'.res = r.res /\ Post(r.st)
            ELSE /\ cfg' = cfg /\ Post(r.st)
                 /\ act' = [name |-> "UpdateDa", lo |-> r.lo, hi |-> r.hi, recBytes |-> r.recBytes,
                            cost |-> r.cost, res |-> r.res]

TNext == TReset \/ TNew \/ TL2 \/ TDa
TSpec == TInit /\ [][TNext]_tvars
TraceAccepted ==
  LET d == TLCGet("stats").diameter IN
  IF d - 1 = Len(Rec) THEN PrintT(<<"TRACE-ACCEPTED", Len(Rec)>>)
  ELSE PrintT(<<"TRACE-REJECTED", d>>) /\ PrintT(Rec[d])
=============================================================================
