---------------------------- MODULE Relayer ----------------------------
(* C29 — fuel-core-relayer: every DA block's events are recorded exactly once.            *)
(* Transcribes crates/services/relayer/src:                                                *)
(*   service/run.rs        run()               -> BeginSync .. EndSync (one sync attempt)  *)
(*   service/state.rs      EthSyncGap::page, EthSyncPage::advance_and_resize               *)
(*   service/get_logs.rs   download_logs (one RPC per page), write_logs (one               *)
(*                         insert_events per height of the downloaded page)                *)
(*   service.rs            AdaptivePageSizer::update, Task::run (retry_on_error),          *)
(*                         NotInitializedTask::new (Restart)                               *)
(*   storage.rs            RelayerDb::insert_events (one transaction per height)           *)
(* The DA chain (`da`) is constant during a run.  Ghosts: `wcnt` (writes per height in the *)
(* current attempt) and `first` (content of the first write of a height).                  *)
EXTENDS Integers, Sequences, FiniteSets, TLC

CONSTANTS MaxH,            \* DA heights 0..MaxH (bounds Next only)
          Deploys,         \* da_deploy_height values
          PageSizes,       \* log_page_size values
          MaxLogsSet,      \* max_logs_per_rpc values
          GrowThreshold,   \* AdaptivePageSizer.grow_threshold (50 in into_task)
          DaSet,           \* DA chains to choose from: sequence (index = height) of sequences of logs
          MaxRpc           \* bound on RPC calls per behaviour (model checking only)

\* a log: [h |-> block number, idx |-> log index inside the block, id |-> nonce, k |-> "m" | "t" | "i"]
\* ("m" MessageSent, "t" Transaction, "i" any other topic = EthEventLog::Ignored)

VARIABLES phase,           \* "unborn" | "idle" | "sync" | "dead"
          cfg,             \* [deploy, psize, maxlogs, retry]
          da,              \* the DA chain of this run
          remote,          \* finalized height read by the last build_eth
          synced,          \* the `synced` watch value [h, full]  (SyncState)
          db,              \* EventsHistory: function written height -> sequence of event ids
          gap,             \* needs_to_sync_eth() returned Some
          page,            \* Option<EthSyncPage>: [some, lo, hi, size, end]
          wq,              \* downloaded page being written: [lo, hi, next]  (next > hi: nothing pending)
          sizer,           \* AdaptivePageSizer [cur, max, ok]
          err,             \* the attempt failed (RPC or DB error) and is about to return
          stopping,        \* a stop signal ended the attempt; the task shuts down after it
          rpcs,            \* number of RPC calls so far (bound)
          wcnt, first,     \* ghosts
          act

vars == <<phase, cfg, da, remote, synced, db, gap, page, wq, sizer, err, stopping, rpcs, wcnt, first>>

Min(a, b) == IF a <= b THEN a ELSE b
Max(a, b) == IF a >= b THEN a ELSE b
SatSub1(x) == IF x > 0 THEN x - 1 ELSE 0

NoCfg  == [deploy |-> 0, psize |-> 0, maxlogs |-> 0, retry |-> FALSE]
NoPage == [some |-> FALSE, lo |-> 0, hi |-> 0, size |-> 0, end |-> 0]
NoWq   == [lo |-> 1, hi |-> 0, next |-> 1]
NoSync == [h |-> 0, full |-> FALSE]
Empty  == << >>            \* function with empty domain (also the empty sequence)

Written(h) == h \in DOMAIN db
\* the first height the relayer is responsible for: da_deploy_height.saturating_sub(1) + 1
Start == IF cfg.deploy = 0 THEN 1 ELSE cfg.deploy
DbLatest == IF DOMAIN db = {} THEN -1 ELSE CHOOSE h \in DOMAIN db : \A g \in DOMAIN db : g <= h

(* ---- DA content --------------------------------------------------------------------*)
DaAt(h) == IF h \in 1..Len(da) THEN da[h] ELSE << >>
RECURSIVE RangeLogs(_, _)
RangeLogs(lo, hi) == IF lo > hi THEN << >> ELSE DaAt(lo) \o RangeLogs(lo + 1, hi)

\* stable insertion sort by log index (sort_events_by_log_index: Vec::sort_by is stable)
RECURSIVE Insert(_, _)
Insert(s, x) == IF s = << >> THEN <<x>>
                ELSE IF s[Len(s)].idx <= x.idx THEN Append(s, x)
                ELSE Append(Insert(SubSeq(s, 1, Len(s) - 1), x), s[Len(s)])
RECURSIVE SortByIdx(_)
SortByIdx(s) == IF s = << >> THEN << >> ELSE Insert(SortByIdx(SubSeq(s, 1, Len(s) - 1)), s[Len(s)])
Ids(s) == [i \in 1..Len(s) |-> s[i].id]
IsFuel(x) == x.k # "i"

\* write_logs: sort the whole page by log index, drop ignored logs, group by the log's own block number
PageEvents(lo, hi, h) ==
  Ids(SelectSeq(SortByIdx(RangeLogs(lo, hi)), LAMBDA x : IsFuel(x) /\ x.h = h))
\* what the property says must be stored for height h
Ref(h) == Ids(SelectSeq(SortByIdx(DaAt(h)), IsFuel))

(* ---- EthSyncGap::page / EthSyncPage::advance_and_resize ----------------------------*)
MkPage(lo, hi, size, end) ==
  IF lo > hi \/ size = 0 THEN NoPage ELSE [some |-> TRUE, lo |-> lo, hi |-> hi, size |-> size, end |-> end]
FirstPage(oldest, latest, ps) == MkPage(oldest, Min(oldest + SatSub1(ps), latest), ps, latest)
AdvanceAndResize(p, new) == MkPage(p.lo + p.size, Min(p.hi + new, p.end), new, p.end)

(* ---- AdaptivePageSizer::update -----------------------------------------------------*)
Shrink(s) == [s EXCEPT !.ok = 0, !.cur = Max(s.cur \div 2, 1)]
Grow(s) ==
  LET ok1 == s.ok + 1 IN
  IF ok1 >= GrowThreshold /\ s.cur < s.max THEN
    LET grown == (s.cur * 125) \div 100 IN
    [s EXCEPT !.ok = 0, !.cur = IF grown > s.cur THEN Min(grown, s.max) ELSE Min(s.cur + 1, s.max)]
  ELSE [s EXCEPT !.ok = ok1]
UpdateSuccess(s, n) == IF n > cfg.maxlogs THEN Shrink(s) ELSE Grow(s)
UpdateError(s) == Shrink(s)

(* ---- ghosts ------------------------------------------------------------------------*)
Put(f, h, v) == [x \in DOMAIN f \cup {h} |-> IF x = h THEN v ELSE f[x]]
GhostWrite(h, ids) ==
  /\ wcnt' = Put(wcnt, h, (IF h \in DOMAIN wcnt THEN wcnt[h] ELSE 0) + 1)
  /\ first' = IF h \in DOMAIN first THEN first ELSE Put(first, h, ids)
GhostNewAttempt == wcnt' = Empty /\ first' = first
GhostSame == UNCHANGED <<wcnt, first>>

Init == /\ phase = "unborn" /\ cfg = NoCfg /\ da = << >> /\ remote = 0 /\ synced = NoSync /\ db = Empty
        /\ gap = FALSE /\ page = NoPage /\ wq = NoWq /\ sizer = [cur |-> 0, max |-> 0, ok |-> 0]
        /\ err = FALSE /\ stopping = FALSE /\ rpcs = 0 /\ wcnt = Empty /\ first = Empty
        /\ act = [name |-> "Init"]

(* NotInitializedTask::new + into_task *)
FreshSizer(c) == [cur |-> c.psize, max |-> c.psize, ok |-> 0]
BootSynced(c, d) == [h |-> IF DOMAIN d = {} THEN SatSub1(c.deploy)
                          ELSE CHOOSE h \in DOMAIN d : \A g \in DOMAIN d : g <= h,
                     full |-> FALSE]

New(dep, ps, ml, rt, d) ==
  /\ phase = "unborn"
  /\ phase' = "idle"
  /\ cfg' = [deploy |-> dep, psize |-> ps, maxlogs |-> ml, retry |-> rt]
  /\ da' = d
  /\ sizer' = FreshSizer(cfg')
  /\ synced' = BootSynced(cfg', db)
  /\ UNCHANGED <<remote, db, gap, page, wq, err, stopping, rpcs, wcnt, first>>
  /\ act' = [name |-> "New", deploy |-> dep, psize |-> ps, maxlogs |-> ml, retry |-> rt, da |-> d]

(* run(): build_eth (remote = finalized, local = observed), needs_to_sync_eth, first page *)
BeginSync(r) ==
  /\ phase = "idle"
  /\ phase' = "sync"
  /\ remote' = r
  /\ LET local == synced.h IN
       /\ gap' = ~(local >= r)
       /\ page' = IF gap' THEN FirstPage(local + 1, r, sizer.cur) ELSE NoPage
  /\ wq' = NoWq /\ err' = FALSE
  /\ GhostNewAttempt
  /\ UNCHANGED <<cfg, da, synced, db, sizer, stopping, rpcs>>
  /\ act' = [name |-> "BeginSync", remote |-> r]

CanRpc == phase = "sync" /\ gap /\ ~err /\ ~stopping /\ page.some /\ wq.next > wq.hi

(* eth_node.get_logs(page) succeeded with the logs of page.lo..page.hi plus `junk` extra logs *)
RpcSucc(junk, nm) ==
  /\ CanRpc
  /\ LET n == Len(RangeLogs(page.lo, page.hi)) + junk
         s1 == UpdateSuccess(sizer, n) IN
       /\ (nm = "RpcOk") <=> (n <= cfg.maxlogs)
       /\ sizer' = s1
       /\ page' = AdvanceAndResize(page, s1.cur)
       /\ wq' = [lo |-> page.lo, hi |-> page.hi, next |-> page.lo]
       /\ act' = [name |-> nm, lo |-> page.lo, hi |-> page.hi, junk |-> junk, n |-> n]
  /\ rpcs' = rpcs + 1
  /\ GhostSame
  /\ UNCHANGED <<phase, cfg, da, remote, synced, db, gap, err, stopping>>
RpcOk == RpcSucc(0, "RpcOk")
RpcTooMany(junk) == RpcSucc(junk, "RpcTooMany")

(* get_logs failed.  kind "resp": any non-Transport RpcError -> the sizer shrinks;           *)
(* kind "transport": TransportError::Transport -> re-wrapped, the sizer is NOT updated.      *)
RpcErr(kind) ==
  /\ CanRpc
  /\ sizer' = IF kind = "resp" THEN UpdateError(sizer) ELSE sizer
  /\ err' = TRUE
  /\ rpcs' = rpcs + 1
  /\ GhostSame
  /\ UNCHANGED <<phase, cfg, da, remote, synced, db, gap, page, wq, stopping>>
  /\ act' = [name |-> "RpcErr", lo |-> page.lo, hi |-> page.hi, kind |-> kind]

(* the stop signal arrives while an RPC is in flight: take_until ends the stream, the answer *)
(* is dropped (no sizer update, nothing written)                                            *)
RpcCancel ==
  /\ CanRpc
  /\ stopping' = TRUE
  /\ rpcs' = rpcs + 1
  /\ GhostSame
  /\ UNCHANGED <<phase, cfg, da, remote, synced, db, gap, page, wq, sizer, err>>
  /\ act' = [name |-> "RpcCancel", lo |-> page.lo, hi |-> page.hi]

CanWrite == phase = "sync" /\ ~err /\ wq.next <= wq.hi

(* write_logs: database.insert_events(height, events of that height) — one transaction *)
WriteHeight(h) ==
  /\ CanWrite /\ h = wq.next
  /\ LET ids == PageEvents(wq.lo, wq.hi, h) IN
       /\ db' = Put(db, h, ids)
       /\ GhostWrite(h, ids)
       /\ act' = [name |-> "WriteHeight", h |-> h, ids |-> ids]
  /\ wq' = [wq EXCEPT !.next = h + 1]
  /\ UNCHANGED <<phase, cfg, da, remote, synced, gap, page, sizer, err, stopping, rpcs>>

(* insert_events failed (storage error): `?` aborts write_logs *)
WriteFail(h) ==
  /\ CanWrite /\ h = wq.next
  /\ err' = TRUE
  /\ GhostSame
  /\ UNCHANGED <<phase, cfg, da, remote, synced, db, gap, page, wq, sizer, stopping, rpcs>>
  /\ act' = [name |-> "WriteFail", h |-> h]

(* run(): after download_logs returned: set_local(storage height) + update_synced, only if   *)
(* something is stored; Task::run: Stop on error unless retry_on_error                       *)
EndSync ==
  /\ phase = "sync"
  /\ ~gap \/ err \/ stopping \/ (~page.some /\ wq.next > wq.hi)
  /\ synced' = IF gap /\ DbLatest >= 0 THEN [h |-> DbLatest, full |-> DbLatest >= remote] ELSE synced
  /\ phase' = IF (err /\ ~cfg.retry) \/ stopping THEN "dead" ELSE "idle"
  /\ wq' = NoWq /\ page' = NoPage /\ err' = FALSE /\ gap' = FALSE
  /\ GhostSame
  /\ UNCHANGED <<cfg, da, remote, db, sizer, stopping, rpcs>>
  /\ act' = [name |-> "EndSync", res |-> IF err THEN "err" ELSE "ok"]

(* a new service over the same database (after the task died, or a restart of an idle one) *)
Restart ==
  /\ phase \in {"idle", "dead"}
  /\ phase' = "idle"
  /\ sizer' = FreshSizer(cfg)
  /\ synced' = BootSynced(cfg, db)
  /\ stopping' = FALSE
  /\ GhostSame
  /\ UNCHANGED <<cfg, da, remote, db, gap, page, wq, err, rpcs>>
  /\ act' = [name |-> "Restart"]

Next ==
  \/ \E dep \in Deploys, ps \in PageSizes, ml \in MaxLogsSet, rt \in BOOLEAN, d \in DaSet : New(dep, ps, ml, rt, d)
  \/ \E r \in 0..MaxH : BeginSync(r)
  \/ RpcOk
  \/ \E j \in {0, cfg.maxlogs + 1} : RpcTooMany(j)
  \/ \E k \in {"resp", "transport"} : RpcErr(k)
  \/ RpcCancel
  \/ \E h \in 0..MaxH : WriteHeight(h) \/ WriteFail(h)
  \/ EndSync
  \/ Restart

Spec == Init /\ [][Next]_<<vars, act>>

(* ---- the property --------------------------------------------------------------------*)
\* every height up to the synced height stores exactly the DA node's fuel events, by log index
StoredEqualsDa ==
  phase # "unborn" => \A h \in Start..synced.h : Written(h) /\ db[h] = Ref(h)
\* no height skipped, none written twice in one attempt, a re-write (after an aborted attempt) identical
NoGapNoRewrite ==
  /\ \A h \in DOMAIN wcnt : wcnt[h] <= 1
  /\ \A h \in DOMAIN db : h \in DOMAIN first /\ db[h] = first[h]
  /\ \A h \in DOMAIN db : h > Start => Written(h - 1)
\* the synced height never decreases (also across restarts over the same database)
SyncedMonotone ==
  [][phase # "unborn" /\ phase' # "unborn" => synced'.h >= synced.h]_vars

\* model-checking bound
Bounded == rpcs <= MaxRpc
=============================================================================
