SPECIFICATION Spec
CONSTANT CellSet <- CellsThree
CONSTANT NVals = 1
CONSTANT MaxDepth = 1
CONSTANT MaxDet = 1
CONSTANT Pols = {"F", "O"}
CONSTANT Offs = {}
CONSTANT Lens = {}
CONSTANT Reads = TRUE
VIEW View
INVARIANT ReadYourWrites
INVARIANT AllLevels
INVARIANT Shape
PROPERTY ResultsExact
PROPERTY ConflictExact
CHECK_DEADLOCK FALSE
