---------------------------- MODULE MC_Pagination ----------------------------
EXTENDS Pagination, Json
View == vars
EmitEdge == PrintT(<<"EDGE", ToJson([src |-> StateRec, act |-> act', dst |-> StateRec'])>>)
=============================================================================
