SPECIFICATION Spec
CONSTANT NTx = 1
CONSTANT Kinds = {"Sub", "PSucc", "Succ", "PSq"}
CONSTANT Cap = 2
CONSTANT SubTtl = 2
CONSTANT CacheTtl = 2
CONSTANT Buf = 1
CONSTANT MaxSubs = 2
CONSTANT MaxPub = 3
CONSTANT MaxClock = 2
CONSTANT Ticks = {1, 2}
VIEW View
INVARIANT TypeOK
INVARIANT InOrderNoDup
INVARIANT NothingAfterFinal
INVARIANT NothingAfterEnd
INVARIANT DrainedSubscriberGetsEverythingUpToFirstFinal
CHECK_DEADLOCK FALSE
