SPECIFICATION TSpec
CONSTANT PKeys = {1, 2}
CONSTANT DKeys = {1, 2, 3}
CONSTANT NTx = 2
CONSTANT Exps = {}
CONSTANT MaxT = 0
CONSTANT MaxEv = 0
CONSTANT Batches = {}
CONSTANT DTampers = {}
CONSTANT PTampers = {}
INVARIANT StatusChangedOnlyByValidBatch
INVARIANT OthersRejectedAndReported
INVARIANT NoUseAfterExpiration
POSTCONDITION TraceAccepted
CHECK_DEADLOCK FALSE
