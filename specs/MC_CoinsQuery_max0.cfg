SPECIFICATION Spec
CONSTANT N = 3
CONSTANT SlotKinds <- Slots3
CONSTANT Amts = {1, 2}
CONSTANT Foreign = FALSE
CONSTANT MaxT = 2
CONSTANT MaxMax = 0
CONSTANT MaxEx = 0
CONSTANT Algos = {"indexed"}
CONSTANT IndexedMinMax = 0
VIEW View
INVARIANT CoversTarget
CHECK_DEADLOCK FALSE
