---------------------------- MODULE Trace_DaSelect ----------------------------
(* Every case run through the real Producer::produce_and_execute_block_transactions is a      *)
(* Call / Step* / Finish event group: Call = parameters (parent DA height, finalized height    *)
(* returned by the relayer port, limits, cost/tx profile), Step = one                          *)
(* get_cost_and_transactions_number_for_block call of the real loop, Finish = the produced     *)
(* header's da_height or the error.  STRICT=1: the relayer calls and the result must be the    *)
(* transcribed loop's; STRICT=0: the result is bound to what was logged and only the           *)
(* invariants (LargestFittingPrefix, WithinRange) judge.                                       *)
EXTENDS DaSelect, Json, IOUtils

Rec == ndJsonDeserialize(IOEnv.TRACE)
Strict == IOEnv.STRICT = "1"

VARIABLE l
tvars == <<vars, act, l>>

IsEv(e) == l <= Len(Rec) /\ Rec[l].ev = e /\ l' = l + 1
TInit == Init /\ l = 1

TReset == /\ IsEv("reset")
          /\ pc' = "idle" /\ par' = NoPar /\ h' = 0 /\ best' = 0 /\ totc' = 0 /\ tott' = 0 /\ broke' = FALSE
          /\ result' = NoRes /\ act' = [name |-> "reset"]

TCall == /\ IsEv("Call")
         /\ LET r == Rec[l] IN
              IF Strict THEN Call(r.prev, r.fin, r.gl, r.tl, r.prof)
              ELSE /\ pc' = "loop"
                   /\ par' = [prev |-> r.prev, fin |-> r.fin, gl |-> r.gl, tl |-> r.tl, prof |-> r.prof]
                   /\ result' = NoRes
                   /\ UNCHANGED <<h, best, totc, tott, broke>>
                   /\ act' = [name |-> "Call"]

TStep == /\ IsEv("Step")
         /\ LET r == Rec[l] IN
              IF Strict THEN Step /\ act'.h = r.h /\ act'.c = r.c /\ act'.t = r.t
              ELSE UNCHANGED vars /\ act' = [name |-> "Step"]

TFinish == /\ IsEv("Finish")
           /\ LET r == Rec[l] IN
                IF Strict THEN Finish /\ result' = [res |-> r.res, da |-> r.da]
                ELSE /\ pc' = "done" /\ result' = [res |-> r.res, da |-> r.da]
                     /\ UNCHANGED <<par, h, best, totc, tott, broke>>
                     /\ act' = [name |-> "Finish"]

TNext == TReset \/ TCall \/ TStep \/ TFinish
TSpec == TInit /\ [][TNext]_tvars

TraceAccepted ==
  LET d == TLCGet("stats").diameter IN
  IF d - 1 = Len(Rec) THEN PrintT(<<"TRACE-ACCEPTED", Len(Rec)>>)
  ELSE PrintT(<<"TRACE-REJECTED", d>>) /\ PrintT(Rec[d])
=============================================================================
