SPECIFICATION Spec
CONSTANT MaxH = 4
CONSTANT MaxSize = 5
INVARIANT PartitionInv
CHECK_DEADLOCK FALSE
