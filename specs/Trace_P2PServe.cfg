SPECIFICATION TSpec
CONSTANTS
  MaxH = 5
  HdrLimits = {1, 3}
  TxLimits = {1, 2}
  PoolN = 2
  MaxIds = 3
PROPERTY TServedEqualsDatabase
PROPERTY TOverLimitRefused
PROPERTY TCodecFaithful
POSTCONDITION TraceAccepted
CHECK_DEADLOCK FALSE
