---------------------------- MODULE Merkle ----------------------------
(* C13 — dense (binary) Merkle accumulator of the block table                               *)
(*        crates/storage/src/blueprint/merklized.rs  (`Merklized` blueprint, FuelBlocks)    *)
(* C14 — sparse Merkle roots of sparse-merklized tables                                     *)
(*        crates/storage/src/blueprint/sparse.rs, merkle/sparse.rs (`Merkleized<Table>` of   *)
(*        the compression registry: one primary key = one table column)                     *)
(*                                                                                          *)
(* Hashes are abstract: a dense root IS the sequence of leaves it commits to, a sparse root  *)
(* IS the entry set (sub-key -> value) it commits to.  The harness maps every real 32-byte   *)
(* root to that abstract value through reference roots computed from scratch (its own        *)
(* RFC-6962 routine / fuel_merkle's `root_from_set`); a root that is no reference root is    *)
(* logged as unknown (<<-1>> / all -1) and can equal nothing the spec expects.               *)
(* One action per public call of StorageMutate / StorageBatchMutate on the table.            *)
EXTENDS Integers, Sequences, FiniteSets, TLC

CONSTANTS Part,          \* "dense" | "sparse" | "both": which family of actions is enabled
          DKeys,         \* dense: block heights (small naturals)
          DVals,         \* dense: block variants 1..n  (leaf id = key * 10 + variant)
          MaxLeaves,     \* dense: bound on the number of appended leaves
          MaxBatch,      \* dense: bound on the length of a batch
          PKs,           \* sparse: primary keys (tables)
          Subs,          \* sparse: entry keys inside one primary key
          SVals          \* sparse: value ids 1..n (0 = absent)

Leaf(k, v) == k * 10 + v
KeyOfLeaf(x) == x \div 10
NoMeta == [has |-> FALSE, seq |-> <<>>]
Meta(s) == [has |-> TRUE, seq |-> s]
EmptySet == [s \in Subs |-> 0]

VARIABLES dtab,          \* dense: [DKeys -> 0 | leaf id]     stored block per height
          dmeta,         \* dense: [DKeys -> [has, seq]]       DenseMetadataKey::Primary(k)
          dlatest,       \* dense: [has, seq]                  DenseMetadataKey::Latest
          gl,            \* ghost: sequence of leaves accepted so far (insertion order)
          stab,          \* sparse: [PKs -> [Subs -> 0..n]]    table content per primary key
          sroot,         \* sparse: [PKs -> [Subs -> -1..n]]   MerkleRootStorage::root(pk)
          smeta,         \* sparse: [PKs -> BOOLEAN]           metadata entry present
          gtab,          \* ghost: plain map model of the sparse tables
          act

dvars == <<dtab, dmeta, dlatest, gl>>
svars == <<stab, sroot, smeta, gtab>>
vars == <<dvars, svars>>

Init ==
  /\ dtab = [k \in DKeys |-> 0] /\ dmeta = [k \in DKeys |-> NoMeta] /\ dlatest = NoMeta /\ gl = <<>>
  /\ stab = [p \in PKs |-> EmptySet] /\ sroot = [p \in PKs |-> EmptySet]
  /\ smeta = [p \in PKs |-> FALSE] /\ gtab = [p \in PKs |-> EmptySet]
  /\ act = [name |-> "Init"]

(* ======================= dense: Merklized blueprint ==================================== *)
Dense == Part \in {"dense", "both"}
\* insert_into_tree: load the tree at Latest.version, push the encoded value, write
\* Primary(key) and Latest := (leaves_count, root)
PushLeaf(tab, meta, latest, k, x) ==
  LET s == Append(latest.seq, x) IN
  [tab |-> [tab EXCEPT ![k] = x], meta |-> [meta EXCEPT ![k] = Meta(s)], latest |-> Meta(s)]
DState == [tab |-> dtab, meta |-> dmeta, latest |-> dlatest]
\* put / replace: an existing entry is rejected before anything is written
\* ("It is not allowed to remove or override entries in the merklelized table")
TryPush(st, k, x) ==
  IF st.tab[k] # 0 THEN [ok |-> FALSE, st |-> st]
  ELSE [ok |-> TRUE, st |-> PushLeaf(st.tab, st.meta, st.latest, k, x)]
SetD(st) == dtab' = st.tab /\ dmeta' = st.meta /\ dlatest' = st.latest

\* ghost: the reference accumulator accepts a leaf iff its key has no leaf yet
GKeys(s) == {KeyOfLeaf(s[i]) : i \in 1..Len(s)}
GhostPush(k, x) == gl' = IF k \in GKeys(gl) THEN gl ELSE Append(gl, x)
RECURSIVE GFold(_, _)
GFold(s, items) ==          \* batch = replace one by one, stopping at the first rejected key
  IF items = <<>> THEN s
  ELSE LET x == Head(items) IN
       IF KeyOfLeaf(x) \in GKeys(s) THEN s ELSE GFold(Append(s, x), Tail(items))
GhostBatch(items) == gl' = GFold(gl, items)
GhostDSame == gl' = gl

DInsert(k, v) ==
  /\ Dense /\ Len(dlatest.seq) < MaxLeaves
  /\ LET r == TryPush(DState, k, Leaf(k, v)) IN
       SetD(r.st) /\ act' = [name |-> "DInsert", k |-> k, v |-> v, res |-> IF r.ok THEN "ok" ELSE "err"]
  /\ GhostPush(k, Leaf(k, v)) /\ UNCHANGED svars
DReplace(k, v) ==
  /\ Dense /\ Len(dlatest.seq) < MaxLeaves
  /\ LET r == TryPush(DState, k, Leaf(k, v)) IN
       SetD(r.st) /\ act' = [name |-> "DReplace", k |-> k, v |-> v, res |-> IF r.ok THEN "none" ELSE "err"]
  /\ GhostPush(k, Leaf(k, v)) /\ UNCHANGED svars
\* take / delete: `remove` fails when the key exists, otherwise nothing to do
DTake(k) ==
  /\ Dense /\ UNCHANGED <<dtab, dmeta, dlatest, svars>> /\ GhostDSame
  /\ act' = [name |-> "DTake", k |-> k, res |-> IF dtab[k] # 0 THEN "err" ELSE "none"]
DRemove(k) ==
  /\ Dense /\ UNCHANGED <<dtab, dmeta, dlatest, svars>> /\ GhostDSame
  /\ act' = [name |-> "DRemove", k |-> k, res |-> IF dtab[k] # 0 THEN "err" ELSE "ok"]
\* init / insert batch: `replace` element by element, `?` on the first error
RECURSIVE DFold(_, _)
DFold(st, items) ==
  IF items = <<>> THEN [ok |-> TRUE, st |-> st]
  ELSE LET r == TryPush(st, KeyOfLeaf(Head(items)), Head(items)) IN
       IF r.ok THEN DFold(r.st, Tail(items)) ELSE [ok |-> FALSE, st |-> st]
DBatch(name, items) ==
  /\ Dense /\ Len(dlatest.seq) + Len(items) <= MaxLeaves
  /\ LET r == DFold(DState, items) IN
       SetD(r.st) /\ act' = [name |-> name, items |-> items, res |-> IF r.ok THEN "ok" ELSE "err"]
  /\ GhostBatch(items) /\ UNCHANGED svars
DBatchInit(items) == DBatch("DBatchInit", items)
DBatchInsert(items) == DBatch("DBatchInsert", items)
DBatchRemove(ks) ==
  /\ Dense /\ UNCHANGED <<dtab, dmeta, dlatest, svars>> /\ GhostDSame
  /\ act' = [name |-> "DBatchRemove", ks |-> ks,
             res |-> IF \E i \in 1..Len(ks) : dtab[ks[i]] # 0 THEN "err" ELSE "ok"]
\* commit the working transaction into the base store and open a new one
DCommit == Dense /\ UNCHANGED vars /\ act' = [name |-> "DCommit"]

Leaves == {Leaf(k, v) : k \in DKeys, v \in DVals}
SeqsUpTo(S, n) == UNION {[1..m -> S] : m \in 0..n}
DNext ==
  \/ \E k \in DKeys : \/ \E v \in DVals : DInsert(k, v) \/ DReplace(k, v)
                      \/ DTake(k) \/ DRemove(k)
  \/ \E items \in SeqsUpTo(Leaves, MaxBatch) : DBatchInit(items) \/ DBatchInsert(items)
  \/ \E ks \in SeqsUpTo(DKeys, MaxBatch) : DBatchRemove(ks)
  \/ DCommit

(* ======================= sparse: Sparse blueprint ====================================== *)
SparseOn == Part \in {"sparse", "both"}
Over(old, f) == [s \in Subs |-> IF f[s] # 0 THEN f[s] ELSE old[s]]
Minus(old, S) == [s \in Subs |-> IF s \in S THEN 0 ELSE old[s]]
Dom(f) == {s \in Subs : f[s] # 0}

GhostSPut(p, f) == gtab' = [gtab EXCEPT ![p] = Over(@, f)]
GhostSDel(p, S) == gtab' = [gtab EXCEPT ![p] = Minus(@, S)]
GhostSSame == gtab' = gtab
One(s, v) == [x \in Subs |-> IF x = s THEN v ELSE 0]

\* put / replace: storage.put|replace, then insert_into_tree (load tree at the recorded root or
\* the empty root, insert, write metadata)
SPutCore(p, s, v) ==
  /\ stab' = [stab EXCEPT ![p][s] = v]
  /\ sroot' = [sroot EXCEPT ![p][s] = v]
  /\ smeta' = [smeta EXCEPT ![p] = TRUE]
  /\ GhostSPut(p, One(s, v)) /\ UNCHANGED dvars
SInsert(p, s, v) ==
  SparseOn /\ SPutCore(p, s, v) /\ act' = [name |-> "SInsert", pk |-> p, s |-> s, v |-> v, res |-> 0]
SReplace(p, s, v) ==
  SparseOn /\ SPutCore(p, s, v)
  /\ act' = [name |-> "SReplace", pk |-> p, s |-> s, v |-> v, res |-> stab[p][s]]
\* take / delete: storage.take|delete, then remove_from_tree (only when metadata exists; the
\* metadata entry is removed when the tree becomes empty)
SDelCore(p, S) ==
  /\ stab' = [stab EXCEPT ![p] = Minus(@, S)]
  /\ IF smeta[p]
     THEN /\ sroot' = [sroot EXCEPT ![p] = Minus(@, S)]
          /\ smeta' = [smeta EXCEPT ![p] = (Dom(Minus(sroot[p], S)) # {})]
     ELSE UNCHANGED <<sroot, smeta>>
  /\ GhostSDel(p, S) /\ UNCHANGED dvars
STake(p, s) ==
  SparseOn /\ SDelCore(p, {s}) /\ act' = [name |-> "STake", pk |-> p, s |-> s, res |-> stab[p][s]]
SRemove(p, s) ==
  SparseOn /\ SDelCore(p, {s}) /\ act' = [name |-> "SRemove", pk |-> p, s |-> s, res |-> 0]
\* init: empty set -> Ok; metadata present -> Err("already initialized"); else the root is the
\* from-set root of exactly the given entries
SBatchInit(p, f) ==
  /\ SparseOn
  /\ IF Dom(f) = {} THEN UNCHANGED vars /\ act' = [name |-> "SBatchInit", pk |-> p, f |-> f, res |-> "ok"]
     ELSE IF smeta[p] THEN UNCHANGED vars /\ act' = [name |-> "SBatchInit", pk |-> p, f |-> f, res |-> "err"]
     ELSE /\ stab' = [stab EXCEPT ![p] = Over(@, f)]
          /\ sroot' = [sroot EXCEPT ![p] = f]
          /\ smeta' = [smeta EXCEPT ![p] = TRUE]
          /\ GhostSPut(p, f) /\ UNCHANGED dvars
          /\ act' = [name |-> "SBatchInit", pk |-> p, f |-> f, res |-> "ok"]
SBatchInsert(p, f) ==
  /\ SparseOn
  /\ IF Dom(f) = {} THEN UNCHANGED vars
     ELSE /\ stab' = [stab EXCEPT ![p] = Over(@, f)]
          /\ sroot' = [sroot EXCEPT ![p] = Over(@, f)]
          /\ smeta' = [smeta EXCEPT ![p] = TRUE]
          /\ GhostSPut(p, f) /\ UNCHANGED dvars
  /\ act' = [name |-> "SBatchInsert", pk |-> p, f |-> f, res |-> "ok"]
\* remove batch: tree.delete for every key on the tree loaded at the recorded (or empty) root
SBatchRemove(p, S) ==
  /\ SparseOn
  /\ IF S = {} THEN UNCHANGED vars
     ELSE /\ stab' = [stab EXCEPT ![p] = Minus(@, S)]
          /\ sroot' = [sroot EXCEPT ![p] = Minus(@, S)]
          /\ smeta' = [smeta EXCEPT ![p] = (Dom(Minus(sroot[p], S)) # {})]
          /\ GhostSDel(p, S) /\ UNCHANGED dvars
  /\ act' = [name |-> "SBatchRemove", pk |-> p, ss |-> S, res |-> "ok"]
SCommit == SparseOn /\ UNCHANGED vars /\ act' = [name |-> "SCommit"]

SNext ==
  \/ \E p \in PKs, s \in Subs : \/ \E v \in SVals : SInsert(p, s, v) \/ SReplace(p, s, v)
                                \/ STake(p, s) \/ SRemove(p, s)
  \/ \E p \in PKs, f \in [Subs -> {0} \cup SVals] : SBatchInit(p, f) \/ SBatchInsert(p, f)
  \/ \E p \in PKs, S \in SUBSET Subs : SBatchRemove(p, S)
  \/ SCommit

Next == DNext \/ SNext
Spec == Init /\ [][Next]_<<vars, act>>

(* ======================= C13 ============================================================ *)
\* position of key k in the accepted sequence (0 = never accepted)
PosOf(k) == IF k \in GKeys(gl) THEN CHOOSE i \in 1..Len(gl) : KeyOfLeaf(gl[i]) = k ELSE 0
\* the blocks currently stored at the first n accepted heights, in insertion order
StoredUpTo(n) == [i \in 1..n |-> dtab[KeyOfLeaf(gl[i])]]
\* the root recorded for block i is the root over the (stored) blocks 0..=i in insertion order;
\* the latest root is the root over all of them; a block is stored iff it was accepted
DRootsExact ==
  /\ \A k \in DKeys :
       /\ dmeta[k].has = (k \in GKeys(gl))
       /\ dmeta[k].has => dmeta[k].seq = StoredUpTo(PosOf(k)) /\ dtab[k] = gl[PosOf(k)]
       /\ ~dmeta[k].has => dtab[k] = 0
  /\ dlatest.seq = StoredUpTo(Len(gl))
  /\ dlatest.has = (gl # <<>>)
IsPrefix(s, t) == Len(s) <= Len(t) /\ SubSeq(t, 1, Len(s)) = s
NotReset == act'.name # "reset"
\* a recorded root never changes and the accumulator only grows
DAppendOnly == [][NotReset =>
  /\ \A k \in DKeys : dmeta[k].has => dmeta'[k] = dmeta[k]
  /\ IsPrefix(dlatest.seq, dlatest'.seq)]_<<vars, act>>
DSingle == {"DInsert", "DReplace", "DTake", "DRemove", "DBatchRemove"}
\* removing / replacing / overwriting a stored block fails ...
DOverwriteRejected == [][
  /\ act'.name \in {"DInsert", "DReplace", "DTake", "DRemove"} =>
       (act'.res = "err") = (act'.k \in GKeys(gl))
  /\ act'.name = "DBatchRemove" =>
       (act'.res = "err") = (\E i \in 1..Len(act'.ks) : act'.ks[i] \in GKeys(gl))
  /\ act'.name \in {"DBatchInit", "DBatchInsert"} =>
       (act'.res = "err") = (Len(GFold(gl, act'.items)) < Len(gl) + Len(act'.items))
  ]_<<vars, act>>
\* ... and leaves every recorded root unchanged
DFailedOpChangesNoRoot == [][
  (act'.name \in DSingle /\ act'.res = "err") => dmeta' = dmeta /\ dlatest' = dlatest
  ]_<<vars, act>>

(* ======================= C14 ============================================================ *)
\* the recorded root of every primary key is the from-scratch root of its current entries
SRootsExact == \A p \in PKs : sroot[p] = stab[p]
STableExact == stab = gtab
\* operations on one primary key never change another key's root (or entries)
SOtherKeysUntouched == [][
  act'.name \in {"SInsert", "SReplace", "STake", "SRemove", "SBatchInit", "SBatchInsert", "SBatchRemove"} =>
    \A q \in PKs \ {act'.pk} : sroot'[q] = sroot[q] /\ stab'[q] = stab[q]
  ]_<<vars, act>>
SFailedOpChangesNoRoot == [][
  (act'.name = "SBatchInit" /\ act'.res = "err") => sroot' = sroot /\ stab' = stab
  ]_<<vars, act>>

\* no operation panics (trace validation adds the field `panic` to the label of a logged event)
NoPanic == [][("panic" \in DOMAIN act') => ~act'.panic]_<<vars, act>>

StateRec == [dtab |-> dtab, dmeta |-> dmeta, dlatest |-> dlatest, stab |-> stab, sroot |-> sroot, smeta |-> smeta]
=============================================================================
