SPECIFICATION Spec
CONSTANT MaxH = 6
VIEW View
INVARIANT TypeOK
INVARIANT ReportedExact
INVARIANT CommitsLinked
PROPERTY RejectedChangesNothing
CHECK_DEADLOCK FALSE
