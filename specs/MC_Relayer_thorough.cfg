SPECIFICATION Spec
CONSTANT MaxH = 7
CONSTANT Deploys = {0, 1, 2}
CONSTANT PageSizes = {1, 2, 3, 4, 5, 6}
CONSTANT MaxLogsSet = {2, 4}
CONSTANT GrowThreshold = 2
CONSTANT DaSet <- MCDaSet
CONSTANT MaxRpc = 7
VIEW View
CONSTRAINT Bounded
INVARIANT StoredEqualsDa
INVARIANT NoGapNoRewrite
PROPERTY SyncedMonotone
CHECK_DEADLOCK FALSE
