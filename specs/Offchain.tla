---------------------------- MODULE Offchain ----------------------------
(* C36 — the off-chain (GraphQL) indexes follow the on-chain state.                                    *)
(* crates/fuel-core/src/graphql_api/worker_service.rs  process_executor_events                         *)
(*                      graphql_api/indexation/balances.rs, coins_to_spend.rs, storage/coins.rs         *)
(*                      service/adapters/graphql_api/off_chain.rs (balance, coins_to_spend_index)       *)
(*                                                                                                     *)
(* One action per executor event, transcribing what process_executor_events does with it inside the    *)
(* block's storage transaction (balances::update, coins_to_spend::update, OwnedCoins / OwnedMessageIds),*)
(* and CommitBlock (transaction.commit()), after which the queries of the read side are answered from  *)
(* the tables (`view`).  Ghost variables coinSt/coinAt/msgSt/msgAt are the on-chain truth: which coins  *)
(* and messages exist unspent.  Histories are the ones an executor can emit: a coin / message is        *)
(* created once (fresh id) and consumed at most once, with the attributes it was created with          *)
(* (exactness of the executor's events is property C02).                                               *)
EXTENDS Integers, Sequences, FiniteSets, TLC

CONSTANTS NO,            \* owners 1..NO
          NA,            \* assets 0..NA-1, asset 0 is the base asset
          NC,            \* coin ids 1..NC
          NM,            \* message nonces 1..NM
          Amts           \* amounts

Owners == 1..NO
Assets == 0..(NA - 1)
Base   == 0
CIds   == 1..NC
MIds   == 1..NM

VARIABLES coinSt, coinAt,    \* ghost: "new" / "unspent" / "spent", attributes [o, a, v] of a coin
          msgSt, msgAt,      \* ghost: same for messages, attributes [o, v, r] (r: retryable, i.e. has data)
          bal,               \* table CoinBalances      : [Owners \X Assets -> amount]
          mbal,              \* table MessageBalances   : [Owners -> [r, n]]
          ownedC,            \* table OwnedCoins        : set of <<owner, coin id>>
          ownedM,            \* table OwnedMessageIds   : set of <<owner, nonce>>
          c2s,               \* table CoinsToSpendIndex : set of keys [f, o, a, v, k, id]
          view,              \* answers of the read side after the last commit
          junk,              \* number of table entries that belong to no owner / asset / resource of the universe
          dirty,             \* events applied since the last commit
          act
chain == <<coinSt, coinAt, msgSt, msgAt>>
tables == <<bal, mbal, ownedC, ownedM, c2s>>
vars == <<coinSt, coinAt, msgSt, msgAt, bal, mbal, ownedC, ownedM, c2s, view, junk, dirty>>

NoCoin == [o |-> 0, a |-> 0, v |-> 0]
NoMsg  == [o |-> 0, v |-> 0, r |-> FALSE]

\* CoinsToSpendIndexKey: retryable flag byte (0x00 retryable message, 0x01 anything else), owner, asset, amount,
\* kind ("c" coin / "m" message) and id
RETRYABLE == 0
NON_RETRYABLE == 1
CoinKey(id, c) == [f |-> NON_RETRYABLE, o |-> c.o, a |-> c.a, v |-> c.v, k |-> "c", id |-> id]
MsgKey(n, m)   == [f |-> IF m.r THEN RETRYABLE ELSE NON_RETRYABLE, o |-> m.o, a |-> Base, v |-> m.v, k |-> "m", id |-> n]

(* ---- read side (off_chain.rs) --------------------------------------------*)
\* OffChainDatabase::balance: coins + (base asset) the non-retryable message balance
TotalOf(b, mb, o, a) == b[<<o, a>>] + (IF a = Base THEN mb[o].n ELSE 0)
\* coins_to_spend_index: the NON_RETRYABLE ++ owner ++ asset prefix of the index
SpendableOf(ix, o, a) == {[k |-> e.k, id |-> e.id, v |-> e.v] : e \in {x \in ix : x.f = NON_RETRYABLE /\ x.o = o /\ x.a = a}}
ViewOf(b, mb, oc, om, ix) ==
  [total |-> [p \in Owners \X Assets |-> TotalOf(b, mb, p[1], p[2])],
   qc    |-> [o \in Owners |-> {e[2] : e \in {x \in oc : x[1] = o}}],
   qm    |-> [o \in Owners |-> {e[2] : e \in {x \in om : x[1] = o}}],
   q2s   |-> [p \in Owners \X Assets |-> SpendableOf(ix, p[1], p[2])]]

ZeroBal  == [p \in Owners \X Assets |-> 0]
ZeroMBal == [o \in Owners |-> [r |-> 0, n |-> 0]]

Init == /\ coinSt = [i \in CIds |-> "new"] /\ coinAt = [i \in CIds |-> NoCoin]
        /\ msgSt = [i \in MIds |-> "new"] /\ msgAt = [i \in MIds |-> NoMsg]
        /\ bal = ZeroBal /\ mbal = ZeroMBal /\ ownedC = {} /\ ownedM = {} /\ c2s = {}
        /\ view = ViewOf(ZeroBal, ZeroMBal, {}, {}, {})
        /\ junk = 0 /\ dirty = FALSE
        /\ act = [name |-> "Init"]

(* ---- ghost: the on-chain effect of an event -------------------------------*)
GhostCoinCreated(id, o, a, v) ==
  /\ coinSt' = [coinSt EXCEPT ![id] = "unspent"] /\ coinAt' = [coinAt EXCEPT ![id] = [o |-> o, a |-> a, v |-> v]]
  /\ UNCHANGED <<msgSt, msgAt>>
GhostCoinConsumed(id) ==
  /\ coinSt' = [coinSt EXCEPT ![id] = "spent"] /\ coinAt' = [coinAt EXCEPT ![id] = NoCoin]
  /\ UNCHANGED <<msgSt, msgAt>>
GhostMessageImported(n, o, v, r) ==
  /\ msgSt' = [msgSt EXCEPT ![n] = "unspent"] /\ msgAt' = [msgAt EXCEPT ![n] = [o |-> o, v |-> v, r |-> r]]
  /\ UNCHANGED <<coinSt, coinAt>>
GhostMessageConsumed(n) ==
  /\ msgSt' = [msgSt EXCEPT ![n] = "spent"] /\ msgAt' = [msgAt EXCEPT ![n] = NoMsg]
  /\ UNCHANGED <<coinSt, coinAt>>

(* ---- process_executor_events, one event at a time --------------------------*)
\* Event::CoinCreated: increase_coin_balance; add_coin; OwnedCoins.insert
CoinCreated(id, o, a, v) ==
  /\ coinSt[id] = "new"
  /\ GhostCoinCreated(id, o, a, v)
  /\ bal' = [bal EXCEPT ![<<o, a>>] = @ + v]
  /\ c2s' = c2s \cup {CoinKey(id, [o |-> o, a |-> a, v |-> v])}
  /\ ownedC' = ownedC \cup {<<o, id>>}
  /\ UNCHANGED <<mbal, ownedM, view, junk>> /\ dirty' = TRUE
  /\ act' = [name |-> "CoinCreated", id |-> id, o |-> o, ast |-> a, v |-> v]

\* Event::CoinConsumed: decrease_coin_balance (checked_sub); remove_coin; OwnedCoins.remove
CoinConsumed(id) ==
  /\ coinSt[id] = "unspent"
  /\ LET c == coinAt[id] IN
       /\ bal[<<c.o, c.a>>] >= c.v                      \* no underflow on an executor history
       /\ bal' = [bal EXCEPT ![<<c.o, c.a>>] = @ - c.v]
       /\ c2s' = c2s \ {CoinKey(id, c)}
       /\ ownedC' = ownedC \ {<<c.o, id>>}
       /\ act' = [name |-> "CoinConsumed", id |-> id, o |-> c.o, ast |-> c.a, v |-> c.v]
  /\ GhostCoinConsumed(id)
  /\ UNCHANGED <<mbal, ownedM, view, junk>> /\ dirty' = TRUE

\* Event::MessageImported: increase_message_balance (retryable / non_retryable); add_message; OwnedMessageIds.insert
MessageImported(n, o, v, r) ==
  /\ msgSt[n] = "new"
  /\ GhostMessageImported(n, o, v, r)
  /\ mbal' = [mbal EXCEPT ![o] = IF r THEN [@ EXCEPT !.r = @ + v] ELSE [@ EXCEPT !.n = @ + v]]
  /\ c2s' = c2s \cup {MsgKey(n, [o |-> o, v |-> v, r |-> r])}
  /\ ownedM' = ownedM \cup {<<o, n>>}
  /\ UNCHANGED <<bal, ownedC, view, junk>> /\ dirty' = TRUE
  /\ act' = [name |-> "MessageImported", id |-> n, o |-> o, v |-> v, r |-> r]

\* Event::MessageConsumed: decrease_message_balance; remove_message; OwnedMessageIds.remove (+ SpentMessages)
MessageConsumed(n) ==
  /\ msgSt[n] = "unspent"
  /\ LET m == msgAt[n] IN
       /\ (IF m.r THEN mbal[m.o].r ELSE mbal[m.o].n) >= m.v
       /\ mbal' = [mbal EXCEPT ![m.o] = IF m.r THEN [@ EXCEPT !.r = @ - m.v] ELSE [@ EXCEPT !.n = @ - m.v]]
       /\ c2s' = c2s \ {MsgKey(n, m)}
       /\ ownedM' = ownedM \ {<<m.o, n>>}
       /\ act' = [name |-> "MessageConsumed", id |-> n, o |-> m.o, v |-> m.v, r |-> m.r]
  /\ GhostMessageConsumed(n)
  /\ UNCHANGED <<bal, ownedC, view, junk>> /\ dirty' = TRUE

\* transaction.commit(): the block's changes become what the read side sees
CommitBlock ==
  /\ view' = ViewOf(bal, mbal, ownedC, ownedM, c2s)
  /\ dirty' = FALSE
  /\ UNCHANGED <<chain, tables, junk>>
  /\ act' = [name |-> "Commit"]

Next == \/ \E id \in CIds, o \in Owners, a \in Assets, v \in Amts : CoinCreated(id, o, a, v)
        \/ \E id \in CIds : CoinConsumed(id)
        \/ \E n \in MIds, o \in Owners, v \in Amts, r \in BOOLEAN : MessageImported(n, o, v, r)
        \/ \E n \in MIds : MessageConsumed(n)
        \/ CommitBlock

Spec == Init /\ [][Next]_<<vars, act>>

(* ---- the property ---------------------------------------------------------*)
RECURSIVE SumOver(_, _)
SumOver(S, f) == IF S = {} THEN 0 ELSE LET x == CHOOSE y \in S : TRUE IN f[x] + SumOver(S \ {x}, f)

UnspentCoins == {i \in CIds : coinSt[i] = "unspent"}
UnspentMsgs  == {i \in MIds : msgSt[i] = "unspent"}
CoinSum(o, a) == SumOver({i \in UnspentCoins : coinAt[i].o = o /\ coinAt[i].a = a}, [i \in CIds |-> coinAt[i].v])
MsgSum(o, r)  == SumOver({i \in UnspentMsgs : msgAt[i].o = o /\ msgAt[i].r = r}, [i \in MIds |-> msgAt[i].v])

BalancesEqual ==
  /\ \A o \in Owners, a \in Assets : bal[<<o, a>>] = CoinSum(o, a)
  /\ \A o \in Owners : mbal[o] = [r |-> MsgSum(o, TRUE), n |-> MsgSum(o, FALSE)]
  \* the balance query: coins plus, for the base asset, the spendable (non-retryable) messages
  /\ \A o \in Owners, a \in Assets :
       view.total[<<o, a>>] = CoinSum(o, a) + (IF a = Base THEN MsgSum(o, FALSE) ELSE 0)
OwnedEqual ==
  /\ ownedC = {<<coinAt[i].o, i>> : i \in UnspentCoins}
  /\ ownedM = {<<msgAt[i].o, i>> : i \in UnspentMsgs}
  /\ \A o \in Owners : view.qc[o] = {i \in UnspentCoins : coinAt[i].o = o}
  /\ \A o \in Owners : view.qm[o] = {i \in UnspentMsgs : msgAt[i].o = o}
CoinsToSpendEqual ==
  /\ c2s = {CoinKey(i, coinAt[i]) : i \in UnspentCoins} \cup {MsgKey(i, msgAt[i]) : i \in UnspentMsgs}
  /\ \A o \in Owners, a \in Assets :
       view.q2s[<<o, a>>] =
         {[k |-> "c", id |-> i, v |-> coinAt[i].v] : i \in {j \in UnspentCoins : coinAt[j].o = o /\ coinAt[j].a = a}}
         \cup (IF a = Base
               THEN {[k |-> "m", id |-> i, v |-> msgAt[i].v] : i \in {j \in UnspentMsgs : msgAt[j].o = o /\ ~msgAt[j].r}}
               ELSE {})

\* after every block
IndexesEqualUnspent == ~dirty => (BalancesEqual /\ OwnedEqual /\ CoinsToSpendEqual /\ junk = 0)

StateRec == [coinSt |-> coinSt, coinAt |-> coinAt, msgSt |-> msgSt, msgAt |-> msgAt, bal |-> bal, mbal |-> mbal,
             ownedC |-> ownedC, ownedM |-> ownedM, c2s |-> c2s, view |-> view, junk |-> junk, dirty |-> dirty]
=============================================================================
