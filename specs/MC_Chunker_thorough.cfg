SPECIFICATION Spec
CONSTANT MaxH = 6
CONSTANT MaxSize = 7
INVARIANT PartitionInv
CHECK_DEADLOCK FALSE
