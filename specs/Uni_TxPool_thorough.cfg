CONSTANTS
  MaxTxs = 4
  MaxGas = 7
  MaxSize = 6
  ChainLimit = 4
  PendingPct = 50
  MaxHeight = 3
INIT Init
NEXT UNext
CHECK_DEADLOCK FALSE
