---------------------------- MODULE Trace_Importer ----------------------------
(* Trace validation of the real fuel_core_importer::Importer (harness h-importer) against Importer.  *)
(* STRICT=1: every logged port call / return must be the spec's own action with the logged result  *)
(* and the logged database projection.  STRICT=0 (observe): db, dv and the subscribers' sequences   *)
(* are bound to what the implementation logged, the ghosts follow the same Ghost operators, and    *)
(* only the invariants judge.                                                                       *)
EXTENDS MC_Importer, IOUtils

Rec == ndJsonDeserialize(IOEnv.TRACE)
Strict == IOEnv.STRICT = "1"
TraceTxSets == SUBSET (1..6)

VARIABLE l
tvars == <<vars, act, l>>

IsEv(e) == l <= Len(Rec) /\ Rec[l].ev = e /\ l' = l + 1
ToSet(s) == {s[i] : i \in DOMAIN s}
Blk(j) == [h |-> j.h, k |-> j.k, txs |-> ToSet(j.txs)]
Blks(s) == [i \in DOMAIN s |-> Blk(s[i])]
DbOf(j) == [blocks |-> {Blk(b) : b \in ToSet(j.blocks)}, cons |-> ToSet(j.cons), txs |-> ToSet(j.txs),
            root |-> j.root]
ReqOf(r) == [kind |-> r.kind, b |-> Blk(r.b), exe |-> r.exe, ver |-> r.ver, pub |-> r.pub]
ErrOf(res) == IF res = "Ok" THEN "none" ELSE res

TInit == Init /\ l = 1

TReset ==
  /\ IsEv("reset")
  /\ db' = EmptyDb /\ dv' = 0 /\ lock' = 0
  /\ pc' = [c \in Clients |-> "idle"] /\ rq' = [c \in Clients |-> NoReq]
  /\ ea' = [c \in Clients |-> "none"] /\ err' = [c \in Clients |-> "none"]
  /\ out' = 0
  /\ got' = [s \in SubIds |-> <<>>]
  /\ since' = [s \in SubIds |-> IF s <= 2 THEN 0 ELSE -1]
  /\ committed' = <<>>
  /\ snap' = [c \in Clients |-> NoSnap]
  /\ flags' = {}
  /\ act' = [name |-> "reset"]

Obs(G) == G /\ act' = [name |-> Rec[l].ev]

TLock == IsEv("Lock") /\ LET r == Rec[l] IN
  IF r.res = "Ok"
  THEN IF Strict THEN Lock(r.c, ReqOf(r))
       ELSE Obs(/\ pc' = [pc EXCEPT ![r.c] = "busy"] /\ rq' = [rq EXCEPT ![r.c] = ReqOf(r)] /\ lock' = r.c
                /\ UNCHANGED <<db, dv, ea, err, out, got, since>>
                /\ GhostLockOk(r.c))
  ELSE IF Strict THEN LockFail(r.c, ReqOf(r)) /\ r.res = "Err:Semaphore" /\ db' = DbOf(r.db) /\ dv' = r.dv
       ELSE Obs(/\ db' = DbOf(r.db) /\ dv' = r.dv
                /\ UNCHANGED <<lock, pc, rq, ea, err, out, got, since>>
                /\ GhostNoChange)

\* port calls that do not change anything observable
Quiet == Obs(UNCHANGED <<db, dv, lock, pc, rq, ea, err, out, got, since>> /\ GhostIdle)

TReadHeight == IsEv("ReadHeight") /\ LET r == Rec[l] IN
  IF Strict THEN ReadHeight(r.c) /\ r.val = Latest(db) ELSE Quiet
TStoreNew == IsEv("StoreNew") /\ LET r == Rec[l] IN
  IF Strict THEN StoreNew(r.c) /\ r.res = (IF UniqueOK(db, rq[r.c].b) THEN "New" ELSE "Found") ELSE Quiet
TVerify == IsEv("Verify") /\ LET r == Rec[l] IN
  IF Strict THEN Verify(r.c) /\ act'.res = r.res ELSE Quiet
TExecute == IsEv("Execute") /\ LET r == Rec[l] IN
  IF Strict THEN Execute(r.c) /\ act'.res = r.res ELSE Quiet
TCheckRoot == IsEv("CheckRoot") /\ LET r == Rec[l] IN
  IF Strict THEN CheckRoot(r.c) /\ r.exp = db.root /\ r.got = RootAfter(r.c) ELSE Quiet
TPublish == IsEv("Publish") /\ LET r == Rec[l] IN
  IF Strict THEN Publish(r.c) /\ act'.res = r.res ELSE Quiet

TDbCommit == IsEv("DbCommit") /\ LET r == Rec[l] IN
  IF Strict THEN DbCommit(r.c) /\ act'.res = r.res /\ db' = DbOf(r.db) /\ dv' = r.dv
  ELSE Obs(/\ db' = DbOf(r.db) /\ dv' = r.dv
           /\ UNCHANGED <<lock, pc, rq, ea, err, out, got, since>>
           /\ IF r.res = "Ok" THEN GhostCommitOk(r.c, rq[r.c].b) ELSE GhostNoChange)

Items(r, s) == IF s <= Len(r.items) THEN Blks(r.items[s]) ELSE <<>>
TBroadcast == IsEv("Broadcast") /\ LET r == Rec[l] IN
  IF Strict THEN Broadcast(r.c) /\ \A s \in SubIds : got'[s] = got[s] \o Items(r, s)
  ELSE Obs(/\ got' = [s \in SubIds |-> got[s] \o Items(r, s)]
           /\ out' = out + 1
           /\ UNCHANGED <<db, dv, lock, pc, rq, ea, err, since>>
           /\ GhostIdle)

TReturn == IsEv("Return") /\ LET r == Rec[l] IN
  IF Strict THEN Return(r.c) /\ act'.res = r.res /\ db' = DbOf(r.db) /\ dv' = r.dv
  ELSE Obs(/\ db' = DbOf(r.db) /\ dv' = r.dv
           /\ pc' = [pc EXCEPT ![r.c] = "idle"] /\ rq' = [rq EXCEPT ![r.c] = NoReq]
           /\ ea' = [ea EXCEPT ![r.c] = "none"] /\ err' = [err EXCEPT ![r.c] = "none"]
           /\ lock' = 0
           /\ UNCHANGED <<out, got, since>>
           /\ GhostReturn(r.c, ErrOf(r.res)))

TSeed == IsEv("Seed") /\ LET r == Rec[l] IN
  IF Strict THEN Seed(r.what, r.x) /\ r.res = "Ok" /\ db' = DbOf(r.db) /\ dv' = r.dv
  ELSE Obs(/\ db' = DbOf(r.db) /\ dv' = r.dv
           /\ UNCHANGED <<lock, pc, rq, ea, err, out, got, since, committed, snap, flags>>)

TRelease == IsEv("Release") /\
  IF Strict THEN (IF out > 0 THEN Release ELSE UNCHANGED vars /\ act' = [name |-> "Release"])
  ELSE Obs(out' = 0 /\ UNCHANGED <<db, dv, lock, pc, rq, ea, err, got, since, committed, snap, flags>>)

TSubscribe == IsEv("Subscribe") /\ LET r == Rec[l] IN
  IF Strict THEN Subscribe(r.s)
  ELSE Obs(/\ since' = [since EXCEPT ![r.s] = Len(committed)]
           /\ UNCHANGED <<db, dv, lock, pc, rq, ea, err, out, got, committed, snap, flags>>)

TNext == \/ TReset \/ TLock \/ TReadHeight \/ TStoreNew \/ TVerify \/ TExecute \/ TCheckRoot \/ TPublish
         \/ TDbCommit \/ TBroadcast \/ TReturn \/ TSeed \/ TRelease \/ TSubscribe
TSpec == TInit /\ [][TNext]_tvars

TraceAccepted ==
  LET d == TLCGet("stats").diameter IN
  IF d - 1 = Len(Rec) THEN PrintT(<<"TRACE-ACCEPTED", Len(Rec)>>)
  ELSE PrintT(<<"TRACE-REJECTED", d>>) /\ PrintT(Rec[d])
=============================================================================
