---------------------------- MODULE MC_TxStatus ----------------------------
EXTENDS TxStatus, Json
View == vars
StateRec == [clock |-> clock, view |-> view, snd |-> SndView, sizes |-> SizesView, chans |-> chans, rx |-> rx]
EmitEdge == PrintT(<<"EDGE", ToJson([src |-> StateRec, act |-> act', dst |-> StateRec'])>>)
=============================================================================
