SPECIFICATION Spec
CONSTANT MaxH = 3
CONSTANT ShapeMode = "small"
CONSTANT Shapes <- MCShapes
CONSTANT OneShot = FALSE
VIEW View
INVARIANT ContiguousOnly
INVARIANT RangeFaithful
INVARIANT RoundTrip
PROPERTY RangeFaithfulStep
PROPERTY RoundTripStep
CHECK_DEADLOCK FALSE
