SPECIFICATION Spec
CONSTANTS
  Migs = {"Coins -> Coins", "ContractsState -> ContractsState", "ProcessedTransactions -> ProcessedTransactions", "Coins -> OwnedCoins"}
  Worlds <- MCWorldsBig
  GroupSizes = {0, 1, 2, 3}
  Encodings = {"parquet", "json"}
  MaxCrashes = 2
  WithDrop = TRUE
  ClearOffEarly = FALSE
VIEW View
INVARIANT TypeOK
INVARIANT ImportedEqualsExportedCarried
INVARIANT FinalEqualsUninterrupted
INVARIANT EachGroupOnce
CHECK_DEADLOCK FALSE
