SPECIFICATION TSpec
CONSTANT Part = "sparse"
CONSTANT DKeys = {0}
CONSTANT DVals = {1}
CONSTANT MaxLeaves = 1
CONSTANT MaxBatch = 1
CONSTANT PKs = {1, 2}
CONSTANT Subs = {1, 2, 3}
CONSTANT SVals = {1, 2}
INVARIANT SRootsExact
INVARIANT STableExact
PROPERTY SOtherKeysUntouched
PROPERTY SFailedOpChangesNoRoot
PROPERTY NoPanic
POSTCONDITION TraceAccepted
CHECK_DEADLOCK FALSE
