---------------------------- MODULE Trace_Relayer ----------------------------
(* Trace validation of the real relayer service (fuel_core_relayer::new_service_test /      *)
(* verif::new_service_retrying over a scripted provider and an in-memory EventsHistory      *)
(* table) against Relayer.                                                                   *)
(* STRICT=1: every event must be the spec's own action: the page of every RPC (lo, hi), the  *)
(* number of logs, every write (height, stored ids) and the synced watch value must agree.   *)
(* STRICT=0 (observe): db / synced / remote / phase are bound to what the implementation     *)
(* logged, the ghosts follow GhostWrite / GhostNewAttempt; only the invariants judge.        *)
EXTENDS Relayer, Json, IOUtils

Rec == ndJsonDeserialize(IOEnv.TRACE)
Strict == IOEnv.STRICT = "1"

VARIABLE l
tvars == <<vars, act, l>>

IsEv(e) == l <= Len(Rec) /\ Rec[l].ev = e /\ l' = l + 1
TInit == Init /\ l = 1

TReset == /\ IsEv("reset")
          /\ phase' = "unborn" /\ cfg' = NoCfg /\ da' = << >> /\ remote' = 0 /\ synced' = NoSync /\ db' = Empty
          /\ gap' = FALSE /\ page' = NoPage /\ wq' = NoWq /\ sizer' = [cur |-> 0, max |-> 0, ok |-> 0]
          /\ err' = FALSE /\ stopping' = FALSE /\ rpcs' = 0 /\ wcnt' = Empty /\ first' = Empty
          /\ act' = [name |-> "reset"]

Hidden == UNCHANGED <<gap, page, wq, sizer, err, stopping, rpcs>>

TNew == /\ IsEv("New")
        /\ LET r == Rec[l] IN
             IF Strict THEN New(r.deploy, r.psize, r.maxlogs, r.retry, r.da) /\ synced'.h = r.h
             ELSE /\ phase' = "idle"
                  /\ cfg' = [deploy |-> r.deploy, psize |-> r.psize, maxlogs |-> r.maxlogs, retry |-> r.retry]
                  /\ da' = r.da /\ synced' = [h |-> r.h, full |-> FALSE]
                  /\ UNCHANGED <<remote, db, wcnt, first>> /\ Hidden
                  /\ act' = [name |-> "New"]

TBegin == /\ IsEv("BeginSync")
          /\ LET r == Rec[l] IN
               IF Strict THEN BeginSync(r.remote)
               ELSE /\ phase' = "sync" /\ remote' = r.remote /\ GhostNewAttempt
                    /\ UNCHANGED <<cfg, da, synced, db>> /\ Hidden
                    /\ act' = [name |-> "BeginSync"]

TRpc == /\ IsEv("Rpc")
        /\ LET r == Rec[l] IN
             IF Strict THEN
               /\ CASE r.out = "ok" -> (RpcOk \/ RpcTooMany(0)) /\ act'.n = r.n
                    [] r.out = "many" -> RpcTooMany(r.junk) /\ act'.n = r.n
                    [] r.out \in {"resp", "transport"} -> RpcErr(r.out)
                    [] r.out = "cancel" -> RpcCancel
               /\ act'.lo = r.lo /\ act'.hi = r.hi
             ELSE /\ UNCHANGED <<phase, cfg, da, remote, synced, db>> /\ GhostSame /\ Hidden
                  /\ act' = [name |-> "Rpc"]

TWrite == /\ IsEv("Write")
          /\ LET r == Rec[l] IN
               IF Strict THEN
                 IF r.res = "ok" THEN WriteHeight(r.h) /\ act'.ids = r.ids ELSE WriteFail(r.h)
               ELSE /\ IF r.res = "ok" THEN db' = Put(db, r.h, r.ids) /\ GhostWrite(r.h, r.ids)
                                       ELSE db' = db /\ GhostSame
                    /\ UNCHANGED <<phase, cfg, da, remote, synced>> /\ Hidden
                    /\ act' = [name |-> "Write"]

TEnd == /\ IsEv("EndSync")
        /\ LET r == Rec[l] IN
             IF Strict THEN /\ EndSync
                            /\ synced' = [h |-> r.h, full |-> r.full]
                            /\ (phase' = "idle") <=> r.alive
             ELSE /\ phase' = IF r.alive THEN "idle" ELSE "dead"
                  /\ synced' = [h |-> r.h, full |-> r.full]
                  /\ UNCHANGED <<cfg, da, remote, db>> /\ GhostSame /\ Hidden
                  /\ act' = [name |-> "EndSync"]

TRestart == /\ IsEv("Restart")
            /\ LET r == Rec[l] IN
                 IF Strict THEN Restart /\ synced'.h = r.h
                 ELSE /\ phase' = "idle" /\ synced' = [h |-> r.h, full |-> FALSE]
                      /\ UNCHANGED <<cfg, da, remote, db>> /\ GhostSame /\ Hidden
                      /\ act' = [name |-> "Restart"]

TNext == TReset \/ TNew \/ TBegin \/ TRpc \/ TWrite \/ TEnd \/ TRestart
TSpec == TInit /\ [][TNext]_tvars

TraceAccepted ==
  LET d == TLCGet("stats").diameter IN
  IF d - 1 = Len(Rec) THEN PrintT(<<"TRACE-ACCEPTED", Len(Rec)>>)
  ELSE PrintT(<<"TRACE-REJECTED", d>>) /\ PrintT(Rec[d])
=============================================================================
