SPECIFICATION Spec
CONSTANT MaxH = 2
CONSTANT TxSets <- MCTxSets
CONSTANT Clients = {1, 2}
CONSTANT Buf = 2
CONSTANT Lockers = {1}
CONSTANT MaxSeeds = 2
CONSTANT FailReqs <- MCFailReqs
CONSTANT Subs = 3
VIEW View
INVARIANT CommitOnlyNext
INVARIANT Unique
INVARIANT AtomicCommit
INVARIANT FailedImportNoChange
INVARIANT RootUntouchedByExecution
INVARIANT OneCommitAtATime
INVARIANT AnnouncedOnceInOrderAfterReadable
CHECK_DEADLOCK FALSE
