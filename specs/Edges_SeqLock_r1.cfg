SPECIFICATION Spec
CONSTANT NW = 2
CONSTANT NRd = 1
CONSTANT NReads = 2
CONSTANT FineRead = FALSE
VIEW View
ACTION_CONSTRAINT EmitEdge
CHECK_DEADLOCK FALSE
