SPECIFICATION TSpec
CONSTANT NC = 2
CONSTANT MaxRun = 2
INVARIANT ShutdownAtMostOnce
INVARIANT AwaitSound
INVARIANT BoundedProgress
PROPERTY Forward
PROPERTY StoppedNeverRuns
POSTCONDITION TraceAccepted
CHECK_DEADLOCK FALSE
