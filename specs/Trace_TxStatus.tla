---------------------------- MODULE Trace_TxStatus ----------------------------
(* Trace validation of the real TxStatusManager / UpdateSender against TxStatus.   *)
(* STRICT=1: every event is the spec's own action; clock, status() of every tx,     *)
(* the cache collection sizes, the sender lists (stream state, creation time) and   *)
(* every call result must be what the spec computes.                                *)
(* STRICT=0 (observe): clock and view are bound to what the implementation logged,  *)
(* the ghosts follow the Ghost operators fed with the logged arguments and results  *)
(* (they never look at the transcription variables), the invariants judge.          *)
EXTENDS TxStatus, Json, IOUtils

Rec == ndJsonDeserialize(IOEnv.TRACE)
Strict == IOEnv.STRICT = "1"

VARIABLE l
tvars == <<vars, act, l>>

IsEv(e) == l <= Len(Rec) /\ Rec[l].ev = e /\ l' = l + 1
LMsg(o) == Stat(o.k, o.n)
LView(r) == [x \in Txs |-> LMsg(r.cache[x])]

\* logged projection = projection of the primed spec state
ProjOK(r) ==
  /\ clock' = r.clock
  /\ view' = LView(r)
  /\ SizesView' = r.sizes
  /\ KeysView' = r.keys
  /\ \A x \in Txs :
       /\ Len(r.snd[x]) = Len(senders'[x])
       /\ \A i \in 1..Len(r.snd[x]) : SndView'[x][i] = r.snd[x][i]

TInit == Init /\ l = 1

TReset ==
  /\ IsEv("reset")
  /\ clock' = 0
  /\ nonprun' = [x \in Txs |-> NoMsg] /\ prun' = [x \in Txs |-> NoEntry] /\ queue' = <<>>
  /\ senders' = [x \in Txs |-> <<>>] /\ chans' = <<>> /\ rx' = <<>>
  /\ view' = [x \in Txs |-> NoMsg]
  /\ published' = [x \in Txs |-> <<>>] /\ pubTime' = [x \in Txs |-> 0] /\ sg' = <<>>
  /\ act' = [name |-> "reset"]

Observe(r, G) ==
  /\ clock' = r.clock /\ view' = LView(r)
  /\ UNCHANGED <<nonprun, prun, queue, senders, chans, rx>>
  /\ G
  /\ act' = [name |-> r.ev]

Bind(A, G) == LET r == Rec[l] IN IF Strict THEN A /\ ProjOK(r) ELSE Observe(r, G)

TPublish == IsEv("Publish") /\ LET r == Rec[l] IN
  Bind(Publish(r.tx, r.k) /\ r.n = Len(published[r.tx]) + 1 /\ r.res = "ok",
       GhostPublish(r.tx, Stat(r.k, r.n), r.clock))

TSubscribe == IsEv("Subscribe") /\ LET r == Rec[l] IN
  Bind(Subscribe(r.tx) /\ r.res = act'.res /\ r.sub = (IF r.res = "ok" THEN Len(rx') ELSE 0),
       GhostSubscribe(r.tx, r.res = "ok", r.clock))

TRead == IsEv("Read") /\ LET r == Rec[l] IN
  Bind(Read(r.sub) /\ LMsg(r.out) = ReadOut(r.sub),
       GhostRead(r.sub, LMsg(r.out)))

TDropSub == IsEv("DropSub") /\ LET r == Rec[l] IN
  IF r.res = "ok"
  THEN Bind(DropSub(r.sub), GhostDrop(r.sub))
  ELSE Bind(~(r.sub \in 1..Len(rx) /\ rx[r.sub] = "open") /\ UNCHANGED vars /\ act' = [name |-> "DropSub"],
            GhostQuiet)

TTick == IsEv("Tick") /\ LET r == Rec[l] IN Bind(Tick(r.d), GhostQuiet)

TNext == TReset \/ TPublish \/ TSubscribe \/ TRead \/ TDropSub \/ TTick
TSpec == TInit /\ [][TNext]_tvars

TraceAccepted ==
  LET d == TLCGet("stats").diameter IN
  IF d - 1 = Len(Rec) THEN PrintT(<<"TRACE-ACCEPTED", Len(Rec)>>)
  ELSE PrintT(<<"TRACE-REJECTED", d>>) /\ PrintT(Rec[d])
=============================================================================
