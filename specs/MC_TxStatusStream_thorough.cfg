SPECIFICATION Spec
CONSTANT Tags = {1, 2}
CONSTANT MaxIns = 4
VIEW View
CONSTRAINT Bound
INVARIANT Shape
INVARIANT StreamInOrderNoDup
INVARIANT StreamNothingAfterFinal
INVARIANT StreamNothingAfterEnd
INVARIANT StreamFinalCloses
PROPERTY ClosedAbsorbing
CHECK_DEADLOCK FALSE
