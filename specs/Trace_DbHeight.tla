---------------------------- MODULE Trace_DbHeight ----------------------------
(* Trace validation of the real fuel_core::database::Database<D> against DbHeight.            *)
(* Logged per event: result, cached (HistoricalView::latest_height), meta                       *)
(* (latest_height_from_metadata), pay (raw read of the payload marker).  `hist`, `glast`, `bad` *)
(* follow the shared rules in both modes.                                                       *)
EXTENDS DbHeight, Json, IOUtils

Rec == ndJsonDeserialize(IOEnv.TRACE)
Strict == IOEnv.STRICT = "1"

VARIABLE l
tvars == <<vars, act, l>>

IsEv(e) == l <= Len(Rec) /\ Rec[l].ev = e /\ l' = l + 1

TInit == Init /\ l = 1

TReset == /\ IsEv("reset")
          /\ kind' = "none" /\ backend' = "none"
          /\ cached' = -1 /\ meta' = -1 /\ pay' = -1 /\ hist' = <<>>
          /\ glast' = -1 /\ gn' = 0 /\ bad' = ""
          /\ act' = [name |-> "reset"]

Logged(r) == cached' = r.cached /\ meta' = r.meta /\ pay' = r.pay

\* strict: the spec's own action with the logged result and post-state;
\* observe: code-owned variables bound to the log, rule-owned ones by the shared operators
Bind(A, G, a) == LET r == Rec[l] IN
  IF Strict THEN A /\ Logged(r)
            ELSE Logged(r) /\ G /\ UNCHANGED <<kind, backend>> /\ act' = a

TNew == IsEv("New") /\ LET r == Rec[l] IN
          /\ New(r.kind, r.backend)
          /\ Logged(r)

TCommit == IsEv("Commit") /\ LET r == Rec[l] IN
  Bind(Commit(r.S, r.cf) /\ r.res = CommitRes(kind, cached, r.S, r.cf),
       HistCommit(r.S, r.res) /\ GhostCommit(r.S, r.res),
       [name |-> "Commit", S |-> r.S, cf |-> r.cf, res |-> r.res])

TReopen == IsEv("Reopen") /\ LET r == Rec[l] IN
  Bind(Reopen, UNCHANGED <<hist, glast, gn, bad>>, [name |-> "Reopen"])

TRollback == IsEv("Rollback") /\ LET r == Rec[l] IN
  Bind(Rollback /\ r.res = RollbackRes,
       HistRollback(r.res) /\ GhostRollback(r.res),
       [name |-> "Rollback", res |-> r.res])

TNext == TReset \/ TNew \/ TCommit \/ TReopen \/ TRollback
TSpec == TInit /\ [][TNext]_tvars

\* reset steps are exempt from the action property by construction (act'.name = "reset")
TraceAccepted ==
  LET d == TLCGet("stats").diameter IN
  IF d - 1 = Len(Rec) THEN PrintT(<<"TRACE-ACCEPTED", Len(Rec)>>)
  ELSE PrintT(<<"TRACE-REJECTED", d>>) /\ PrintT(Rec[d])
=============================================================================
