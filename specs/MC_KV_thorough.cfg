SPECIFICATION Spec
CONSTANT CellSet <- CellsOneCol
CONSTANT NVals = 2
CONSTANT MaxDepth = 2
CONSTANT MaxDet = 1
CONSTANT Pols = {"F", "O"}
CONSTANT Offs = {0, 1, 3, 4}
CONSTANT Lens = {0, 1, 2, 4}
CONSTANT Reads = TRUE
VIEW View
INVARIANT ReadYourWrites
INVARIANT AllLevels
INVARIANT Shape
PROPERTY ResultsExact
PROPERTY ConflictExact
CHECK_DEADLOCK FALSE
