---------------------------- MODULE Trace_Genesis ----------------------------
(* Trace validation of the real exporter / snapshot reader / execute_genesis_block (with the      *)
(* interruptions injected through the `verif` hook of ImportTask::run) against Genesis.            *)
(* STRICT=1: every event must be the spec's own action with the logged arguments, results,         *)
(*           progress index, snapshot groups and table contents.                                   *)
(* STRICT=0: progress, table contents, heights and digests are bound to what the implementation    *)
(*           logged, the ghosts (per-group commit counters, redo flag, reference result) follow    *)
(*           the spec's Ghost operators; only the invariants judge.                                *)
EXTENDS Genesis, Json, IOUtils

Rec == ndJsonDeserialize(IOEnv.TRACE)
Strict == IOEnv.STRICT = "1"

VARIABLES l,
          rdig,     \* per-column digests of the databases after the uninterrupted reference import
          fdig,     \* per-column digests after the walk's own (interrupted and resumed) import
          stuck     \* the import could not be completed by restarting it
tvars == <<vars, act, l, rdig, fdig, stuck>>

NoDig == [x \in {} |-> 0]
AllMigs == DOMAIN MigInfo
IsEv(e) == l <= Len(Rec) /\ Rec[l].ev = e /\ l' = l + 1

LoggedSnap(r) == [T \in Tables |-> [k \in DOMAIN r.snap[T] |-> Range(r.snap[T][k])]]
LoggedProg(r) == [m \in Migs |-> r.prog[m]]
IsIdent(m) == \E T \in PTables : m = Ident(T)
TabOf(m) == CHOOSE T \in PTables : m = Ident(T)
\* destination tables with the property tables replaced by what was read from the database
LoggedDst(r, d) == [m \in Migs |-> IF IsIdent(m) THEN Range(r.tabs[TabOf(m)]) ELSE d[m]]
GroupOf(m, i) == IF m \in Migs /\ i >= 0 /\ i < NG(m) THEN snap[From(m)][i + 1] ELSE {}
Known(m) == m \in Migs

TInit == Init /\ l = 1 /\ rdig = NoDig /\ fdig = NoDig /\ stuck = FALSE

TReset ==
  /\ IsEv("reset")
  /\ phase' = "unborn" /\ src' = [T \in Tables |-> 0] /\ srcH' = -1 /\ enc' = "none" /\ gs' = 0
  /\ snap' = [T \in Tables |-> <<>>] /\ snapH' = -1
  /\ dst' = [m \in Migs |-> {}] /\ dstH' = -1 /\ prog' = [m \in Migs |-> -1]
  /\ pos' = [m \in Migs |-> 0] /\ ws' = [m \in Migs |-> "none"] /\ cancelled' = FALSE
  /\ cnt' = [m \in Migs |-> <<>>] /\ redo' = FALSE /\ ref' = NoRef /\ crashes' = 0
  /\ rdig' = NoDig /\ fdig' = NoDig /\ stuck' = FALSE
  /\ act' = [name |-> "reset"]

Keep == UNCHANGED <<rdig, fdig, stuck>>
\* observe mode: variables an event does not talk about keep their value
ObsFrame(changed) ==
  /\ ("phase" \in changed \/ UNCHANGED phase)
  /\ ("prog" \in changed \/ UNCHANGED prog)
  /\ ("dst" \in changed \/ UNCHANGED dst)
  /\ ("dstH" \in changed \/ UNCHANGED dstH)
  /\ ("ghost" \in changed \/ UNCHANGED <<cnt, redo>>)
  /\ ("ref" \in changed \/ UNCHANGED ref)
  /\ ("export" \in changed \/ UNCHANGED <<src, srcH, enc, gs, snap, snapH>>)
  /\ UNCHANGED <<pos, ws, cancelled, crashes>>

TExport == IsEv("Export") /\ LET r == Rec[l] IN
  /\ Keep
  /\ IF Strict
     THEN /\ r.res = "Ok"
          /\ ExportW(r.n, r.h, r.enc, r.g)
          /\ snap' = LoggedSnap(r) /\ snapH' = r.snapH
          /\ act' = [name |-> "Export"]
     ELSE /\ act' = [name |-> "Export"]
          /\ IF r.res = "Ok"
             THEN /\ src' = [T \in Tables |-> r.n[T]] /\ srcH' = r.h /\ enc' = r.enc /\ gs' = r.g
                  /\ snap' = LoggedSnap(r) /\ snapH' = r.snapH
                  /\ phase' = "exported"
                  /\ GhostExport
                  /\ ObsFrame({"phase", "export", "ghost"})
             ELSE ObsFrame({})

TReference == IsEv("Reference") /\ LET r == Rec[l] IN
  /\ UNCHANGED <<fdig, stuck>>
  /\ IF Strict
     THEN /\ r.res = "Ok"
          /\ Reference
          /\ \A T \in PTables : Range(r.tabs[T]) = RefDst(Ident(T))
          /\ rdig' = r.dig
     ELSE /\ act' = [name |-> "Reference"]
          /\ IF r.res = "Ok"
             THEN /\ ref' = LoggedDst(r, [m \in Migs |-> RefDst(m)])
                  /\ rdig' = r.dig
                  /\ ObsFrame({"ref"})
             ELSE ObsFrame({}) /\ UNCHANGED rdig

TBegin == IsEv("Begin") /\ Keep /\
  IF Strict THEN Begin
  ELSE /\ phase' = "running" /\ act' = [name |-> "Begin"] /\ ObsFrame({"phase"})

\* events of one worker: progress index of that worker as read from the database at the hook point
ObsWorker(r, ghost) ==
  /\ act' = [name |-> r.ev]
  /\ prog' = IF Known(r.m) THEN [prog EXCEPT ![r.m] = r.p] ELSE prog
  /\ ghost

TTask == IsEv("Task") /\ Keep /\ LET r == Rec[l] IN
  IF Strict THEN Known(r.m) /\ Task(r.m) /\ r.skip = pos[r.m] /\ r.p = prog[r.m]
  ELSE ObsWorker(r, ObsFrame({"prog"}))

TStart == IsEv("Start") /\ Keep /\ LET r == Rec[l] IN
  IF Strict THEN Known(r.m) /\ Start(r.m) /\ r.i = pos[r.m] /\ r.p = prog[r.m]
  ELSE ObsWorker(r, GhostStart(r.m, r.i) /\ ObsFrame({"prog", "ghost"}))

TCommit == IsEv("Commit") /\ Keep /\ LET r == Rec[l] IN
  IF Strict THEN Known(r.m) /\ Commit(r.m) /\ r.i = pos[r.m] /\ r.p = prog'[r.m]
  ELSE ObsWorker(r, /\ GhostCommit(r.m, r.i)
                    /\ dst' = IF Known(r.m) THEN [dst EXCEPT ![r.m] = @ \cup GroupOf(r.m, r.i)] ELSE dst
                    /\ ObsFrame({"prog", "ghost", "dst"}))

TFail == IsEv("Fail") /\ Keep /\ LET r == Rec[l] IN
  IF Strict THEN Known(r.m) /\ r.pt \in Points /\ Fail(r.m, r.pt) /\ act'.i = r.i /\ r.p = prog[r.m]
  ELSE ObsWorker(r, ObsFrame({"prog"}))

TCancel == IsEv("Cancel") /\ Keep /\
  IF Strict THEN Cancel
  ELSE act' = [name |-> "Cancel"] /\ ObsFrame({})

TEnd == IsEv("End") /\ Keep /\ LET r == Rec[l] IN
  IF Strict
  THEN /\ r.res \in {"Ok", "Err:failed", "Err:cancelled"}
       /\ End(r.res)
       /\ prog' = LoggedProg(r)
       /\ \A T \in PTables : Range(r.tabs[T]) = dst[Ident(T)]
  ELSE /\ act' = [name |-> "End"]
       /\ phase' = IF r.res = "Ok" THEN "imported" ELSE "ended"
       /\ prog' = LoggedProg(r)
       /\ dst' = LoggedDst(r, dst)
       /\ ObsFrame({"phase", "prog", "dst"})

TCommitBlock == IsEv("CommitBlock") /\ Keep /\ LET r == Rec[l] IN
  IF Strict
  THEN r.res = "Ok" /\ CommitBlock /\ prog' = LoggedProg(r) /\ dstH' = r.h
  ELSE /\ act' = [name |-> "CommitBlock"]
       /\ phase' = IF r.res = "Ok" THEN "committed" ELSE phase
       /\ prog' = LoggedProg(r) /\ dstH' = r.h
       /\ ObsFrame({"phase", "prog", "dstH"})

TClearOffChain == IsEv("ClearOffChain") /\ UNCHANGED <<rdig, stuck>> /\ LET r == Rec[l] IN
  /\ fdig' = r.dig
  /\ IF Strict
     THEN r.res = "Ok" /\ ClearOffChain /\ prog' = LoggedProg(r)
     ELSE /\ act' = [name |-> "ClearOffChain"]
          /\ phase' = IF r.res = "Ok" /\ phase = "committed" THEN "done" ELSE phase
          /\ prog' = LoggedProg(r)
          /\ ObsFrame({"phase", "prog"})

TDropResult == IsEv("DropResult") /\ Keep /\ LET r == Rec[l] IN
  IF Strict THEN DropResult /\ prog = LoggedProg(r)
  ELSE /\ act' = [name |-> "DropResult"] /\ phase' = "ended" /\ prog' = LoggedProg(r)
       /\ ObsFrame({"phase", "prog"})

\* the harness restarted the uninterrupted import several times and it never completed
TGaveUp == ~Strict /\ IsEv("GaveUp") /\ UNCHANGED <<rdig, fdig>> /\ stuck' = TRUE
           /\ act' = [name |-> "GaveUp"] /\ ObsFrame({})

TNext == TReset \/ TExport \/ TReference \/ TBegin \/ TTask \/ TStart \/ TCommit \/ TFail \/ TCancel
         \/ TEnd \/ TCommitBlock \/ TClearOffChain \/ TDropResult \/ TGaveUp
TSpec == TInit /\ [][TNext]_tvars

\* C40 on the implementation's own databases: every column of the on-chain and the off-chain database
\* after the interrupted-and-resumed import equals the same column after an uninterrupted import
FinalDigestsEqualUninterrupted ==
  (phase = "done" /\ DOMAIN fdig # {} /\ DOMAIN rdig # {}) => fdig = rdig
ResumeCompletes == ~stuck

TraceAccepted ==
  LET d == TLCGet("stats").diameter IN
  IF d - 1 = Len(Rec) THEN PrintT(<<"TRACE-ACCEPTED", Len(Rec)>>)
  ELSE PrintT(<<"TRACE-REJECTED", d>>) /\ PrintT(Rec[d])
=============================================================================
