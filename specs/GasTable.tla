---------------------------- MODULE GasTable ----------------------------
(* C35 — worst-case gas price estimate (crates/fuel-gas-price-algorithm/src/utils.rs,      *)
(* v1.rs AlgorithmV1::worst_case).  The estimator is floating point; what the spec fixes   *)
(* is its BRANCH STRUCTURE (precomputed M x N table vs computed exponential) and the        *)
(* integer lower bound the property names: the price compounded once per block with the     *)
(* maximal increase, rounding down.                                                         *)
EXTENDS Integers, TLC

CONSTANTS M, N,            \* table dimensions: rows 0..M-1 (blocks), columns 0..N-1 (percentage)
          MaxBlocks, MaxPct, Prices

VARIABLES q,               \* last query [price, pct, blocks, branch, est, ok]
          act
vars == <<q>>

\* price after n blocks of +pct% per block, integer arithmetic rounding down (what the
\* updater does: principle.saturating_mul(pct).saturating_div(100))
RECURSIVE Compound(_, _, _)
Compound(p, pct, n) == IF n = 0 THEN p ELSE Compound(p + ((p * pct) \div 100), pct, n - 1)

\* transcription of the guard in cumulative_percentage_change:
\*   if blocks >= M || percentage >= N { computed } else { PRECOMPUTED_EXP[blocks][percentage] }
\* (before the fix recorded in known_findings.json the guard was `>` on both, indexing row/column 25)
Branch(pct, blocks) == IF blocks >= M \/ pct >= N THEN "computed" ELSE "table"

NoQuery == [price |-> 0, pct |-> 0, blocks |-> -1, branch |-> "none", est |-> 0, ok |-> TRUE]
Init == q = NoQuery /\ act = [name |-> "Init"]

Estimate(p, pct, n) ==
  /\ q' = [price |-> p, pct |-> pct, blocks |-> n, branch |-> Branch(pct, n),
           est |-> Compound(p, pct, n), ok |-> TRUE]
  /\ act' = [name |-> "Estimate", price |-> p, pct |-> pct, blocks |-> n]

\* a first query is arbitrary; follow-up queries extend the horizon for the same price/percentage
\* (that is what Monotone talks about); this keeps the graph linear in the number of queries
Next == \/ q = NoQuery /\ \E p \in Prices, pct \in 0..MaxPct, n \in 0..MaxBlocks : Estimate(p, pct, n)
        \/ q # NoQuery /\ q.blocks < MaxBlocks /\ Estimate(q.price, q.pct, q.blocks + 1)
Spec == Init /\ [][Next]_<<vars, act>>

(* ---- the property ---------------------------------------------------------*)
Asked == q.blocks >= 0
TableIndexInDomain == Asked /\ q.branch = "table" => q.blocks \in 0..(M - 1) /\ q.pct \in 0..(N - 1)
Total == Asked => q.ok                                   \* computed without failing
\* (negative prices stand for huge u64 prices the harness also tries: only totality and monotonicity
\*  of the clamped estimate are judged for them)
Bound == Asked /\ q.ok /\ q.price >= 0 => q.est >= Compound(q.price, q.pct, q.blocks)
\* never decreases as the horizon grows (consecutive queries for the same price/percentage)
Monotone == [][(Asked /\ q'.price = q.price /\ q'.pct = q.pct /\ q'.blocks >= q.blocks /\ q.ok /\ q'.ok)
                 => q'.est >= q.est]_vars
=============================================================================
