SPECIFICATION Spec
CONSTANT MaxH = 6
VIEW View
ACTION_CONSTRAINT EmitEdge
CHECK_DEADLOCK FALSE
