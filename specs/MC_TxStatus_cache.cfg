SPECIFICATION Spec
CONSTANT NTx = 2
CONSTANT Kinds = {"Sub", "PSucc", "Succ", "PSq"}
CONSTANT Cap = 1
CONSTANT SubTtl = 2
CONSTANT CacheTtl = 2
CONSTANT Buf = 2
CONSTANT MaxSubs = 0
CONSTANT MaxPub = 4
CONSTANT MaxClock = 5
CONSTANT Ticks = {1, 2}
VIEW View
INVARIANT TypeOK
INVARIANT StatusIsLatest
INVARIANT ForgottenOnlyAfterTtl
CHECK_DEADLOCK FALSE
