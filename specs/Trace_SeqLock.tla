---------------------------- MODULE Trace_SeqLock ----------------------------
(* Trace validation of the real SeqLock (stepped at its guarded yield points) against SeqLock.   *)
(* An event = one released step: thread `t`, the tag of the yield point it was released from,   *)
(* and afterwards the raw sequence/data, the tag every thread is parked at, the number of       *)
(* returned write() calls and each reader's last read() result and number of results.           *)
(* STRICT=1: the step must be the spec's step of that thread at that pc with that post-state    *)
(* (the readers' locals `start`/`data` are not observable; the spec's action determines them).  *)
(* STRICT=0 (observe): the lock, the pcs, `completed` and `ret` are bound to the log; the       *)
(* ghosts rcas/retcas follow the spec's rules from the observed call/return points.             *)
EXTENDS SeqLock, Json, IOUtils, Sequences

Rec == ndJsonDeserialize(IOEnv.TRACE)
Strict == IOEnv.STRICT = "1"

VARIABLE l
tvars == <<vars, act, l>>

IsEv(e) == l <= Len(Rec) /\ Rec[l].ev = e /\ l' = l + 1

TInit == Init /\ l = 1

TReset == /\ IsEv("reset")
          /\ seq' = 0 /\ d' = <<0, 0>> /\ wpc' = "w_inc1" /\ wk' = 1 /\ completed' = 0
          /\ rpc' = [r \in Readers |-> "r_call"]
          /\ rstart' = [r \in Readers |-> 0]
          /\ rcopy' = [r \in Readers |-> <<0, 0>>]
          /\ ret' = [r \in Readers |-> [v |-> <<0, 0>>, n |-> 0]]
          /\ rcas' = [r \in Readers |-> 0]
          /\ retcas' = [r \in Readers |-> 0]
          /\ act' = [name |-> "reset"]

\* JSON arrays are 1-based sequences: at[1] is the writer, at[r + 1] reader r
LoggedIs(r) == /\ seq' = r.seq /\ d' = r.d /\ completed' = r.wdone
               /\ wpc' = r.at[1]
               /\ rpc' = [x \in Readers |-> r.at[x + 1]]
               /\ ret' = [x \in Readers |-> [v |-> r.ret[x].v, n |-> r.ret[x].n]]

\* observe mode: ghosts from the observed call / return points of thread t
GhostObs(r) ==
  IF r.t \in Readers
  THEN IF r.tag = "r_call" THEN GhostCall(r.t, completed)
       ELSE IF r.ret[r.t].n > ret[r.t].n THEN GhostReturn(r.t)
       ELSE GhostNone
  ELSE GhostNone

TStep == /\ IsEv("Step")
         /\ LET r == Rec[l] IN
            IF Strict
            THEN /\ IF r.t = 0 THEN WStep ELSE (r.t \in Readers /\ RStep(r.t))
                 /\ act'.tag = r.tag
                 /\ LoggedIs(r)
            ELSE /\ LoggedIs(r) /\ GhostObs(r)
                 /\ UNCHANGED <<wk, rstart, rcopy>>
                 /\ act' = [name |-> "Step", t |-> r.t, tag |-> r.tag]

TNext == TReset \/ TStep
TSpec == TInit /\ [][TNext]_tvars

TraceAccepted ==
  LET dm == TLCGet("stats").diameter IN
  IF dm - 1 = Len(Rec) THEN PrintT(<<"TRACE-ACCEPTED", Len(Rec)>>)
  ELSE PrintT(<<"TRACE-REJECTED", dm>>) /\ PrintT(Rec[dm])
=============================================================================
