---------------------------- MODULE Sim_SyncImport ----------------------------
(* Simulation instance: carries the action history so that `tlc -simulate` behaviours can be replayed *)
(* on the real Import (checks/C26.py turns the chosen port answers into per-round peer scripts).      *)
EXTENDS MC_SyncImport
CONSTANT SimDepth      \* only complete behaviours of this many steps are printed
VARIABLE hist
\* sampling policy: mostly honest answers, one representative per fault kind
Good(s, n, hv) == [j \in 1..n |-> Hdr(s + j - 1, hv)]
SimHdrResps(s, n) ==
  {[kind |-> "ok", hs |-> Good(s, n, hv)] : hv \in HVs} \cup {[kind |-> "ok", hs |-> Good(s, n, 1)]}
  \cup {[kind |-> "err"],
        [kind |-> "ok", hs |-> Good(s, n - 1, 1)],                                        \* short
        [kind |-> "ok", hs |-> [j \in 1..n |-> Hdr(IF j = n THEN s + j ELSE s + j - 1, 1)]],   \* last one too high
        [kind |-> "ok", hs |-> Good(s, n + 1, 2)]}                                        \* one extra
SimTxResps(n) ==
  {[kind |-> "ok", tv |-> [j \in 1..n |-> "m"]]}
  \cup {[kind |-> "err"], [kind |-> "none"],
        [kind |-> "ok", tv |-> [j \in 1..(n - 1) |-> "m"]],
        [kind |-> "ok", tv |-> [j \in 1..n |-> IF j = n THEN "x" ELSE "m"]],
        [kind |-> "ok", tv |-> [j \in 1..(n + 1) |-> "m"]]}
SimStep ==
  \/ \E h \in Heights : IObserve(h)
  \/ Begin \/ End
  \/ \E i \in DOMAIN chunks, p \in Peers :
       \/ \E r \in SimHdrResps(chunks[i].s, NChunk(chunks[i])) : GetHeaders(i, p, r)
       \/ \E r \in SimTxResps(NChunk(chunks[i])) : GetTxs(i, p, r)
  \/ \E i \in DOMAIN chunks : CheckHeader(i, TRUE) \/ (Len(hist) % 3 = 0 /\ CheckHeader(i, FALSE))
  \/ \E p \in Peers, r \in {"MissingBlockHeaders", "BadBlockHeader", "MissingTransactions",
                            "InvalidTransactions", "SuccessfulBlockImport"} : Report(p, r)
  \/ Execute(TRUE) \/ (Len(hist) % 4 = 0 /\ Execute(FALSE))
SimInit == IInit /\ hist = <<>>
SimNext == SimStep /\ hist' = Append(hist, act')
SimSpec == SimInit /\ [][SimNext]_<<ivars, act, hist>>
EmitWalk == Len(hist) # SimDepth \/ PrintT(<<"WALK", ToJson(hist)>>)
=============================================================================
