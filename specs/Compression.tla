---------------------------- MODULE Compression ----------------------------
(* C33 — DA compression: compressed blocks decompress to the original blocks.                        *)
(*                                                                                                    *)
(* Transcribes, per registry keyspace (address, asset id, contract id, script code, predicate code): *)
(*   crates/compression/src/compress.rs        compress(): PrepareCtx pass (keep-set of accessed     *)
(*                                             keys), CompressCtx pass (changes / changes_lookup,   *)
(*                                             registry_index_lookup + is_timestamp_accessible),    *)
(*                                             finalize() (evictor commit, registrations written)   *)
(*   crates/compression/src/eviction_policy.rs CacheEvictor::new_from_db / next_key / commit        *)
(*   crates/compression/src/decompress.rs      decompress(): registrations written first, then each *)
(*                                             key resolved with the timestamp check                *)
(*   crates/compression/src/config.rs          is_timestamp_accessible                               *)
(*   crates/services/compression/src/temporal_registry.rs   write_registry (value table, reverse    *)
(*                                             index with removal of the overwritten value's entry,  *)
(*                                             timestamp table), EvictorDb (latest assigned key)     *)
(* A block is abstracted to the sequences of registry values it uses (per keyspace, in traversal    *)
(* order; `Default` = the type's default value, which is never registered) and its timestamp.               *)
EXTENDS Integers, Sequences, FiniteSets, TLC

CONSTANTS KS,          \* keyspaces
          NKeys,       \* writable keys are 0..NKeys-1 (real: 2^24 - 1); the default key is DefKey
          Values,      \* non-default abstract values
          Default,     \* the default value of the type (never registered; compressed to DefKey)
          MaxT,        \* block timestamps 0..MaxT
          Retention,   \* temporal_registry_retention (same unit as timestamps)
          MaxLen,      \* values per keyspace per block (model bound)
          Back,        \* model bound: a block's timestamp may lie at most Back below the largest one seen
          MaxLag,      \* compressed blocks the decompressor may be behind (model bound)
          JumpKeys     \* cursor positions an environment step may install (stands for a long history)

DefKey == -1           \* RegistryKey::DEFAULT_VALUE
NoKey  == -1           \* "no latest assigned key yet" (Option::None in EvictorDb)

VARIABLES creg,        \* compressor   registry: [KS -> (key -> [v, ts])]   (finite partial functions)
          cidx,        \* compressor   reverse index: [KS -> (value -> key)]
          clatest,     \* compressor   EvictorCache: latest assigned key or NoKey
          dreg, didx,  \* decompressor registry / reverse index (same tables, other database)
          queue,       \* compressed blocks not yet decompressed (in order)
          lastc,       \* result of the last compress   (ghost/result variable)
          lastd,       \* result of the last decompress (ghost/result variable)
          maxts,       \* ghost: largest block timestamp compressed so far
          act
vars == <<creg, cidx, clatest, dreg, didx, queue, lastc, lastd, maxts>>

EmptyFn == [x \in {} |-> 0]
NextKey(k) == IF k + 1 >= NKeys THEN 0 ELSE k + 1          \* RegistryKey::next (wraps below the default key)

\* Config::is_timestamp_accessible: Err when the block is older than the key, else duration <= retention
Backwards(bt, kt) == bt < kt
Accessible(bt, kt) == bt >= kt /\ bt - kt <= Retention

Put(f, k, x) == [y \in DOMAIN f \cup {k} |-> IF y = k THEN x ELSE f[y]]
Drop(f, k) == [y \in DOMAIN f \ {k} |-> f[y]]

(* ---- temporal_registry.rs: write_registry(key, value, timestamp) ---------------------------------*)
\* replace(key,value) -> old; if old exists remove RegistryIndex[old] (whatever key it points to);
\* RegistryIndex[value] := key; Timestamps[key] := timestamp
WriteReg(st, k, v, ts) ==
  LET idx1 == IF k \in DOMAIN st.reg /\ st.reg[k].v \in DOMAIN st.idx THEN Drop(st.idx, st.reg[k].v) ELSE st.idx
  IN [reg |-> Put(st.reg, k, [v |-> v, ts |-> ts]), idx |-> Put(idx1, v, k)]

\* RegistrationsPerTable::write_to_registry for one keyspace: in the order of the Vec
RECURSIVE WriteAll(_, _, _, _)
WriteAll(st, regs, i, ts) ==
  IF i > Len(regs) THEN st ELSE WriteAll(WriteReg(st, regs[i][1], regs[i][2], ts), regs, i + 1, ts)

(* ---- compress.rs ------------------------------------------------------------------------------- *)
\* PrepareCtx / CompressCtx: Err("Invalid timestamp ordering") when a used value is indexed at a key
\* whose timestamp is later than the block's
Conflict(ks, U, ts) ==
  \E i \in 1..Len(U) : /\ U[i] # Default /\ U[i] \in DOMAIN cidx[ks]
                       /\ Backwards(ts, creg[ks][cidx[ks][U[i]]].ts)

Found(ks, v, ts) == v \in DOMAIN cidx[ks] /\ Accessible(ts, creg[ks][cidx[ks][v]].ts)

\* PrepareCtx: keys accessed by the block (kept from eviction)
KeepSet(ks, U, ts) == { cidx[ks][U[i]] : i \in { j \in 1..Len(U) : U[j] # Default /\ Found(ks, U[j], ts) } }

\* CacheEvictor::next_key: first key from next_key on that is not in keep_keys
RECURSIVE Skip(_, _)
Skip(k, keep) == IF k \in keep THEN Skip(NextKey(k), keep) ELSE k

LookupChange(ch, v) == LET j == CHOOSE j \in 1..Len(ch) : ch[j][2] = v IN ch[j][1]

\* CompressCtx pass over the values of one keyspace.  s = [keep, next, ch (<<key,value>> in assignment
\* order), refs]
RECURSIVE Pass(_, _, _, _, _)
Pass(ks, U, ts, i, s) ==
  IF i > Len(U) THEN s
  ELSE LET v == U[i] IN
    IF v = Default THEN Pass(ks, U, ts, i + 1, [s EXCEPT !.refs = Append(@, DefKey)])
    ELSE IF \E j \in 1..Len(s.ch) : s.ch[j][2] = v
      THEN Pass(ks, U, ts, i + 1, [s EXCEPT !.refs = Append(@, LookupChange(s.ch, v))])
    ELSE IF Found(ks, v, ts)
      THEN Pass(ks, U, ts, i + 1, [s EXCEPT !.refs = Append(@, cidx[ks][v])])
    ELSE LET k == Skip(s.next, s.keep) IN
         Pass(ks, U, ts, i + 1, [keep |-> s.keep \cup {k}, next |-> k,
                                 ch |-> Append(s.ch, <<k, v>>), refs |-> Append(s.refs, k)])

\* CacheEvictor::new_from_db + the pass; .next is what CacheEvictor::commit persists
Compressed(ks, U, ts) ==
  Pass(ks, U, ts, 1, [keep |-> KeepSet(ks, U, ts),
                      next |-> IF clatest[ks] = NoKey THEN 0 ELSE NextKey(clatest[ks]),
                      ch |-> <<>>, refs |-> <<>>])

Distinct(U) == { U[i] : i \in 1..Len(U) } \ {Default}
SeqSet(s) == { s[i] : i \in 1..Len(s) }
IsOrderOf(regs, ch) == Len(regs) = Len(ch) /\ SeqSet(regs) = SeqSet(ch)

NoBlock == [ts |-> 0, regs |-> [ks \in KS |-> <<>>], refs |-> [ks \in KS |-> <<>>], orig |-> [ks \in KS |-> <<>>]]
NoC == [res |-> "none", blk |-> NoBlock]
NoD == [res |-> "none", out |-> [ks \in KS |-> <<>>], orig |-> [ks \in KS |-> <<>>], hdr |-> TRUE, txs |-> TRUE]

Init == /\ creg = [ks \in KS |-> EmptyFn] /\ cidx = [ks \in KS |-> EmptyFn]
        /\ clatest = [ks \in KS |-> NoKey]
        /\ dreg = [ks \in KS |-> EmptyFn] /\ didx = [ks \in KS |-> EmptyFn]
        /\ queue = <<>> /\ lastc = NoC /\ lastd = NoD /\ maxts = 0
        /\ act = [name |-> "Init"]

GhostMaxTs(ts) == maxts' = IF ts > maxts THEN ts ELSE maxts

\* compress(config, CompressionContext over a storage transaction, block); the transaction is committed
\* only when compress returns Ok (services/compression/src/service.rs compress_block).
\* `regs` = the registrations of the compressed block in the order of its Vec: the changes HashMap is
\* drained in an unspecified order, so any order of the computed changes is allowed.
CompressBlock(used, ts, regs) ==
  /\ Len(queue) < MaxLag
  /\ \A ks \in KS : Cardinality(Distinct(used[ks])) <= NKeys      \* else next_key would spin forever
  /\ IF \E ks \in KS : Conflict(ks, used[ks], ts)
     THEN /\ \A ks \in KS : regs[ks] = <<>>
          /\ lastc' = [res |-> "Err", blk |-> [NoBlock EXCEPT !.ts = ts, !.orig = used]]
          /\ UNCHANGED <<creg, cidx, clatest, queue>>
     ELSE LET c == [ks \in KS |-> Compressed(ks, used[ks], ts)]
              w == [ks \in KS |-> WriteAll([reg |-> creg[ks], idx |-> cidx[ks]], regs[ks], 1, ts)]
              blk == [ts |-> ts, regs |-> regs, refs |-> [ks \in KS |-> c[ks].refs], orig |-> used]
          IN /\ \A ks \in KS : IsOrderOf(regs[ks], c[ks].ch)
             /\ creg' = [ks \in KS |-> w[ks].reg]
             /\ cidx' = [ks \in KS |-> w[ks].idx]
             /\ clatest' = [ks \in KS |-> c[ks].next]
             /\ queue' = Append(queue, blk)
             /\ lastc' = [res |-> "Ok", blk |-> blk]
  /\ GhostMaxTs(ts)
  /\ UNCHANGED <<dreg, didx, lastd>>
  /\ act' = [name |-> "CompressBlock", used |-> used, ts |-> ts]

(* ---- decompress.rs ------------------------------------------------------------------------------*)
\* DecompressibleBy for the registry types: default key -> default value; read_timestamp (error when
\* absent); is_timestamp_accessible (error / "Timestamp not accessible"); read_registry
Resolve(reg, k, ts) ==
  IF k = DefKey THEN Default
  ELSE IF k \notin DOMAIN reg THEN -1
  ELSE IF ~Accessible(ts, reg[k].ts) THEN -1
  ELSE reg[k].v

\* decompress(config, DecompressionContext, block): the registrations are written first, then the
\* transactions are decompressed; the harness commits the storage transaction only on Ok
DecompressBlock ==
  /\ queue # <<>>
  /\ LET b == Head(queue)
         w == [ks \in KS |-> WriteAll([reg |-> dreg[ks], idx |-> didx[ks]], b.regs[ks], 1, b.ts)]
         out == [ks \in KS |-> [i \in 1..Len(b.refs[ks]) |-> Resolve(w[ks].reg, b.refs[ks][i], b.ts)]]
         ok == \A ks \in KS : \A i \in 1..Len(out[ks]) : out[ks][i] # -1
     IN /\ queue' = Tail(queue)
        /\ IF ok THEN /\ dreg' = [ks \in KS |-> w[ks].reg]
                      /\ didx' = [ks \in KS |-> w[ks].idx]
                      /\ lastd' = [res |-> "Ok", out |-> out, orig |-> b.orig, hdr |-> TRUE, txs |-> TRUE]
                 ELSE /\ UNCHANGED <<dreg, didx>>
                      /\ lastd' = [res |-> "Err", out |-> [ks \in KS |-> <<>>], orig |-> b.orig,
                                   hdr |-> TRUE, txs |-> TRUE]
  /\ UNCHANGED <<creg, cidx, clatest, lastc, maxts>>
  /\ act' = [name |-> "DecompressBlock"]

\* Environment: the persisted latest-assigned key is set through the EvictorCache table (stands for the
\* cursor position after an arbitrarily long history; the real key space has 2^24-1 keys)
Jump(ks, k) ==
  /\ clatest' = [clatest EXCEPT ![ks] = k]
  /\ UNCHANGED <<creg, cidx, dreg, didx, queue, lastc, lastd, maxts>>
  /\ act' = [name |-> "Jump", ks |-> ks, k |-> k]

(* ---- model-checking generators -------------------------------------------------------------------*)
SeqsUpTo(S, n) == UNION { [1..m -> S] : m \in 0..n }
Orders(ch) == { [i \in 1..Len(ch) |-> ch[p[i]]] : p \in Permutations(1..Len(ch)) }

NextCompress ==
  \E used \in [KS -> SeqsUpTo(Values \cup {Default}, MaxLen)] : \E ts \in (IF maxts > Back THEN maxts - Back ELSE 0)..MaxT :
    IF \E ks \in KS : Conflict(ks, used[ks], ts)
    THEN CompressBlock(used, ts, [ks \in KS |-> <<>>])
    ELSE \E regs \in [KS -> UNION { Orders(Compressed(ks, used[ks], ts).ch) : ks \in KS }] :
           CompressBlock(used, ts, regs)

Next == \/ NextCompress
        \/ DecompressBlock
        \/ \E ks \in KS : \E k \in JumpKeys : Jump(ks, k)

Spec == Init /\ [][Next]_<<vars, act>>

(* ---- the property --------------------------------------------------------------------------------*)
\* every decompressed block equals the block that was compressed (registry-carried values, header
\* fields and the remaining transaction content)
RoundTrip ==
  lastd.res # "none" => /\ lastd.res = "Ok"
                        /\ lastd.out = lastd.orig
                        /\ lastd.hdr /\ lastd.txs

\* right after a block was compressed, every reference in it resolves (in the compressor's registry)
\* to the value it replaced, with an accessible timestamp; default values use the default key
EveryRefResolvesToOriginal ==
  lastc.res = "Ok" =>
    \A ks \in KS :
      /\ Len(lastc.blk.refs[ks]) = Len(lastc.blk.orig[ks])
      /\ \A i \in 1..Len(lastc.blk.refs[ks]) :
           LET k == lastc.blk.refs[ks][i]  v == lastc.blk.orig[ks][i] IN
           IF v = Default THEN k = DefKey
           ELSE /\ k \in DOMAIN creg[ks] /\ creg[ks][k].v = v
                /\ Accessible(lastc.blk.ts, creg[ks][k].ts)

\* when the decompressor has caught up, both registries hold the same key -> <value, timestamp> map
RegistriesAgree == queue = <<>> => \A ks \in KS : dreg[ks] = creg[ks]

\* blocks whose timestamps do not go backwards are always compressible
CompressTotal == (lastc.res # "Ok" /\ lastc.res # "none") => lastc.blk.ts < maxts

\* auxiliary (model only): the reverse index never points at a key holding another value
IndexSound ==
  \A ks \in KS : \A v \in DOMAIN cidx[ks] :
    cidx[ks][v] \in DOMAIN creg[ks] /\ creg[ks][cidx[ks][v]].v = v

\* the same four statements about the successor of every step (TLC checks implied actions on every
\* transition, so the result variables lastc / lastd can stay out of the model checker's VIEW)
RoundTripStep == [][RoundTrip']_vars
EveryRefStep == [][EveryRefResolvesToOriginal']_vars
RegistriesAgreeStep == [][RegistriesAgree']_vars
CompressTotalStep == [][CompressTotal']_vars

StateRec == [creg |-> creg, cidx |-> cidx, clatest |-> clatest, dreg |-> dreg, didx |-> didx,
             queue |-> queue, lastc |-> lastc, lastd |-> lastd, maxts |-> maxts]
=============================================================================
