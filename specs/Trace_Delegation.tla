---------------------------- MODULE Trace_Delegation ----------------------------
(* Trace validation of the real tx status manager service (new_service behind a fake P2P port,  *)
(* real secp256k1 protocol keys and ed25519 delegate keys) against Delegation.                   *)
(* Each gossip event logs the wall-clock second (relative to the walk's base) read before (tb)   *)
(* and after (t) the message was handled; the service's own Tai64::now() lies in between, so the *)
(* action's time parameter ranges over tb..t (one value unless a second boundary was crossed).   *)
(* STRICT=1: verdict, the broadcast updates and get_status of every tx must be what the spec     *)
(* computes.  STRICT=0: status/now are bound to the log; the ghosts get the logged verdict and    *)
(* whether anything changed; the invariants judge.                                               *)
EXTENDS Delegation, Json, IOUtils

Rec == ndJsonDeserialize(IOEnv.TRACE)
Strict == IOEnv.STRICT = "1"

VARIABLE l
tvars == <<vars, act, l>>

IsEv(e) == l <= Len(Rec) /\ Rec[l].ev = e /\ l' = l + 1
Max(a, b) == IF a >= b THEN a ELSE b
LStatus(r) == [x \in Txs |-> [k |-> r.st[x].k, n |-> r.st[x].n]]
LUpd(r) == [i \in 1..Len(r.upd) |-> [tx |-> r.upd[i].tx, k |-> r.upd[i].k, n |-> r.upd[i].n]]
SeqOf(a) == [i \in 1..Len(a) |-> a[i]]
LChanged(r) == LStatus(r) # status \/ Len(r.upd) > 0
TimesOf(r) == Max(now, r.tb)..Max(now, r.t)

TInit == Init /\ l = 1

TReset == /\ IsEv("reset")
          /\ now' = 0 /\ curPK' = 1 /\ dmap' = {} /\ status' = [x \in Txs |-> NoStat] /\ ev' = 0
          /\ delegs' = {} /\ last' = NoLast
          /\ act' = [name |-> "reset"]

TDelegate == IsEv("Delegate") /\ LET r == Rec[l] IN
  IF Strict
  THEN \E t \in TimesOf(r) :
         /\ Delegate(t, r.pk, r.dk, r.exp, r.tamper)
         /\ r.verdict = last'.verdict /\ r.idok /\ r.n = ev' /\ Len(r.upd) = 0 /\ LStatus(r) = status'
  ELSE /\ now' = Max(now, r.t) /\ status' = LStatus(r) /\ ev' = ev + 1
       /\ UNCHANGED <<curPK, dmap>>
       /\ GhostDelegate(Max(now, r.t), r.pk, r.dk, r.exp, r.tamper, r.verdict, r.idok, LChanged(r))
       /\ act' = [name |-> "Delegate"]

TPreconfs == IsEv("Preconfs") /\ LET r == Rec[l] IN
  IF Strict
  THEN \E t \in TimesOf(r) :
         /\ Preconfs(t, r.dk, r.exp, r.tamper, SeqOf(r.txs), SeqOf(r.kinds))
         /\ r.verdict = last'.verdict /\ r.idok /\ r.n = ev' /\ LStatus(r) = status'
         /\ LUpd(r) = (IF last'.verdict = "Accept" THEN Updates(SeqOf(r.txs), SeqOf(r.kinds), ev') ELSE <<>>)
  ELSE /\ now' = Max(now, r.t) /\ status' = LStatus(r) /\ ev' = ev + 1
       /\ UNCHANGED <<curPK, dmap>>
       /\ GhostPreconfs(Max(now, r.t), r.dk, r.exp, r.tamper, r.verdict, r.idok, LChanged(r))
       /\ act' = [name |-> "Preconfs"]

TRotate == IsEv("Rotate") /\ LET r == Rec[l] IN
  IF Strict THEN Rotate(r.pk)
  ELSE curPK' = r.pk /\ UNCHANGED <<now, dmap, status, ev>> /\ GhostQuiet /\ act' = [name |-> "Rotate"]

TSleep == IsEv("Sleep") /\ LET r == Rec[l] IN
  IF Strict THEN \E t \in TimesOf(r) : Sleep(t)
  ELSE now' = Max(now, r.t) /\ UNCHANGED <<curPK, dmap, status, ev>> /\ GhostQuiet /\ act' = [name |-> "Sleep"]

TNext == TReset \/ TDelegate \/ TPreconfs \/ TRotate \/ TSleep
TSpec == TInit /\ [][TNext]_tvars

TraceAccepted ==
  LET d == TLCGet("stats").diameter IN
  IF d - 1 = Len(Rec) THEN PrintT(<<"TRACE-ACCEPTED", Len(Rec)>>)
  ELSE PrintT(<<"TRACE-REJECTED", d>>) /\ PrintT(Rec[d])
=============================================================================
