---------------------------- MODULE MC_Genesis ----------------------------
(* Model-checking instance of Genesis: four workers over three snapshot tables — two on-chain      *)
(* identity migrations (one of a table the JSON encoding drops), one contract-state table whose    *)
(* entries span several groups, one off-chain worker that reads the coins table a second time.     *)
EXTENDS Genesis, Json
MCWorlds == << [n |-> ("Coins" :> 2 @@ "ContractsState" :> 3 @@ "ProcessedTransactions" :> 1), h |-> 2] >>
MCWorldsBig == << [n |-> ("Coins" :> 3 @@ "ContractsState" :> 4 @@ "ProcessedTransactions" :> 2), h |-> 2],
                  [n |-> ("Coins" :> 1 @@ "ContractsState" :> 0 @@ "ProcessedTransactions" :> 0), h |-> 0] >>
View == vars
=============================================================================
