SPECIFICATION SimSpec
CONSTANTS
  Migs <- AllMigs
  Worlds <- NoWorlds
  GroupSizes = {}
  Encodings = {}
  MaxCrashes = 3
  WithDrop = TRUE
  ClearOffEarly = FALSE
INVARIANT EmitWalk
INVARIANT ImportedEqualsExportedCarried
INVARIANT FinalEqualsUninterrupted
INVARIANT EachGroupOnce
CHECK_DEADLOCK FALSE
