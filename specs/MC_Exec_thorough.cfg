SPECIFICATION MCSpec
CONSTANT MaxBlocks = 2
CONSTANT MaxTry = 3
CONSTANT WalkLen = 0
CONSTANT TxIds = {"t1", "t2", "t3", "t4", "t7", "t9", "t10"}
CONSTANT Recipients = {"none", "c1"}
CONSTANT GasPrices = {0, 1}
VIEW View
INVARIANT PhaseOk
INVARIANT AskedWhatIsLeft
INVARIANT BlockAsSpec
INVARIANT CoinsAsSpec
INVARIANT CommitIsProduced
INVARIANT CreatedFresh
INVARIANT DaExact
INVARIANT DupRejected
INVARIANT EventsAreDiff
INVARIANT EventsAsSpec
INVARIANT ExecutedOnce
INVARIANT ProcessedRecorded
INVARIANT ForcedExecutedOrFailed
INVARIANT ImportedInOrder
INVARIANT InboxRoot
INVARIANT Limits
INVARIANT MessageImportedOnce
INVARIANT MessagesLand
INVARIANT MintRules
INVARIANT MintTamperedRejected
INVARIANT ReplayOk
INVARIANT RevertFrame
INVARIANT SkipFrame
INVARIANT SpentExisted
INVARIANT SpentOnce
INVARIANT TamperedRejected
INVARIANT ValidateAccepts
CHECK_DEADLOCK FALSE
