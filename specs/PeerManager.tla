---------------------------- MODULE PeerManager ----------------------------
(* C31 — fuel-core-p2p `PeerManager` + `ConnectionState` + `ConnectionTracker`               *)
(* (crates/services/p2p/src/peer_manager.rs, config/connection_tracker.rs).                  *)
(* One action per public method of PeerManager, transcribed statement by statement:          *)
(*   New            PeerManager::new + ConnectionState::new + ConnectionTracker::new         *)
(*   Connect(p)     handle_peer_connected -> handle_initial_connection                       *)
(*   Disconnect(p)  handle_peer_disconnect                                                   *)
(*   Score(p,d)     update_app_score(p, d, .., punisher)                                     *)
(*   Gossip(p,g)    handle_gossip_score_update(p, g, punisher)                               *)
(*   Decay          batch_update_score_with_decay                                            *)
(*   Identify(p)    handle_peer_identified (no effect on slots / scores)                     *)
(* `allowed` is ConnectionState.peers_allowed (the SeqLock-shared flag), `admits` is the set *)
(* of peers for which the real ConnectionTracker::allow_peer answers true.                   *)
(* Scores are f64 in the code; here they are integers scaled by Scale = 10^MaxDecay so that  *)
(* at most MaxDecay multiplications by DECAY_APP_SCORE = 0.9 stay exact.                     *)
EXTENDS Integers, FiniteSets, TLC

CONSTANTS Reserved,      \* reserved peer names
          Others,        \* non-reserved peer names
          Limits,        \* candidate values of max_non_reserved_peers
          Deltas,        \* app-score deltas (unscaled integers)
          Scored,        \* peers that receive Score / Gossip reports (bounds the model)
          MaxDecay       \* number of Decay actions per history

Peers == Reserved \cup Others
DeltasDefault == {150, 0 - 60}     \* cfg files cannot write negative numbers: Deltas <- DeltasDefault

RECURSIVE Pow10(_)
Pow10(n) == IF n = 0 THEN 1 ELSE 10 * Pow10(n - 1)
Scale == Pow10(MaxDecay)
MaxS  == 150 * Scale          \* MAX_APP_SCORE
MinS  == (0 - 50) * Scale     \* MIN_APP_SCORE
Min(a, b) == IF a <= b THEN a ELSE b

VARIABLES limit,         \* max_non_reserved_peers; -1 = objects not created yet
          nonres,        \* keys of non_reserved_connected_peers
          res,           \* keys of reserved_connected_peers
          score,         \* [Peers -> scaled score]; 0 for peers that are not connected
          allowed,       \* ConnectionState.peers_allowed
          admits,        \* {p : ConnectionTracker::allow_peer(p)}
          banned,        \* ghost: every peer the Punisher was ever asked to ban
          decays,        \* number of Decay actions so far (bound)
          act            \* label of the last action (kept out of VIEW)

vars == <<limit, nonres, res, score, allowed, admits, banned, decays>>

Zero == [p \in Peers |-> 0]
AdmitSet(flag) == Reserved \cup (IF flag THEN Others ELSE {})
SlotFree == Cardinality(nonres) < limit

Init ==
  /\ limit = -1 /\ nonres = {} /\ res = {} /\ score = Zero
  /\ allowed = TRUE /\ admits = {} /\ banned = {} /\ decays = 0
  /\ act = [name |-> "Init"]

\* ghost updates, shared with the trace spec's observe mode
GhostBan(bs)   == banned' = banned \cup bs
GhostDecay(n)  == decays' = decays + n

(* ---- PeerManager::new(.., reserved, writer, max): the flag is closed at once when there ---*)
(* ---- is no slot at all (max = 0)  [fix: see known_findings.d/C31.json]                  ---*)
New(l) ==
  /\ limit = -1
  /\ limit' = l
  /\ allowed' = (l # 0)
  /\ admits' = AdmitSet(allowed')
  /\ UNCHANGED <<nonres, res, score>>
  /\ GhostBan({}) /\ GhostDecay(0)
  /\ act' = [name |-> "New", limit |-> l]

(* ---- handle_initial_connection; result TRUE = "disconnect this peer" ---------------------*)
ConnectRes(p) == p \notin Reserved /\ p \notin nonres /\ Cardinality(nonres) >= limit
Connect(p) ==
  /\ limit >= 0
  /\ IF p \notin Reserved /\ p \notin nonres THEN
       IF Cardinality(nonres) >= limit
       THEN UNCHANGED <<nonres, res, score, allowed>>
       ELSE /\ allowed' = IF Cardinality(nonres) + 1 = limit THEN FALSE ELSE allowed
            /\ nonres' = nonres \cup {p}
            /\ score' = [score EXCEPT ![p] = 0]
            /\ UNCHANGED res
     ELSE IF p \in Reserved /\ p \notin res THEN
       /\ res' = res \cup {p}
       /\ score' = [score EXCEPT ![p] = 0]
       /\ UNCHANGED <<nonres, allowed>>
     ELSE UNCHANGED <<nonres, res, score, allowed>>
  /\ admits' = AdmitSet(allowed')
  /\ UNCHANGED limit /\ GhostBan({}) /\ GhostDecay(0)
  /\ act' = [name |-> "Connect", p |-> p, res |-> ConnectRes(p)]

(* ---- handle_peer_disconnect; result TRUE = "try to reconnect" ------------------------------*)
(* all_slots_taken = (max == len) before the removal  [fix: was max == len + 1]               *)
DisconnectRes(p) == p \in Reserved /\ p \in res
Disconnect(p) ==
  /\ limit >= 0
  /\ IF p \notin Reserved THEN
       LET taken == limit = Cardinality(nonres) IN
       /\ nonres' = nonres \ {p}
       /\ allowed' = IF p \in nonres /\ taken THEN TRUE ELSE allowed
       /\ score' = [score EXCEPT ![p] = 0]
       /\ UNCHANGED res
     ELSE
       /\ res' = res \ {p}
       /\ score' = [score EXCEPT ![p] = 0]
       /\ UNCHANGED <<nonres, allowed>>
  /\ admits' = AdmitSet(allowed')
  /\ UNCHANGED limit /\ GhostBan({}) /\ GhostDecay(0)
  /\ act' = [name |-> "Disconnect", p |-> p, res |-> DisconnectRes(p)]

(* ---- update_app_score: only the non-reserved table is looked up ---------------------------*)
NewScore(p, d) == Min(MaxS, score[p] + d * Scale)
ScoreBans(p, d) == IF p \in nonres /\ NewScore(p, d) < MinS THEN {p} ELSE {}
Score(p, d) ==
  /\ limit >= 0
  /\ d < 0 => score[p] >= MinS           \* bound: a peer already below the ban line is not punished further
  /\ score' = IF p \in nonres THEN [score EXCEPT ![p] = NewScore(p, d)] ELSE score
  /\ GhostBan(ScoreBans(p, d)) /\ GhostDecay(0)
  /\ UNCHANGED <<limit, nonres, res, allowed, admits>>
  /\ act' = [name |-> "Score", p |-> p, d |-> d, bans |-> ScoreBans(p, d)]

(* ---- handle_gossip_score_update: g = "low" is below GRAYLIST_THRESHOLD, "ok" is exactly it *)
GossipBans(p, g) == IF g = "low" /\ p \notin Reserved THEN {p} ELSE {}
Gossip(p, g) ==
  /\ limit >= 0
  /\ GhostBan(GossipBans(p, g)) /\ GhostDecay(0)
  /\ UNCHANGED <<limit, nonres, res, score, allowed, admits>>
  /\ act' = [name |-> "Gossip", p |-> p, g |-> g, bans |-> GossipBans(p, g)]

(* ---- batch_update_score_with_decay: non-reserved table only, score *= 0.9 -----------------*)
Decay ==
  /\ limit >= 0
  /\ decays < MaxDecay
  /\ score' = [p \in Peers |-> IF p \in nonres THEN (score[p] * 9) \div 10 ELSE score[p]]
  /\ GhostBan({}) /\ GhostDecay(1)
  /\ UNCHANGED <<limit, nonres, res, allowed, admits>>
  /\ act' = [name |-> "Decay"]

(* ---- handle_peer_identified: fills client version / addresses of a connected peer ---------*)
Identify(p) ==
  /\ limit >= 0
  /\ GhostBan({}) /\ GhostDecay(0)
  /\ UNCHANGED <<limit, nonres, res, score, allowed, admits>>
  /\ act' = [name |-> "Identify", p |-> p]

Next ==
  \/ \E l \in Limits : New(l)
  \/ \E p \in Peers : Connect(p) \/ Disconnect(p) \/ Identify(p)
  \/ \E p \in Scored, d \in Deltas : Score(p, d)
  \/ \E p \in Scored, g \in {"low", "ok"} : Gossip(p, g)
  \/ Decay

Spec == Init /\ [][Next]_<<vars, act>>

(* ---- the property ---------------------------------------------------------------------------*)
Born == limit >= 0
\* the number of connected non-reserved peers never exceeds the limit
NonReservedWithinLimit == Born => Cardinality(nonres) <= limit
\* the shared flag, and what the connection tracker answers for a new non-reserved peer, say
\* "admit" exactly when a slot is free
AdmittedIffSlotFree ==
  Born => /\ allowed <=> SlotFree
          /\ \A o \in Others \ nonres : (o \in admits) <=> SlotFree
\* reserved peers are always admitted by the tracker and never handed to the punisher
ReservedAlwaysAdmittedNeverBanned == Born => (Reserved \subseteq admits /\ banned \cap Reserved = {})
\* no reputation above MAX_APP_SCORE
ScoreWithinMax == \A p \in Peers : score[p] <= MaxS
\* the manager itself admits a new non-reserved peer exactly when a slot is free, and a
\* reserved peer always (judged on the state before the call)
ConnectAdmissionOk ==
  act'.name = "Connect" =>
    LET p == act'.p IN
    /\ act'.res = (p \notin Reserved /\ p \notin nonres /\ ~SlotFree)
    /\ ~act'.res => (p \in nonres' \cup res')
    /\ act'.res => p \notin nonres'
ConnectAdmission == [][ConnectAdmissionOk]_<<vars, act>>

StateRec == [limit |-> limit, nonres |-> nonres, res |-> res, score |-> score, allowed |-> allowed,
             admits |-> admits, banned |-> banned, decays |-> decays]
=============================================================================
