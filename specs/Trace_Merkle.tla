---------------------------- MODULE Trace_Merkle ----------------------------
(* Trace validation of the real Merklized (FuelBlocks) and Sparse (compression registry)       *)
(* blueprints against Merkle.  Dense events log `tab` (leaf id stored per height), `meta`       *)
(* ([has, seq] per height: the recorded root as the leaf sequence whose reference root it is)   *)
(* and `latest`; sparse events log `tab`, `root` (entry set whose from-scratch root it is) and  *)
(* `meta` per primary key.  STRICT=1: the event is the spec's action with the logged result and *)
(* post-state.  STRICT=0: implementation-side variables bound to the log, ghosts follow the     *)
(* reference rules, only invariants / properties judge.                                         *)
EXTENDS Merkle, Json, IOUtils

Rec == ndJsonDeserialize(IOEnv.TRACE)
Strict == IOEnv.STRICT = "1"

VARIABLE l
tvars == <<vars, act, l>>
IsEv(e) == l <= Len(Rec) /\ Rec[l].ev = e /\ l' = l + 1

TInit == Init /\ l = 1
TReset ==
  /\ IsEv("reset")
  /\ dtab' = [k \in DKeys |-> 0] /\ dmeta' = [k \in DKeys |-> NoMeta] /\ dlatest' = NoMeta /\ gl' = <<>>
  /\ stab' = [p \in PKs |-> EmptySet] /\ sroot' = [p \in PKs |-> EmptySet]
  /\ smeta' = [p \in PKs |-> FALSE] /\ gtab' = [p \in PKs |-> EmptySet]
  /\ act' = [name |-> "reset"]

\* a panic of the code under test is logged as data: never a step of the spec (strict), judged by
\* NoPanic on the label (observe)
(* ---- dense ------------------------------------------------------------------------------*)
\* heights are 0-based, JSON arrays 1-based
MetaOf(m) == [has |-> m.has, seq |-> m.seq]
LTab(r) == [k \in DKeys |-> r.tab[k + 1]]
LMeta(r) == [k \in DKeys |-> MetaOf(r.meta[k + 1])]
DBind(r, Act, G, a) ==
  IF Strict THEN ~r.panic /\ Act /\ dtab' = LTab(r) /\ dmeta' = LMeta(r) /\ dlatest' = MetaOf(r.latest) /\ act' = a
            ELSE /\ dtab' = LTab(r) /\ dmeta' = LMeta(r) /\ dlatest' = MetaOf(r.latest)
                 /\ G /\ UNCHANGED svars /\ act' = a @@ [panic |-> r.panic]

TDInsert == IsEv("DInsert") /\ LET r == Rec[l] IN
  DBind(r, DInsert(r.k, r.v), GhostPush(r.k, Leaf(r.k, r.v)), [name |-> "DInsert", k |-> r.k, v |-> r.v, res |-> r.res])
TDReplace == IsEv("DReplace") /\ LET r == Rec[l] IN
  DBind(r, DReplace(r.k, r.v), GhostPush(r.k, Leaf(r.k, r.v)), [name |-> "DReplace", k |-> r.k, v |-> r.v, res |-> r.res])
TDTake == IsEv("DTake") /\ LET r == Rec[l] IN
  DBind(r, DTake(r.k), GhostDSame, [name |-> "DTake", k |-> r.k, res |-> r.res])
TDRemove == IsEv("DRemove") /\ LET r == Rec[l] IN
  DBind(r, DRemove(r.k), GhostDSame, [name |-> "DRemove", k |-> r.k, res |-> r.res])
TDBatchInit == IsEv("DBatchInit") /\ LET r == Rec[l] IN
  DBind(r, DBatchInit(r.items), GhostBatch(r.items), [name |-> "DBatchInit", items |-> r.items, res |-> r.res])
TDBatchInsert == IsEv("DBatchInsert") /\ LET r == Rec[l] IN
  DBind(r, DBatchInsert(r.items), GhostBatch(r.items), [name |-> "DBatchInsert", items |-> r.items, res |-> r.res])
TDBatchRemove == IsEv("DBatchRemove") /\ LET r == Rec[l] IN
  DBind(r, DBatchRemove(r.ks), GhostDSame, [name |-> "DBatchRemove", ks |-> r.ks, res |-> r.res])
TDCommit == IsEv("DCommit") /\ LET r == Rec[l] IN
  DBind(r, DCommit, GhostDSame, [name |-> "DCommit"])

(* ---- sparse -----------------------------------------------------------------------------*)
Row(a) == [s \in Subs |-> a[s]]
LSTab(r) == [p \in PKs |-> Row(r.tab[p])]
LSRoot(r) == [p \in PKs |-> Row(r.root[p])]
LSMeta(r) == [p \in PKs |-> r.meta[p]]
SBind(r, Act, G, a) ==
  IF Strict THEN ~r.panic /\ Act /\ stab' = LSTab(r) /\ sroot' = LSRoot(r) /\ smeta' = LSMeta(r) /\ act' = a
            ELSE /\ stab' = LSTab(r) /\ sroot' = LSRoot(r) /\ smeta' = LSMeta(r)
                 /\ G /\ UNCHANGED dvars /\ act' = a @@ [panic |-> r.panic]
ToSet(a) == {a[i] : i \in 1..Len(a)}

TSInsert == IsEv("SInsert") /\ LET r == Rec[l] IN
  SBind(r, SInsert(r.pk, r.s, r.v), GhostSPut(r.pk, One(r.s, r.v)),
        [name |-> "SInsert", pk |-> r.pk, s |-> r.s, v |-> r.v, res |-> r.res])
TSReplace == IsEv("SReplace") /\ LET r == Rec[l] IN
  SBind(r, SReplace(r.pk, r.s, r.v), GhostSPut(r.pk, One(r.s, r.v)),
        [name |-> "SReplace", pk |-> r.pk, s |-> r.s, v |-> r.v, res |-> r.res])
TSTake == IsEv("STake") /\ LET r == Rec[l] IN
  SBind(r, STake(r.pk, r.s), GhostSDel(r.pk, {r.s}), [name |-> "STake", pk |-> r.pk, s |-> r.s, res |-> r.res])
TSRemove == IsEv("SRemove") /\ LET r == Rec[l] IN
  SBind(r, SRemove(r.pk, r.s), GhostSDel(r.pk, {r.s}), [name |-> "SRemove", pk |-> r.pk, s |-> r.s, res |-> r.res])
\* the reference table model: an accepted batch init / insert writes its entries
TSBatchInit == IsEv("SBatchInit") /\ LET r == Rec[l] f == Row(r.f) IN
  SBind(r, SBatchInit(r.pk, f), IF r.res = "ok" THEN GhostSPut(r.pk, f) ELSE GhostSSame,
        [name |-> "SBatchInit", pk |-> r.pk, f |-> f, res |-> r.res])
TSBatchInsert == IsEv("SBatchInsert") /\ LET r == Rec[l] f == Row(r.f) IN
  SBind(r, SBatchInsert(r.pk, f), IF r.res = "ok" THEN GhostSPut(r.pk, f) ELSE GhostSSame,
        [name |-> "SBatchInsert", pk |-> r.pk, f |-> f, res |-> r.res])
TSBatchRemove == IsEv("SBatchRemove") /\ LET r == Rec[l] IN
  SBind(r, SBatchRemove(r.pk, ToSet(r.ss)), IF r.res = "ok" THEN GhostSDel(r.pk, ToSet(r.ss)) ELSE GhostSSame,
        [name |-> "SBatchRemove", pk |-> r.pk, ss |-> ToSet(r.ss), res |-> r.res])
TSCommit == IsEv("SCommit") /\ LET r == Rec[l] IN
  SBind(r, SCommit, GhostSSame, [name |-> "SCommit"])

TNext == \/ TReset
         \/ TDInsert \/ TDReplace \/ TDTake \/ TDRemove \/ TDBatchInit \/ TDBatchInsert \/ TDBatchRemove \/ TDCommit
         \/ TSInsert \/ TSReplace \/ TSTake \/ TSRemove \/ TSBatchInit \/ TSBatchInsert \/ TSBatchRemove \/ TSCommit
TSpec == TInit /\ [][TNext]_tvars

TraceAccepted ==
  LET d == TLCGet("stats").diameter IN
  IF d - 1 = Len(Rec) THEN PrintT(<<"TRACE-ACCEPTED", Len(Rec)>>)
  ELSE PrintT(<<"TRACE-REJECTED", d>>) /\ PrintT(Rec[d])
=============================================================================
