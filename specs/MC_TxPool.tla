---------------------------- MODULE MC_TxPool ----------------------------
(* Model-checking / simulation instance of TxPool: bounded menus for the environment's choices and a     *)
(* history variable (outside VIEW; JSON action labels) that `tlc -simulate file=..` writes with each       *)
(* behaviour: tools/txpool_common.py turns those files into walks for the harness (B2).                   *)
EXTENDS TxPool, Json

CONSTANT WalkLen
VARIABLE hist

Ords(S) == IF Cardinality(S) <= 1 THEN {<<>>} ELSE SetToSeqs(S)

ValidTxs == {t \in TxIds : TxValidOn(db, t)}
Blocks ==
  {<<>>} \cup {<<a>> : a \in ValidTxs}
  \cup UNION {{<<a, b>> : b \in {x \in TxIds : x # a /\ TxValidOn(Apply(db, a), x)}} : a \in ValidTxs}
Waited == {t \in TxIds : \E x \in DOMAIN P.pend : \E i \in DOMAIN P.pend[x] :
                            P.pend[x][i].key \in CoinOut(t) \cup Creates(t)}
PreconfCands == P.pool \cup g.handed \cup Waited \cup {"t1", "t8"}
StaleTxs == {e[2] : e \in P.tpre}
ExpireCands == {<<x>> : x \in P.pool \cup {"t1"}} \cup {<<x, y>> : x \in P.pool, y \in P.pool}

NextMC ==
  \/ \E t \in TxIds : \E ord \in Ords(P.exec) : Insert(t, ord)
  \/ \E ord \in Ords(P.exec) : InsertQueued(ord)
  \/ \E c \in DOMAIN Cstr : \E ord \in Ords(P.pool) : Extract(c, ord)
  \/ /\ P.height < MaxHeight
     /\ \E txs \in Blocks : \E oc \in Ords(Range(txs)) : \E os \in Ords(StaleTxs) : Block(txs, oc, os, <<>>)
  \/ \E t \in PreconfCands : \E kind \in {"S", "F", "Q"} : \E outs \in BOOLEAN :
       \E h \in {P.height, P.height + 1, P.height + 2} :
         /\ (kind = "Q" => outs = FALSE /\ h = P.height)
         /\ Preconf(t, kind, outs, h, <<>>)
  \/ \E ids \in ExpireCands : Expire(ids)
  \/ DOMAIN P.pend # {} /\ ExpirePending

InitMC == Init /\ hist = <<>>
StepMC == NextMC /\ hist' = Append(hist, ToJson(act'))
SpecMC == InitMC /\ [][StepMC]_<<vars, act, hist>>

View == vars
\* bounded breadth-first search: depth limit through the history length
DepthBound == Len(hist) < WalkLen
=============================================================================
