SPECIFICATION Spec
VIEW View
ACTION_CONSTRAINT EmitEdge
CHECK_DEADLOCK FALSE
