----------------------------- MODULE MC_ReadOnly -----------------------------
(* Model-checking instance of ReadOnly: every request of a bounded request space in every reachable chain   *)
(* state.  The ghost memo is kept to one remembered request (CONSTRAINT): a violation of Repeatable needs   *)
(* only the remembered request and its repetition, and read-only steps never change anything else.          *)
EXTENDS ReadOnly

CONSTANT Full   \* TRUE: the whole request space (thorough tier); FALSE: a cross-section of it

Ats == IF Full THEN 0..(height + 2) ELSE {0, height, height + 2}
Seconds(t1) == IF Full THEN DTx ELSE {t1, [k |-> "inc", c |-> 2]}

MCNext ==
  \* ("rev" changes the chain exactly like "ok": only the thorough tier commits it)
  \/ \E t \in WTx : (Full \/ t.k # "rev") /\ Submit(t)
  \/ height < 1 + MaxBlocks /\ Produce
  \/ \E t \in DTx : \E at \in Ats : \E uv \in (IF Full THEN {-1, 0, 1} ELSE {-1, 0}) :
       DryRun(<<t>>, at, uv, FALSE, -1, 0)
  \* storage-read recording and the gas price do not enter the abstract answer
  \/ \E t \in (IF Full THEN DTx ELSE {[k |-> "inc", c |-> 1], GhostTx}) : \E at \in (IF Full THEN Ats ELSE {0}) :
     \E gp \in (IF Full THEN {0, 1} ELSE {1}) :
       DryRun(<<t>>, at, -1, TRUE, gp, 0)
  \/ \E t1 \in DTx : \E t2 \in Seconds(t1) : \E uv \in (IF Full THEN {-1, 0} ELSE {-1}) :
       DryRun(<<t1, t2>>, 0, uv, FALSE, -1, 0)
  \/ \E p \in Preds : Est(p, 0)
  \* the concrete assembled transaction may differ between calls when the coin selection has a choice
  \/ \E k \in WKinds : \E who \in Whos : \E dg \in (IF AsmDet(who) THEN {0} ELSE {0, 1}) : Asm(k, who, dg)

MCSpec == Init /\ [][MCNext]_<<vars, act>>
OneMemo == Cardinality(DOMAIN memo) <= 1
View == vars
=============================================================================
