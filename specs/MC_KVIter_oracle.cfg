SPECIFICATION SpecNoQuery
CONSTANT Bytes = {0, 1, 255}
CONSTANT MaxLen = 2
CONSTANT Cols = {"a"}
CONSTANT Vals = {1}
CONSTANT Backends = {"mem", "rocks"}
CONSTANT MaxOps = 1
CONSTANT MaxList = 0
VIEW View
INVARIANT ContentsAgree
INVARIANT AllQueriesExact
CHECK_DEADLOCK FALSE
