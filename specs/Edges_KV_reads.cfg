SPECIFICATION Spec
CONSTANT CellSet <- CellsOne
CONSTANT NVals = 2
CONSTANT MaxDepth = 2
CONSTANT MaxDet = 0
CONSTANT Pols = {"O"}
CONSTANT Offs = {0, 1, 3, 4}
CONSTANT Lens = {0, 1, 2, 4}
CONSTANT Reads = TRUE
VIEW View
ACTION_CONSTRAINT EmitEdge
CHECK_DEADLOCK FALSE
