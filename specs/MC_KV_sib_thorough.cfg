SPECIFICATION Spec
CONSTANT CellSet <- CellsThree
CONSTANT NVals = 1
CONSTANT MaxDepth = 1
CONSTANT MaxDet = 2
CONSTANT Pols = {"F", "O"}
CONSTANT Offs = {}
CONSTANT Lens = {}
CONSTANT Reads = FALSE
VIEW View
INVARIANT ReadYourWrites
INVARIANT AllLevels
INVARIANT Shape
PROPERTY ResultsExact
PROPERTY ConflictExact
CHECK_DEADLOCK FALSE
