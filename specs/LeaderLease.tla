---------------------------- MODULE LeaderLease ----------------------------
(* C25 - replicated PoA sequencers on a quorum of independent Redis nodes.                  *)
(*                                                                                          *)
(* Structured like the code, not like the design note (docs/poa/failover.md):               *)
(*  - LuaExec   : the six scripts of crates/fuel-core/redis_leader_lease_adapter_scripts,   *)
(*                each one atomic step on ONE node, transcribed statement by statement      *)
(*                (write_block.lua: identity, stale token, heal, reverse scan for the       *)
(*                posted height, XADD; read_latest_stream_entry.lua: LAST APPENDED entry).  *)
(*                EarlyStop = FALSE is the script of the repository (the scan covers the    *)
(*                whole stream, /repo commit "fix: write_block.lua scans the whole stream"); *)
(*                EarlyStop = TRUE is the script before that fix, kept as a regression       *)
(*                configuration: TLC finds two blocks of one height on a quorum.            *)
(*  - Decide    : RedisLeaderLeaseAdapter (service/adapters/consensus_module/poa.rs), one    *)
(*                branch per function: has_lease_owner_quorum (+ lock expansion, epoch      *)
(*                adoption), acquire_lease_if_free, should_reconcile_from_stream,           *)
(*                unreconciled_blocks (votes per <<node, epoch>> entry grouped by block id,  *)
(*                winner by max epoch, contiguous walk), repair_sub_quorum_block,           *)
(*                publish_block_on_all_nodes / publish_produced_block, release_if_owner,    *)
(*                calculate_quorum.                                                         *)
(*  - the replica program (pc) mirrors PoA MainTask::try_to_produce_block and the importer: *)
(*                leader_state -> import reconciled blocks | produce -> publish -> local    *)
(*                commit; a failed production is followed by release().                     *)
(* Every quorum operation of the adapter (one join_all / one thread fan-out) is a PHASE: the *)
(* same script is sent to a set of target nodes.  Step(r, F) resolves the RPCs of the nodes  *)
(* in DOMAIN F with fates F[n]:                                                             *)
(*    "ok"   executed, reply delivered        "drop" never executed, caller sees an error   *)
(*    "lost" executed, reply lost             "hold" caller gives up (error/timeout), the   *)
(*                                                   request executes later (LateExec)      *)
(* The phase is decided when all its targets are resolved.  Coarse configuration: DOMAIN F  *)
(* = all targets (one action per quorum operation); fine configuration: one RPC per step.   *)
EXTENDS Integers, Sequences, FiniteSets, TLC

CONSTANTS Replica, Node, NoReplica,
          MaxHeight,     \* heights 1..MaxHeight are produced
          MaxEpoch,      \* state constraint: node epochs explored up to MaxEpoch
          MaxMade,       \* state constraint: blocks produced per replica
          MaxLate,       \* at most this many abandoned requests in flight
          MaxInc,        \* crashes (adapter re-creations) per replica
          Budget,        \* quorum_disruption_budget = nodes that may lose their data
          LateKinds,     \* script kinds that may execute after the caller gave up
          EarlyStop      \* TRUE: write_block.lua stops its reverse scan at the first lower height
                         \* (the script before the fix); FALSE: it scans the whole stream

VARIABLES lock,          \* [Node -> owner]      <lease_key>            (TTL = Expire action)
          epoch,         \* [Node -> Nat]        <lease_key>:epoch:token
          stream,        \* [Node -> Seq([h, b, e])]  <lease_key>:block:stream, in XADD order
          lost,          \* ghost: nodes that lost their data at least once
          inc,           \* [Replica -> Nat]     adapter incarnation (new lease_owner_token UUID)
          token,         \* [Replica -> Int]     current_epoch_token, -1 = None
          chain,         \* [Replica -> Seq(block)]  local database (survives crashes)
          made,          \* [Replica -> Nat]     blocks produced so far (block identity)
          rs,            \* [Replica -> record]  program state of the production loop
          late,          \* set of abandoned requests that may still execute
          act            \* label of the last action (kept out of VIEW)

vars == <<lock, epoch, stream, lost, inc, token, chain, made, rs, late>>

(* ------------------------------------------------------------------ values *)
NoOwner  == [r |-> NoReplica, i |-> 0]
Owner(r) == [r |-> r, i |-> inc[r]]
NoBlock  == [p |-> NoReplica, k |-> 0]
NoHB     == [h |-> 0, b |-> NoBlock]

Max(S) == CHOOSE x \in S : \A y \in S : x >= y
Min2(a, b) == IF a <= b THEN a ELSE b

\* calculate_quorum(n, budget) = min(n / 2 + 1 + budget, n)
Majority == (Cardinality(Node) \div 2) + 1
Quorum == Min2(Majority + Budget, Cardinality(Node))
QuorumReached(c) == c >= Quorum

\* replies and requests are uniform records
R(t, v, es) == [t |-> t, v |-> v, es |-> es]
Fail  == R("fail", 0, <<>>)
Unres == R("unres", 0, <<>>)
Req(k, o, ep, h, b) == [k |-> k, o |-> o, ep |-> ep, h |-> h, b |-> b]

(* ------------------------------------------------------- the Lua scripts *)
NS(n) == [lock |-> lock[n], epoch |-> epoch[n], stream |-> stream[n]]

\* write_block.lua step 4: XREVRANGE + - ; HEIGHT_EXISTS on the first entry with the posted
\* height (EarlyStop: `stop_scan` at the first entry with a smaller height - streams are not
\* ordered by height, so that variant overlooks entries).
SeenByScan(s, h) ==
  LET Scan[i \in 0..Len(s)] ==
        IF i = 0 THEN FALSE
        ELSE IF s[i].h = h THEN TRUE
        ELSE IF EarlyStop /\ s[i].h < h THEN FALSE
        ELSE Scan[i - 1]
  IN Scan[Len(s)]

LuaWrite(ns, q) ==
  IF ns.lock # q.o THEN [ns |-> ns, rep |-> R("FE", 0, <<>>)]              \* 1) identity
  ELSE IF q.ep < ns.epoch THEN [ns |-> ns, rep |-> R("FE", 0, <<>>)]       \* 2) stale token
  ELSE LET ns1 == IF q.ep > ns.epoch THEN [ns EXCEPT !.epoch = q.ep] ELSE ns IN   \* 3) heal
       IF SeenByScan(ns.stream, q.h) THEN [ns |-> ns1, rep |-> R("HE", 0, <<>>)]  \* 4)
       ELSE [ns  |-> [ns1 EXCEPT !.stream = Append(@, [h |-> q.h, b |-> q.b, e |-> q.ep])],
             rep |-> R("W", 0, <<>>)]               \* 5) XADD; XTRIM (never reached in the
                                                    \* bound); PEXPIRE only postpones Expire

LuaExec(ns, q) ==
  CASE q.k = "check"   -> [ns |-> ns, rep |-> R(IF ns.lock = q.o THEN "1" ELSE "0", 0, <<>>)]
    [] q.k = "release" -> IF ns.lock = q.o
                          THEN [ns |-> [ns EXCEPT !.lock = NoOwner], rep |-> R("1", 0, <<>>)]
                          ELSE [ns |-> ns, rep |-> R("0", 0, <<>>)]
    [] q.k = "promote" -> IF ns.lock = NoOwner                \* SET NX, then INCR
                          THEN [ns  |-> [ns EXCEPT !.lock = q.o, !.epoch = @ + 1],
                                rep |-> R("tok", ns.epoch + 1, <<>>)]
                          ELSE [ns |-> ns, rep |-> R("held", 0, <<>>)]   \* also when we hold it
    [] q.k = "latest"  -> [ns |-> ns, rep |-> IF ns.stream = <<>> THEN R("none", 0, <<>>)
                                              ELSE R("h", ns.stream[Len(ns.stream)].h, <<>>)]
    [] q.k = "entries" -> [ns |-> ns, rep |-> R("es", 0, SelectSeq(ns.stream, LAMBDA x : x.h >= q.h))]
    [] q.k = "write"   -> LuaWrite(ns, q)

(* ------------------------------------------------ replica program state *)
AllOf(x) == [n \in Node |-> x]
IdleRS == [pc |-> "idle", aft |-> "none", next |-> 0, own |-> {}, ents |-> AllOf(Fail),
           recon |-> <<>>, cur |-> 0, cnt |-> 0, blk |-> NoHB, rep |-> AllOf(Unres)]

PhasePcs == {"check", "expand", "acquire", "relall", "latest", "entries", "repair", "publish", "release"}
KindOf(pc) == CASE pc = "check" -> "check"
                [] pc \in {"expand", "acquire"} -> "promote"
                [] pc \in {"relall", "release"} -> "release"
                [] pc = "latest" -> "latest"
                [] pc = "entries" -> "entries"
                [] pc \in {"repair", "publish"} -> "write"

\* the request the adapter sends to every target in the phase of program state s (token tk)
ReqOf(r, s, tk) ==
  LET k == KindOf(s.pc) IN
  CASE k = "entries" -> Req(k, Owner(r), 0, s.next, NoBlock)
    [] k = "write"   -> Req(k, Owner(r), tk, s.blk.h, s.blk.b)
    [] OTHER         -> Req(k, Owner(r), 0, 0, NoBlock)

\* lock expansion goes to the nodes that did not answer "owner"; everything else to all nodes
Targets(s) == IF s.pc = "expand" THEN Node \ s.own ELSE Node

FatesOf(k) == {"ok", "drop"} \cup (IF k \in {"promote", "release", "write"} THEN {"lost"} ELSE {})
                             \cup (IF k \in LateKinds THEN {"hold"} ELSE {})

(* -------------------------------------- unreconciled_blocks: vote counting *)
\* per node: HashMap<height, HashMap<epoch, block>>, a later entry with the same
\* <<height, epoch>> overwrites the earlier one
NodeMap(es) ==
  { [h |-> es[i].h, e |-> es[i].e, b |-> es[i].b] :
      i \in { i \in DOMAIN es : \A j \in DOMAIN es : j > i => ~(es[j].h = es[i].h /\ es[j].e = es[i].e) } }

\* one vote per <<node, epoch>> entry at this height
VotesAt(ents, h) ==
  UNION { { [n |-> n, e |-> x.e, b |-> x.b] : x \in { y \in NodeMap(ents[n].es) : y.h = h } } :
          n \in { m \in Node : ents[m].t = "es" } }
CountOf(V, b) == Cardinality({ v \in V : v.b = b })
MaxEOf(V, b)  == Max({ v.e : v \in { w \in V : w.b = b } })
\* max_by_key(max_epoch) over a HashMap: any block with the largest max-epoch
Winners(V) == LET B == { v.b : v \in V } IN { b \in B : \A c \in B : MaxEOf(V, b) >= MaxEOf(V, c) }

WOut(k, cur, b, cnt, recon) == [k |-> k, cur |-> cur, b |-> b, cnt |-> cnt, recon |-> recon]
StopOut(recon) == IF recon = <<>> THEN WOut("err", 0, NoBlock, 0, <<>>) ELSE WOut("ret", 0, NoBlock, 0, recon)

\* the `for _ in 0..max_reconcile_blocks_per_round` loop from `cur`, up to the next repair
RECURSIVE WalkFrom(_, _, _, _)
WalkFrom(ents, cur, recon, tk) ==
  LET V == VotesAt(ents, cur) IN
  IF V = {} THEN { StopOut(recon) }                              \* nodes_with_height == 0
  ELSE UNION { IF QuorumReached(CountOf(V, b))
               THEN WalkFrom(ents, cur + 1, Append(recon, [h |-> cur, b |-> b]), tk)
               ELSE IF tk = -1 THEN { StopOut(recon) }           \* repair: token not initialised
               ELSE { WOut("repair", cur, b, CountOf(V, b), recon) }
             : b \in Winners(V) }

(* --------------------------------------------- decisions of the adapter *)
D(s, tk, res) == [rs |-> s, tok |-> tk, res |-> res]
\* next phase of the same call: only `aft` and `next` survive (other fields are set where needed)
Goto(s, pc) == [IdleRS EXCEPT !.pc = pc, !.aft = s.aft, !.next = s.next]
ToIdle == IdleRS

\* production failed -> MainTask calls release(): release_if_owner starts with has_lease_owner_quorum
ToRelease(s) == [IdleRS EXCEPT !.pc = "check", !.aft = "rel"]

AfterWalk(s, tk, outs) ==
  { CASE o.k = "err"    -> D(ToIdle, tk, "err")
      [] o.k = "ret"    -> D([IdleRS EXCEPT !.pc = "import", !.recon = o.recon], tk, "unrec")
      [] o.k = "repair" -> D([Goto(s, "repair") EXCEPT !.ents = s.ents, !.cur = o.cur, !.cnt = o.cnt,
                                                        !.recon = o.recon, !.blk = [h |-> o.cur, b |-> o.b]], tk, "")
    : o \in outs }

\* s = rs[r], tk = token[r], rep = replies of all targets of the phase
Decide(s, tk, T, rep) ==
  LET OkTok == { n \in T : rep[n].t = "tok" }
      W     == Cardinality({ n \in T : rep[n].t = "W" })
      AfterOwner == IF s.aft = "lead" THEN Goto(s, "latest") ELSE Goto(s, "release")
  IN
  CASE s.pc = "check" ->                               \* has_lease_owner_quorum, first half
         LET own == { n \in T : rep[n].t = "1" } IN
         IF ~QuorumReached(Cardinality(own))
         THEN IF s.aft = "lead" THEN { D(Goto(s, "acquire"), tk, "") }
              ELSE { D(ToIdle, -1, "relok") }          \* release_if_owner: not owner, token := None
         ELSE IF Node \ own = {} THEN { D(AfterOwner, tk, "") }
         ELSE { D([Goto(s, "expand") EXCEPT !.own = own], tk, "") }
    [] s.pc = "expand" ->                              \* best-effort lock expansion, epoch adoption
         LET mx == IF OkTok = {} THEN 0 ELSE Max({ rep[n].v : n \in OkTok })
             cur == IF tk = -1 THEN 0 ELSE tk
         IN { D(AfterOwner, IF OkTok # {} /\ mx > cur THEN mx ELSE tk, "") }
    [] s.pc = "acquire" ->                             \* acquire_lease_if_free (max_attempts = 1)
         IF QuorumReached(Cardinality(OkTok))
         THEN { D(Goto(s, "latest"), Max({ rep[n].v : n \in OkTok }), "") }
         ELSE { D(Goto(s, "relall"), tk, "") }
    [] s.pc = "relall" -> { D(ToIdle, tk, "follower") }
    [] s.pc = "latest" ->                              \* should_reconcile_from_stream
         LET ok == { n \in T : rep[n].t \in {"h", "none"} } IN
         IF ~QuorumReached(Cardinality(ok)) THEN { D(ToIdle, tk, "err") }
         ELSE IF \E n \in ok : rep[n].t = "h" /\ rep[n].v >= s.next
              THEN { D(Goto(s, "entries"), tk, "") }
              ELSE { D([IdleRS EXCEPT !.pc = "produce", !.next = s.next], tk, "leader") }
    [] s.pc = "entries" ->                             \* unreconciled_blocks
         LET ok == { n \in T : rep[n].t = "es" } IN
         IF ~QuorumReached(Cardinality(ok)) THEN { D(ToIdle, tk, "err") }
         ELSE LET s1 == [s EXCEPT !.ents = [n \in Node |-> IF n \in T THEN rep[n] ELSE Fail]] IN
              AfterWalk(s1, tk, WalkFrom(s1.ents, s.next, <<>>, tk))
    [] s.pc = "repair" ->                              \* repair_sub_quorum_block
         LET fenced  == \E n \in T : rep[n].t = "FE"
             okTrue  == QuorumReached(s.cnt + W)       \* pre_existing + newly written
             good    == AfterWalk(s, tk, WalkFrom(s.ents, s.cur + 1, Append(s.recon, s.blk), tk))
             bad     == AfterWalk(s, tk, { StopOut(s.recon) })
         IN \* a FencingRejected result aborts - unless publish_block_on_all_nodes had already
            \* returned at `Written` quorum before that reply was received (arrival order)
            IF fenced THEN (IF QuorumReached(W) THEN good \cup bad ELSE bad)
            ELSE IF okTrue THEN good ELSE bad
    [] s.pc = "publish" ->                             \* publish_produced_block
         IF QuorumReached(W) THEN { D([IdleRS EXCEPT !.pc = "commit", !.blk = s.blk], tk, "pubok") }
         ELSE { D(ToRelease(s), tk, "puberr") }
    [] s.pc = "release" ->                             \* release_if_owner, second half
         IF QuorumReached(Cardinality({ n \in T : rep[n].t = "1" }))
         THEN { D(ToIdle, -1, "relok") } ELSE { D(ToIdle, tk, "relerr") }

(* ------------------------------------------------------------------ init *)
Init ==
  /\ lock = [n \in Node |-> NoOwner] /\ epoch = [n \in Node |-> 0] /\ stream = [n \in Node |-> <<>>]
  /\ lost = {} /\ inc = [r \in Replica |-> 0] /\ token = [r \in Replica |-> -1]
  /\ chain = [r \in Replica |-> <<>>] /\ made = [r \in Replica |-> 0]
  /\ rs = [r \in Replica |-> IdleRS] /\ late = {}
  /\ act = [name |-> "Init"]

(* ------------------------------------------------------- replica actions *)
\* try_to_produce_block: leader_state(next_height) begins with can_produce_block
Started(r) == [IdleRS EXCEPT !.pc = "check", !.aft = "lead", !.next = Len(chain[r]) + 1]
\* block production; without a fencing token publish_produced_block fails before any RPC
NewBlock(r) == [p |-> r, k |-> made[r] + 1]
Produced(r) == IF token[r] = -1 THEN ToRelease(rs[r])
               ELSE [IdleRS EXCEPT !.pc = "publish", !.blk = [h |-> rs[r].next, b |-> NewBlock(r)]]
\* MainTask: execute_and_commit of a reconciled block (skipped unless it is the next height)
ImportOne(c, x) == IF x.h = Len(c) + 1 THEN Append(c, x.b) ELSE c
RECURSIVE ImportSeq(_, _, _)
ImportSeq(c, xs, k) == IF k = 0 THEN c ELSE ImportSeq(ImportOne(c, Head(xs)), Tail(xs), k - 1)

Start(r) ==
  /\ rs[r].pc = "idle" /\ Len(chain[r]) < MaxHeight
  /\ rs' = [rs EXCEPT ![r] = Started(r)]
  /\ UNCHANGED <<lock, epoch, stream, lost, inc, token, chain, made, late>>
  /\ act' = [name |-> "Start", r |-> r]

\* graceful shutdown / stepdown: release()
StepDown(r) ==
  /\ rs[r].pc = "idle"
  /\ rs' = [rs EXCEPT ![r] = ToRelease(rs[r])]
  /\ UNCHANGED <<lock, epoch, stream, lost, inc, token, chain, made, late>>
  /\ act' = [name |-> "StepDown", r |-> r]

Produce(r) ==
  /\ rs[r].pc = "produce"
  /\ made' = [made EXCEPT ![r] = @ + 1]
  /\ rs' = [rs EXCEPT ![r] = Produced(r)]
  /\ UNCHANGED <<lock, epoch, stream, lost, inc, token, chain, late>>
  /\ act' = [name |-> "Produce", r |-> r, h |-> rs[r].next, b |-> NewBlock(r)]

\* importer: publish succeeded -> commit to the local database
Commit(r) ==
  /\ rs[r].pc = "commit"
  /\ chain' = [chain EXCEPT ![r] = Append(@, rs[r].blk.b)]
  /\ rs' = [rs EXCEPT ![r] = IdleRS]
  /\ UNCHANGED <<lock, epoch, stream, lost, inc, token, made, late>>
  /\ act' = [name |-> "Commit", r |-> r]

Import(r) ==
  LET s == rs[r] IN
  /\ s.pc = "import"
  /\ chain' = [chain EXCEPT ![r] = ImportOne(@, Head(s.recon))]
  /\ rs' = [rs EXCEPT ![r] = IF Len(s.recon) = 1 THEN IdleRS ELSE [s EXCEPT !.recon = Tail(@)]]
  /\ UNCHANGED <<lock, epoch, stream, lost, inc, token, made, late>>
  /\ act' = [name |-> "Import", r |-> r]

\* process crash and restart between adapter calls: the database persists, the adapter is
\* re-created (fresh lease_owner_token, no fencing token); its old locks stay until they expire
Crash(r) ==
  /\ rs[r].pc \in {"idle", "produce", "commit", "import"} /\ inc[r] < MaxInc
  /\ inc' = [inc EXCEPT ![r] = @ + 1] /\ token' = [token EXCEPT ![r] = -1]
  /\ rs' = [rs EXCEPT ![r] = IdleRS]
  /\ UNCHANGED <<lock, epoch, stream, lost, chain, made, late>>
  /\ act' = [name |-> "Crash", r |-> r]

\* The replica-local steps touch only the replica's own variables, nothing can disable them and
\* chains only grow, so they commute with everything else.  The coarse configuration fuses them
\* with the neighbouring quorum operation: `pre` is taken just before it, the local commit /
\* import (or a crash instead) just after the deciding reply.
PreOk(r, pre) == CASE pre = ""         -> rs[r].pc \in PhasePcs
                   [] pre = "Start"    -> rs[r].pc = "idle" /\ Len(chain[r]) < MaxHeight
                   [] pre = "StepDown" -> rs[r].pc = "idle"
                   [] pre = "Produce"  -> rs[r].pc = "produce"
Eff(r, pre) == CASE pre = ""         -> [s |-> rs[r], mk |-> made[r]]
                 [] pre = "Start"    -> [s |-> Started(r), mk |-> made[r]]
                 [] pre = "StepDown" -> [s |-> ToRelease(rs[r]), mk |-> made[r]]
                 [] pre = "Produce"  -> [s |-> Produced(r), mk |-> made[r] + 1]

P(s, tk, c, i, post, k) == [rs |-> s, tok |-> tk, chain |-> c, inc |-> i, post |-> post, k |-> k]
PostSet(r, d, fuse) ==
  IF fuse /\ d.rs.pc = "commit"
  THEN { P(IdleRS, d.tok, Append(chain[r], d.rs.blk.b), inc[r], "Commit", 0) }
       \cup (IF inc[r] < MaxInc THEN { P(IdleRS, -1, chain[r], inc[r] + 1, "Crash", 0) } ELSE {})
  ELSE IF fuse /\ d.rs.pc = "import"
  THEN { P(IdleRS, d.tok, ImportSeq(chain[r], d.rs.recon, Len(d.rs.recon)), inc[r], "Import", 0) }
       \cup (IF inc[r] < MaxInc
             THEN { P(IdleRS, -1, ImportSeq(chain[r], d.rs.recon, k), inc[r] + 1, "Crash", k) : k \in 0..(Len(d.rs.recon) - 1) }
             ELSE {})
  ELSE { P(d.rs, d.tok, chain[r], inc[r], "", 0) }

\* Resolve the RPCs of the nodes in DOMAIN F of r's current phase.  The phase is decided when all
\* its targets are resolved; publish_block_on_all_nodes (publish / repair) may also return as soon
\* as a quorum of `Written` replies has been RECEIVED - the requests still unresolved then are
\* stragglers: they stay in flight (`late`) and their replies are never looked at.
GStep(r, pre, F, fuse) ==
  LET e == Eff(r, pre)  s == e.s  q == ReqOf(r, s, token[r])  T == Targets(s)  S == DOMAIN F
      ex(n)  == LuaExec(NS(n), q)
      run(n) == n \in S /\ F[n] \in {"ok", "lost"}
      rep1   == [n \in Node |-> IF n \in S THEN (IF F[n] = "ok" THEN ex(n).rep ELSE Fail) ELSE s.rep[n]]
      U      == { n \in T : rep1[n] = Unres }
      holds  == { [n |-> n, q |-> q] : n \in { m \in S : F[m] = "hold" } }
      early  == q.k = "write" /\ U # {} /\ QuorumReached(Cardinality({ n \in T : rep1[n].t = "W" }))
  IN
  /\ PreOk(r, pre)
  /\ S # {} /\ S \subseteq { n \in T : s.rep[n] = Unres }
  /\ \A n \in S : F[n] \in FatesOf(q.k)
  /\ Cardinality(late) + Cardinality(holds) <= MaxLate
  /\ lock'   = [n \in Node |-> IF run(n) THEN ex(n).ns.lock   ELSE lock[n]]
  /\ epoch'  = [n \in Node |-> IF run(n) THEN ex(n).ns.epoch  ELSE epoch[n]]
  /\ stream' = [n \in Node |-> IF run(n) THEN ex(n).ns.stream ELSE stream[n]]
  /\ made'   = [made EXCEPT ![r] = e.mk]
  /\ \/ /\ U = {} \/ early
        /\ late' = late \cup holds \cup { [n |-> n, q |-> q] : n \in U }
        /\ \E d \in Decide(s, token[r], T, rep1) : \E p \in PostSet(r, d, fuse) :
             /\ rs' = [rs EXCEPT ![r] = p.rs] /\ token' = [token EXCEPT ![r] = p.tok]
             /\ chain' = [chain EXCEPT ![r] = p.chain] /\ inc' = [inc EXCEPT ![r] = p.inc]
             /\ act' = [name |-> "Step", r |-> r, pc |-> s.pc, F |-> F, res |-> d.res, pre |-> pre,
                        post |-> p.post, nimp |-> IF p.post = "Crash" THEN p.k ELSE Len(d.rs.recon)]
     \/ /\ U # {}
        /\ late' = late \cup holds
        /\ rs' = [rs EXCEPT ![r] = [s EXCEPT !.rep = rep1]] /\ UNCHANGED <<token, chain, inc>>
        /\ act' = [name |-> "Step", r |-> r, pc |-> s.pc, F |-> F, res |-> "", pre |-> pre,
                   post |-> "", nimp |-> 0]
  /\ UNCHANGED lost

Step(r, F) == GStep(r, "", F, FALSE)

(* ---------------------------------------------------- environment actions *)
Expire(n) ==
  /\ lock[n] # NoOwner /\ lock' = [lock EXCEPT ![n] = NoOwner]
  /\ UNCHANGED <<epoch, stream, lost, inc, token, chain, made, rs, late>>
  /\ act' = [name |-> "Expire", n |-> n]

\* node restart without persistence: lock, epoch and stream are gone
LoseData(n) ==
  /\ Cardinality(lost \cup {n}) <= Budget
  /\ lock' = [lock EXCEPT ![n] = NoOwner] /\ epoch' = [epoch EXCEPT ![n] = 0]
  /\ stream' = [stream EXCEPT ![n] = <<>>] /\ lost' = lost \cup {n}
  /\ UNCHANGED <<inc, token, chain, made, rs, late>>
  /\ act' = [name |-> "LoseData", n |-> n]

\* a request whose caller gave up executes now; its reply goes nowhere
LateExec(m) ==
  LET x == LuaExec(NS(m.n), m.q) IN
  /\ m \in late /\ late' = late \ {m}
  /\ lock' = [lock EXCEPT ![m.n] = x.ns.lock] /\ epoch' = [epoch EXCEPT ![m.n] = x.ns.epoch]
  /\ stream' = [stream EXCEPT ![m.n] = x.ns.stream]
  /\ UNCHANGED <<lost, inc, token, chain, made, rs>>
  /\ act' = [name |-> "LateExec", n |-> m.n, q |-> m.q, res |-> x.rep.t]

\* ... or never executes at all
DropLate(m) ==
  /\ m \in late /\ late' = late \ {m}
  /\ UNCHANGED <<lock, epoch, stream, lost, inc, token, chain, made, rs>>
  /\ act' = [name |-> "DropLate", n |-> m.n, q |-> m.q]

Env == \/ \E n \in Node : Expire(n) \/ LoseData(n)
       \/ \E m \in late : LateExec(m)
Local(r) == Start(r) \/ StepDown(r) \/ Produce(r) \/ Commit(r) \/ Import(r) \/ Crash(r)

\* one action per quorum operation (replica-local steps fused into it)
NextCoarse ==
  \/ \E r \in Replica :
        \/ \E pre \in {"", "Start", "StepDown", "Produce"} :
             /\ PreOk(r, pre)
             /\ \E F \in [Targets(Eff(r, pre).s) -> FatesOf(KindOf(Eff(r, pre).s.pc))] : GStep(r, pre, F, TRUE)
        \/ Crash(r)
  \/ Env
\* one action per RPC, replica-local steps on their own
NextFine ==
  \/ \E r \in Replica :
        \/ Local(r)
        \/ (rs[r].pc \in PhasePcs /\ \E n \in Targets(rs[r]) : \E f \in FatesOf(KindOf(rs[r].pc)) : Step(r, (n :> f)))
  \/ Env
  \/ \E m \in late : DropLate(m)

SpecCoarse == Init /\ [][NextCoarse]_<<vars, act>>
SpecFine   == Init /\ [][NextFine]_<<vars, act>>

Bounded == /\ \A n \in Node : epoch[n] <= MaxEpoch
           /\ \A r \in Replica : made[r] <= MaxMade

(* ------------------------------------------------------------ properties *)
IsPrefix(a, b) == Len(a) <= Len(b) /\ \A i \in 1..Len(a) : a[i] = b[i]
\* no two replicas ever commit different blocks at the same height
NoFork == \A a, b \in Replica : IsPrefix(chain[a], chain[b]) \/ IsPrefix(chain[b], chain[a])

HasAt(n, h, b) == \E i \in DOMAIN stream[n] : stream[n][i].h = h /\ stream[n][i].b = b
BlocksAtHeight(h) == UNION { { stream[n][i].b : i \in { j \in DOMAIN stream[n] : stream[n][j].h = h } } : n \in Node }
\* at most one block per height is present on a quorum of Redis nodes
AtMostOneQuorumBlockPerHeight ==
  \A h \in 1..MaxHeight :
    Cardinality({ b \in BlocksAtHeight(h) : QuorumReached(Cardinality({ n \in Node : HasAt(n, h, b) })) }) <= 1

\* the fencing epoch of a node never decreases (a restart that loses the node's data is the
\* budgeted disruption, not a decrease)
EpochMonotone ==
  [][\A n \in Node : (act'.name \in {"LoseData", "reset"}) \/ epoch'[n] >= epoch[n]]_<<vars, act>>

\* a node's lease key names at most one owner, and at most one adapter owns a quorum of nodes
OneOwnerPerNode ==
  /\ \A n \in Node : lock[n] = NoOwner \/ (lock[n].r \in Replica /\ lock[n].i \in 0..MaxInc)
  /\ Cardinality({ o \in { lock[n] : n \in Node } \ {NoOwner} :
                     QuorumReached(Cardinality({ n \in Node : lock[n] = o })) }) <= 1

StateRec == [lock |-> lock, epoch |-> epoch, stream |-> stream, lost |-> lost, inc |-> inc,
             token |-> token, chain |-> chain, made |-> made, rs |-> rs, late |-> late]
=============================================================================
