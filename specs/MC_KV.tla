---------------------------- MODULE MC_KV ----------------------------
EXTENDS KV, Json
\* cell universes (tuples cannot be written in a .cfg)
CellsOne    == {<<1, 1>>}
CellsOneCol == {<<1, 1>>, <<1, 2>>}
CellsTwoCol == {<<1, 1>>, <<2, 1>>}
CellsThree  == {<<1, 1>>, <<1, 2>>, <<2, 1>>}
CellsFour   == {<<1, 1>>, <<1, 2>>, <<2, 1>>, <<2, 2>>}
View == vars
EmitEdge == PrintT(<<"EDGE", ToJson([src |-> StateRec, act |-> act', dst |-> StateRec'])>>)
=============================================================================
