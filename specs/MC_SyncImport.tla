---------------------------- MODULE MC_SyncImport ----------------------------
EXTENDS SyncImport, Json
IView == ivars
IEmitEdge == PrintT(<<"EDGE", ToJson([src |-> IStateRec, act |-> act', dst |-> IStateRec'])>>)
=============================================================================
