SPECIFICATION LiveSpec
CONSTANT NC = 2
CONSTANT MaxRun = 2
VIEW View
INVARIANT TypeOK
INVARIANT ShutdownAtMostOnce
INVARIANT AwaitSound
INVARIANT BoundedProgress
PROPERTY Forward
PROPERTY StoppedNeverRuns
PROPERTY StopLeadsToReturn
CHECK_DEADLOCK FALSE
