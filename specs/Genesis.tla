------------------------------- MODULE Genesis -------------------------------
(* C39 / C40 — snapshot export, regenesis import and its resumption.                          *)
(*                                                                                            *)
(* Transcribes                                                                                *)
(*   crates/fuel-core/src/service/genesis/exporter.rs     Exporter::write_full_snapshot        *)
(*   crates/chain-config/src/config/state/{writer,reader}.rs   groups of a snapshot table     *)
(*   crates/fuel-core/src/service/genesis.rs              execute_genesis_block                *)
(*   crates/fuel-core/src/service/genesis/importer.rs     SnapshotImporter::run_workers        *)
(*   crates/fuel-core/src/service/genesis/importer/import_task.rs   ImportTask::{new,run}      *)
(*   crates/fuel-core/src/database/genesis_progress.rs    GenesisMetadata (progress index)     *)
(*   crates/fuel-core/src/service/genesis/task_manager.rs cancellation token                   *)
(*                                                                                            *)
(* A *migration* m = "<snapshot table> -> <written table>" is one ImportTask (one worker).    *)
(* Entries of a snapshot table are abstract ids 1..n in key order (the order in which the     *)
(* exporter iterates the source table and therefore the order inside the snapshot).           *)
(*                                                                                            *)
(* One action per observable step of the code:                                                *)
(*   Export(w,e,g)  the exporter cuts every table into groups of size g and writes them with  *)
(*                  encoding e (the JSON encoding carries only JsonTables; its group size is   *)
(*                  applied by the reader)                                                    *)
(*   Reference      ghost: what an uninterrupted import of this snapshot into a fresh node     *)
(*                  yields                                                                    *)
(*   Begin          execute_genesis_block is called: every worker computes skip = progress+1  *)
(*   Task(m)        ImportTask::run entered (first read of the cancellation flag)             *)
(*   Start(m)       a group passed the take_while cancellation check                          *)
(*   Commit(m)      process + update_genesis_progress + commit of ONE storage transaction      *)
(*   Fail(m,pt)     an error inside the group (nothing of the group is durable unless the      *)
(*                  transaction was already committed: pt = "after_commit")                   *)
(*   Cancel         the StateWatcher turns to Stopping                                        *)
(*   End(res)       execute_genesis_block returns; on Ok the removal of the on-chain progress  *)
(*                  keys travels with the (uncommitted) genesis block                          *)
(*   CommitBlock    the importer commits the genesis block and the on-chain changes            *)
(*   ClearOffChain  clear_off_chain_genesis_progress: the off-chain progress keys are removed   *)
(*   DropResult     the process dies after End(Ok) and before CommitBlock                      *)
(* Defect found with this spec and repaired in /repo (`fix:` commit): execute_genesis_block      *)
(* used to remove the off-chain progress keys in a committed off-chain transaction BEFORE its   *)
(* result was committed; a node that stopped in between re-imported every off-chain group       *)
(* (coin and message balances were added twice).  ClearOffEarly = TRUE models the old code.     *)
(* Workers run in parallel (tables with >= 10 groups) or one after the other; the spec allows  *)
(* every interleaving, so at a crash every other table's progress is any reachable value.     *)
EXTENDS Integers, Sequences, FiniteSets, TLC

CONSTANTS Migs,         \* names of the migrations in the model (subset of DOMAIN MigInfo)
          Worlds,       \* sequence of records [n |-> [table |-> #entries], h |-> source height]
          GroupSizes,   \* group sizes offered to Export; 0 = default (usize::MAX: one group)
          Encodings,    \* subset of {"json", "parquet"}
          MaxCrashes,   \* bound on End(Err)/DropResult per behaviour (model checking only)
          WithDrop,     \* BOOLEAN: explore DropResult (death between End(Ok) and CommitBlock)
          ClearOffEarly \* BOOLEAN: TRUE = behaviour before fix (see below): execute_genesis_block itself removed
                        \* the off-chain progress keys, before its result was committed

(* ---- the real tables ------------------------------------------------------------------- *)
Mig(f, t, off) == [from |-> f, to |-> t, off |-> off]
\* every worker spawned by SnapshotImporter::run_workers, keyed by migration_name::<From, To>()
MigInfo ==
  ( "Coins -> Coins" :> Mig("Coins", "Coins", FALSE)
 @@ "Messages -> Messages" :> Mig("Messages", "Messages", FALSE)
 @@ "Blobs -> Blobs" :> Mig("Blobs", "Blobs", FALSE)
 @@ "ContractsRawCode -> ContractsRawCode" :> Mig("ContractsRawCode", "ContractsRawCode", FALSE)
 @@ "ContractsLatestUtxo -> ContractsLatestUtxo" :> Mig("ContractsLatestUtxo", "ContractsLatestUtxo", FALSE)
 @@ "ContractsState -> ContractsState" :> Mig("ContractsState", "ContractsState", FALSE)
 @@ "ContractsAssets -> ContractsAssets" :> Mig("ContractsAssets", "ContractsAssets", FALSE)
 @@ "ProcessedTransactions -> ProcessedTransactions" :> Mig("ProcessedTransactions", "ProcessedTransactions", FALSE)
 @@ "FuelBlockMerkleData -> FuelBlockMerkleData" :> Mig("FuelBlockMerkleData", "FuelBlockMerkleData", FALSE)
 @@ "FuelBlockMerkleMetadata -> FuelBlockMerkleMetadata" :> Mig("FuelBlockMerkleMetadata", "FuelBlockMerkleMetadata", FALSE)
 @@ "TransactionStatus -> TransactionStatus" :> Mig("TransactionStatus", "TransactionStatus", TRUE)
 @@ "TransactionsByOwnerBlockIdx -> TransactionsByOwnerBlockIdx" :> Mig("TransactionsByOwnerBlockIdx", "TransactionsByOwnerBlockIdx", TRUE)
 @@ "SpentMessages -> SpentMessages" :> Mig("SpentMessages", "SpentMessages", TRUE)
 @@ "Messages -> OwnedMessageIds" :> Mig("Messages", "OwnedMessageIds", TRUE)
 @@ "Coins -> OwnedCoins" :> Mig("Coins", "OwnedCoins", TRUE)
 @@ "FuelBlocks -> OldFuelBlocks" :> Mig("FuelBlocks", "OldFuelBlocks", TRUE)
 @@ "Transactions -> OldTransactions" :> Mig("Transactions", "OldTransactions", TRUE)
 @@ "FuelBlockConsensus -> OldFuelBlockConsensus" :> Mig("FuelBlockConsensus", "OldFuelBlockConsensus", TRUE)
 @@ "ContractsInfo -> ContractsInfo" :> Mig("ContractsInfo", "ContractsInfo", TRUE)
 @@ "Transactions -> ContractsInfo" :> Mig("Transactions", "ContractsInfo", TRUE)
 @@ "OldTransactions -> ContractsInfo" :> Mig("OldTransactions", "ContractsInfo", TRUE)
 @@ "OldFuelBlocks -> OldFuelBlocks" :> Mig("OldFuelBlocks", "OldFuelBlocks", TRUE)
 @@ "OldFuelBlockConsensus -> OldFuelBlockConsensus" :> Mig("OldFuelBlockConsensus", "OldFuelBlockConsensus", TRUE)
 @@ "OldTransactions -> OldTransactions" :> Mig("OldTransactions", "OldTransactions", TRUE)
 @@ "FuelBlocks -> FuelBlockIdsToHeights" :> Mig("FuelBlocks", "FuelBlockIdsToHeights", TRUE)
 @@ "OldFuelBlocks -> FuelBlockIdsToHeights" :> Mig("OldFuelBlocks", "FuelBlockIdsToHeights", TRUE) )

\* StateConfig (state_config.json) has fields for these tables only; AddTable / AsTable of every other
\* table are no-ops ("Do not include these for now")
JsonTables == {"Coins", "Messages", "Blobs", "ContractsRawCode", "ContractsLatestUtxo",
               "ContractsState", "ContractsAssets"}
\* the tables property C39 names (coins, messages, contracts: code / latest utxo / storage slots /
\* balances, blobs, processed transaction ids, block Merkle data)
PropTables == JsonTables \cup {"ProcessedTransactions", "FuelBlockMerkleData", "FuelBlockMerkleMetadata"}

From(m) == MigInfo[m].from
IsOff(m) == MigInfo[m].off
Tables == {From(m) : m \in Migs}                    \* snapshot tables read by the model's workers
Ident(T) == T \o " -> " \o T                        \* the worker that restores table T itself
PTables == {T \in PropTables : Ident(T) \in Migs}   \* property tables present in the model
Points == {"task_start", "group_start", "after_process", "before_commit", "after_commit"}

(* ---- state ------------------------------------------------------------------------------ *)
VARIABLES
  phase,      \* "unborn" | "exported" | "running" | "ended" | "imported" | "committed" | "done"
  src,        \* [Tables -> Nat] entries per table in the source node
  srcH,       \* height of the source chain (-1 before Export)
  enc, gs,    \* encoding and group size of the snapshot
  snap,       \* [Tables -> Seq(SUBSET Nat)] groups of every table as the reader yields them
  snapH,      \* last_block.block_height in the snapshot
  dst,        \* [Migs -> SUBSET Nat] entries durably written by each worker (target databases)
  dstH,       \* height of the regenesis node (-1 until the genesis block is committed)
  prog,       \* [Migs -> Int] GenesisMetadata: index of the last handled group, -1 = no key
  pos,        \* [Migs -> Nat] volatile: next group of the worker (skip)
  ws,         \* [Migs -> worker state]
  cancelled,  \* the cancellation flag seen by the workers
  cnt,        \* ghost: [Migs -> Seq(Nat)] how often each group was committed
  redo,       \* ghost: a group was started although it had already been committed
  ref,        \* ghost: [Migs -> SUBSET Nat] result of an uninterrupted import (NoRef before Reference)
  crashes,    \* ghost: interruptions so far
  act

vars == <<phase, src, srcH, enc, gs, snap, snapH, dst, dstH, prog, pos, ws, cancelled, cnt, redo, ref, crashes>>

NG(m) == Len(snap[From(m)])
Range(s) == {s[i] : i \in DOMAIN s}
UnionAll(s) == UNION Range(s)
Idle(m) == ws[m] \in {"tasked", "committed"}

\* groups of a table with n entries cut at size g (chunks(group_size) of the exporter / of the JSON reader)
Chunks(n, g) ==
  IF n = 0 THEN <<>>
  ELSE IF g = 0 THEN <<1..n>>
  ELSE [k \in 1..((n + g - 1) \div g) |-> {e \in 1..n : (e - 1) \div g = k - 1}]

\* what the snapshot holds for table T, given the sizes n of the source tables.  The JSON encoding has no
\* ContractsInfo field either, but its reader derives one entry per contract (zero salt) from the contracts;
\* the exporter does not write that table at all.
SnapOf(n, e, g, T) ==
  IF T = "ContractsInfo" THEN (IF e = "json" /\ "ContractsRawCode" \in DOMAIN n THEN Chunks(n["ContractsRawCode"], g) ELSE <<>>)
  ELSE IF e = "json" /\ T \notin JsonTables THEN <<>>
  ELSE Chunks(n[T], g)

\* what an uninterrupted import writes for worker m
RefDst(m) == UnionAll(snap[From(m)])

\* no reference yet: the function with the empty domain
NoRef == [m \in {} |-> {}]
HasRef == DOMAIN ref # {}

Init ==
  /\ phase = "unborn" /\ src = [T \in Tables |-> 0] /\ srcH = -1 /\ enc = "none" /\ gs = 0
  /\ snap = [T \in Tables |-> <<>>] /\ snapH = -1
  /\ dst = [m \in Migs |-> {}] /\ dstH = -1 /\ prog = [m \in Migs |-> -1]
  /\ pos = [m \in Migs |-> 0] /\ ws = [m \in Migs |-> "none"] /\ cancelled = FALSE
  /\ cnt = [m \in Migs |-> <<>>] /\ redo = FALSE /\ ref = NoRef /\ crashes = 0
  /\ act = [name |-> "Init"]

(* ---- ghosts (shared with the trace spec's observe mode) ------------------------------------ *)
InRange(m, i) == m \in Migs /\ i >= 0 /\ i < Len(cnt[m])
GhostStart(m, i) == redo' = (redo \/ ~InRange(m, i) \/ (InRange(m, i) /\ cnt[m][i + 1] >= 1)) /\ cnt' = cnt
GhostCommit(m, i) ==
  /\ cnt' = IF InRange(m, i) THEN [cnt EXCEPT ![m][i + 1] = @ + 1] ELSE cnt
  /\ redo' = (redo \/ ~InRange(m, i))
GhostExport == cnt' = [m \in Migs |-> [k \in 1..Len(snap'[From(m)]) |-> 0]] /\ redo' = FALSE
GhostReference == ref' = [m \in Migs |-> UnionAll(snap[From(m)])]

(* ---- export ------------------------------------------------------------------------------ *)
\* n: sizes of the source tables, h: source height
ExportW(n, h, e, g) ==
  /\ phase = "unborn"
  /\ src' = [T \in Tables |-> n[T]]
  /\ srcH' = h
  /\ enc' = e /\ gs' = g
  /\ snap' = [T \in Tables |-> SnapOf(n, e, g, T)]
  /\ snapH' = h                        \* LastBlockConfig::from_header(latest block)
  /\ GhostExport
  /\ phase' = "exported"
  /\ UNCHANGED <<dst, dstH, prog, pos, ws, cancelled, ref, crashes>>
Export(w, e, g) ==
  /\ ExportW(Worlds[w].n, Worlds[w].h, e, g)
  /\ act' = [name |-> "Export", w |-> w, enc |-> e, g |-> g]

Reference ==
  /\ phase = "exported" /\ ~HasRef
  /\ GhostReference
  /\ UNCHANGED <<phase, src, srcH, enc, gs, snap, snapH, dst, dstH, prog, pos, ws, cancelled, cnt, redo, crashes>>
  /\ act' = [name |-> "Reference"]

(* ---- import ------------------------------------------------------------------------------ *)
\* execute_genesis_block: a worker is created for every migration whose snapshot table has groups;
\* ImportTask::new reads the stored progress: skip = idx_last_handled + 1, or 0 without a key
Begin ==
  /\ phase \in {"exported", "ended"}
  /\ phase' = "running"
  /\ cancelled' = FALSE
  /\ pos' = [m \in Migs |-> prog[m] + 1]
  /\ ws' = [m \in Migs |-> IF NG(m) = 0 THEN "none" ELSE "new"]
  /\ UNCHANGED <<src, srcH, enc, gs, snap, snapH, dst, dstH, prog, cnt, redo, ref, crashes>>
  /\ act' = [name |-> "Begin"]

\* ImportTask::run entered
Task(m) ==
  /\ phase = "running" /\ ws[m] = "new"
  \* the flag is read once before the loop; if no group is left the loop body never re-reads it
  /\ ws' = [ws EXCEPT ![m] = IF cancelled /\ pos[m] >= NG(m) THEN "stopped" ELSE "tasked"]
  /\ UNCHANGED <<phase, src, srcH, enc, gs, snap, snapH, dst, dstH, prog, pos, cancelled, cnt, redo, ref, crashes>>
  /\ act' = [name |-> "Task", m |-> m, skip |-> pos[m]]

\* take_while(!cancelled) lets the next group through
Start(m) ==
  /\ phase = "running" /\ Idle(m) /\ pos[m] < NG(m) /\ ~cancelled
  /\ ws' = [ws EXCEPT ![m] = "ingroup"]
  /\ GhostStart(m, pos[m])
  /\ UNCHANGED <<phase, src, srcH, enc, gs, snap, snapH, dst, dstH, prog, pos, cancelled, ref, crashes>>
  /\ act' = [name |-> "Start", m |-> m, i |-> pos[m]]

\* handler.process(group, tx); update_genesis_progress(tx, name, index); tx.commit() — one transaction
Commit(m) ==
  /\ phase = "running" /\ ws[m] = "ingroup"
  /\ dst' = [dst EXCEPT ![m] = @ \cup snap[From(m)][pos[m] + 1]]
  /\ prog' = [prog EXCEPT ![m] = pos[m]]
  /\ GhostCommit(m, pos[m])
  /\ pos' = [pos EXCEPT ![m] = @ + 1]
  /\ ws' = [ws EXCEPT ![m] = "committed"]
  /\ UNCHANGED <<phase, src, srcH, enc, gs, snap, snapH, dstH, cancelled, ref, crashes>>
  /\ act' = [name |-> "Commit", m |-> m, i |-> pos[m]]

\* an error at one of the points of the worker loop; the open transaction is dropped
FailEnabled(m, pt) ==
  CASE pt = "task_start" -> ws[m] = "tasked"
    [] pt = "after_commit" -> ws[m] = "committed"
    [] OTHER -> ws[m] = "ingroup"
Fail(m, pt) ==
  /\ phase = "running" /\ FailEnabled(m, pt)
  /\ ws' = [ws EXCEPT ![m] = "failed"]
  /\ UNCHANGED <<phase, src, srcH, enc, gs, snap, snapH, dst, dstH, prog, pos, cancelled, cnt, redo, ref, crashes>>
  /\ act' = [name |-> "Fail", m |-> m, i |-> IF pt = "after_commit" THEN pos[m] - 1 ELSE pos[m], pt |-> pt]

Cancel ==
  /\ phase = "running" /\ ~cancelled
  /\ cancelled' = TRUE
  /\ UNCHANGED <<phase, src, srcH, enc, gs, snap, snapH, dst, dstH, prog, pos, ws, cnt, redo, ref, crashes>>
  /\ act' = [name |-> "Cancel"]

AllFinished == \A m \in Migs : ws[m] = "none" \/ (Idle(m) /\ pos[m] >= NG(m))
SomeFailed == \E m \in Migs : ws[m] = "failed"
\* a worker that has seen, or at its next read of the flag will see, the cancellation
SomeCancelled == \E m \in Migs : ws[m] = "stopped"
                                 \/ (cancelled /\ (ws[m] = "new" \/ (Idle(m) /\ pos[m] < NG(m))))

\* execute_genesis_block returns. Ok: all workers returned Ok; the removal of the on-chain GenesisMetadata
\* keys is part of the returned, not yet committed, changes; the off-chain keys stay until the genesis
\* block is committed.
End(res) ==
  /\ phase = "running"
  /\ CASE res = "Ok" -> AllFinished /\ ~SomeFailed
       [] res = "Err:failed" -> SomeFailed
       [] res = "Err:cancelled" -> SomeCancelled
  /\ IF res = "Ok"
     THEN /\ phase' = "imported"
          /\ prog' = [m \in Migs |-> IF ClearOffEarly /\ IsOff(m) THEN -1 ELSE prog[m]]
          /\ crashes' = crashes
     ELSE /\ phase' = "ended" /\ prog' = prog /\ crashes' = crashes + 1
  /\ ws' = [m \in Migs |-> "none"]
  /\ UNCHANGED <<src, srcH, enc, gs, snap, snapH, dst, dstH, pos, cancelled, cnt, redo, ref>>
  /\ act' = [name |-> "End", res |-> res]

\* Importer::commit_result: genesis block (height = last block + 1) and the on-chain changes
CommitBlock ==
  /\ phase = "imported"
  /\ phase' = "committed"
  /\ prog' = [m \in Migs |-> IF IsOff(m) THEN prog[m] ELSE -1]
  /\ dstH' = snapH + 1
  /\ UNCHANGED <<src, srcH, enc, gs, snap, snapH, dst, pos, ws, cancelled, cnt, redo, ref, crashes>>
  /\ act' = [name |-> "CommitBlock"]

\* clear_off_chain_genesis_progress, called once the genesis block is committed (also after a restart:
\* a node that stopped between CommitBlock and this step performs it when it starts again)
ClearOffChain ==
  /\ phase = "committed"
  /\ phase' = "done"
  /\ prog' = [m \in Migs |-> -1]
  /\ UNCHANGED <<src, srcH, enc, gs, snap, snapH, dst, dstH, pos, ws, cancelled, cnt, redo, ref, crashes>>
  /\ act' = [name |-> "ClearOffChain"]

\* the node dies between the return of execute_genesis_block and the commit of its result
DropResult ==
  /\ phase = "imported"
  /\ phase' = "ended"
  /\ crashes' = crashes + 1
  /\ UNCHANGED <<src, srcH, enc, gs, snap, snapH, dst, dstH, prog, pos, ws, cancelled, cnt, redo, ref>>
  /\ act' = [name |-> "DropResult"]

Next ==
  \/ \E w \in DOMAIN Worlds, e \in Encodings, g \in GroupSizes : Export(w, e, g)
  \/ Reference
  \/ Begin
  \/ \E m \in Migs : Task(m) \/ Start(m) \/ Commit(m)
  \/ \E m \in Migs, pt \in Points : crashes < MaxCrashes /\ Fail(m, pt)
  \/ (crashes < MaxCrashes /\ Cancel)
  \/ \E res \in {"Ok", "Err:failed", "Err:cancelled"} : End(res)
  \/ CommitBlock
  \/ ClearOffChain
  \/ (WithDrop /\ crashes < MaxCrashes /\ DropResult)

Spec == Init /\ [][Next]_<<vars, act>>

(* ---- properties ---------------------------------------------------------------------------- *)
TypeOK ==
  /\ phase \in {"unborn", "exported", "running", "ended", "imported", "committed", "done"}
  /\ \A m \in Migs : prog[m] \in -1..(NG(m) - 1) /\ pos[m] \in 0..NG(m)

Imported == phase \in {"imported", "committed", "done"}
\* C39: the tables of the regenesis node equal the tables of the source node, table by table, and the
\* chain continues at the source height
ImportedEqualsExported ==
  /\ Imported => \A T \in PTables : dst[Ident(T)] = 1..src[T]
  /\ phase \in {"committed", "done"} => dstH = srcH + 1

\* the same, for the tables the snapshot's encoding carries (the JSON StateConfig has no field for
\* processed transactions and block Merkle data)
Carried(T) == enc # "json" \/ T \in JsonTables
ImportedEqualsExportedCarried ==
  /\ Imported => \A T \in PTables : Carried(T) => dst[Ident(T)] = 1..src[T]
  /\ phase \in {"committed", "done"} => dstH = srcH + 1

\* C40: whatever interruptions happened, the final state is the one of an uninterrupted import and no
\* progress key is left
FinalEqualsUninterrupted ==
  /\ Imported /\ HasRef => \A m \in Migs : dst[m] = ref[m]
  /\ Imported => \A m \in Migs : dst[m] = RefDst(m)
  /\ phase = "done" => \A m \in Migs : prog[m] = -1

\* C40: no group is applied twice, none is skipped
EachGroupOnce ==
  /\ ~redo
  /\ \A m \in Migs : \A k \in DOMAIN cnt[m] : cnt[m][k] <= 1
  /\ Imported => \A m \in Migs : \A k \in DOMAIN cnt[m] : cnt[m][k] = 1

\* the progress index never runs ahead of or behind what is durable (mechanism of C40)
ProgressMatchesData ==
  phase \in {"running", "ended"} =>
    \A m \in Migs : \A k \in DOMAIN cnt[m] : (cnt[m][k] >= 1) <=> (k - 1 <= prog[m])

StateRec == [phase |-> phase, prog |-> prog, dst |-> dst, dstH |-> dstH, pos |-> pos, ws |-> ws,
             cancelled |-> cancelled]
=============================================================================
