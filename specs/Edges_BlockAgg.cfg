SPECIFICATION Spec
CONSTANT MaxH = 3
CONSTANT ShapeMode = "small"
CONSTANT Shapes <- MCShapes
CONSTANT OneShot = FALSE
VIEW View
ACTION_CONSTRAINT EmitEdge
CHECK_DEADLOCK FALSE
