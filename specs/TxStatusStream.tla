---------------------------- MODULE TxStatusStream ----------------------------
(* C22, component level — the per-subscriber stream automaton `TxUpdateStream`   *)
(* alone: one action per public method.  `st` is the transcription (operators    *)
(* of TxStreamOps); `ins`/`outs` are ghosts: every message given to add_msg and  *)
(* every message returned by try_next.  `endLen` is the length of `outs` when    *)
(* the automaton first reported is_closed() (-1 before).                          *)
EXTENDS TxStreamOps, TLC

CONSTANTS Tags,          \* tags distinguishing statuses of the same kind, e.g. 1..2
          MaxIns         \* MC bound on Len(ins) (ghosts are part of the MC state)

VARIABLES st, ins, outs, endLen, act
vars == <<st, ins, outs, endLen>>

Msgs == {Stat(k, n) : k \in StatusKinds, n \in Tags} \cup {FS}

Init == /\ st = SEmpty /\ ins = <<>> /\ outs = <<>> /\ endLen = -1
        /\ act = [name |-> "Init"]

GhostEnd(st2, outs2) == endLen' = IF endLen = -1 /\ SIsClosed(st2) THEN Len(outs2) ELSE endLen
GhostAddMsg(m, st2) == /\ ins' = Append(ins, m) /\ outs' = outs /\ GhostEnd(st2, outs)
GhostQuiet(st2)     == /\ ins' = ins /\ outs' = outs /\ GhostEnd(st2, outs)
GhostTryNext(out, st2) ==
  /\ ins' = ins
  /\ outs' = IF out = NoMsg THEN outs ELSE Append(outs, out)
  /\ GhostEnd(st2, outs')

AddMsg(m) ==
  /\ st' = SAddMsg(st, m)
  /\ GhostAddMsg(m, st')
  /\ act' = [name |-> "AddMsg", k |-> m.k, n |-> m.n]

AddFailure ==
  /\ st' = SAddFailure(st)
  /\ GhostQuiet(st')
  /\ act' = [name |-> "AddFailure"]

CloseRecv ==
  /\ st' = SCloseRecv(st)
  /\ GhostQuiet(st')
  /\ act' = [name |-> "CloseRecv"]

TryNext ==
  /\ st' = STryNext(st).st
  /\ GhostTryNext(STryNext(st).out, st')
  /\ act' = [name |-> "TryNext", res |-> STryNext(st).out]

Next == (\E m \in Msgs : AddMsg(m)) \/ AddFailure \/ CloseRecv \/ TryNext
Spec == Init /\ [][Next]_<<vars, act>>

(* ---- what C22 needs from the automaton -------------------------------------*)
StateNames == {"Empty", "Submitted", "Preconfirmed", "EarlySuccess", "Success", "Failed",
               "LateFailed", "SenderClosed", "Closed"}
Shape ==
  /\ st.s \in StateNames
  /\ Len(st.h) = (CASE st.s \in {"Empty", "Failed", "Closed"} -> 0 [] st.s = "Success" -> 2 [] OTHER -> 1)
  /\ st.s = "Submitted" => st.h[1].k = "Sub"
  /\ st.s = "Preconfirmed" => st.h[1].k \in PreKinds
  /\ st.s = "Success" => st.h[1].k \in PreKinds \cup {"Sub"}
\* the statuses handed out are, in order and without duplication, statuses that were put in
StreamInOrderNoDup == IsSubSeq(SelectStatus(outs), SelectStatus(ins))
\* nothing is handed out after a final message (final status or FailedStatus)
StreamNothingAfterFinal == \A i \in 1..Len(outs) : IsFinalMsg(outs[i]) => i = Len(outs)
\* ... nor after the automaton reported closed
StreamNothingAfterEnd == endLen # -1 => Len(outs) = endLen
\* handing out a final message closes the automaton
StreamFinalCloses == (outs # <<>> /\ IsFinalMsg(outs[Len(outs)])) => SIsClosed(st)
\* Closed is absorbing
ClosedAbsorbing == [][SIsClosed(st) => SIsClosed(st')]_vars

Bound == Len(ins) <= MaxIns
StateRec == [st |-> st]
=============================================================================
