---------------------------- MODULE Service ----------------------------
(* C41 — fuel-core-services `ServiceRunner` (crates/services/src/service.rs, state.rs).       *)
(*                                                                                            *)
(* The runner is one spawned tokio task (`initialize_loop` -> `run` -> `run_task` ->          *)
(* `shutdown_task`) plus a `watch::Sender<State>` that the synchronous client calls           *)
(* `start()` / `stop()` modify with `send_if_modified`.  On a single-threaded runtime the     *)
(* runner executes atomically between the points where it awaits something it does not have:  *)
(*   Idle  `state.changed()` while NotStarted                                                 *)
(*   Init  inside `RunnableService::into_task`                                                *)
(*   Run   inside `RunnableTask::run`                                                         *)
(*   Shut  inside `RunnableTask::shutdown`                                                    *)
(*   Done  the spawned task has finished                                                      *)
(* One action per client call and one per runner segment.  The task under the runner is a     *)
(* script: each of its three functions waits on a gate the environment releases with an       *)
(* outcome (TaskInit/Run/Shutdown(o)).  A `gate` function only waits for its gate; an `aware` *)
(* function additionally watches the StateWatcher it was handed, the way fuel-core's tasks do:*)
(*   aware init:  select!{ biased; watcher.wait_stopping_or_stopped() => Err, gate => outcome }*)
(*   aware run :  select!{ biased; watcher.while_started()            => Stop, gate => outcome }*)
(* `Wake` = the runtime polls the runner without any gate having been released.               *)
EXTENDS Integers, TLC

CONSTANTS NC,            \* clients that may await the stop: 1..NC
          MaxRun         \* bound on the number of `run` invocations (model bound only)

Clients  == 1..NC
Kinds    == {"gate", "aware"}
InitOut  == {"ok", "err", "panic"}
RunOut   == {"cont", "stop", "err", "panic"}
ShutOut  == {"ok", "err", "panic"}

VARIABLES cfg,           \* [init, run] kind of the scripted task; "none" = runner not constructed yet
          st,            \* the watch channel's State
          ph,            \* where the runner task is parked
          pan,           \* run_task's `got_panic.is_some()`
          ent,           \* [init, run, shut] how often the task's functions were entered
          aw,            \* per client: "none" | "pending" | the State its await_stop() returned
          stopReq,       \* ghost: stop() has been called
          ended,         \* ghost: the environment declared the history finished (see End)
          act            \* label of the last action (kept out of VIEW)

vars == <<cfg, st, ph, pan, ent, aw, stopReq, ended>>

Rank(s) == CASE s = "NotStarted" -> 0 [] s = "Starting" -> 1 [] s = "Started" -> 2
             [] s = "Stopping" -> 3 [] s = "Stopped" -> 4 [] s = "StoppedWithError" -> 4
IsStopped(s) == s \in {"Stopped", "StoppedWithError"}
Born == cfg.init # "none"
Live == Born /\ ~ended

NoCfg  == [init |-> "none", run |-> "none"]
NoEnt  == [init |-> 0, run |-> 0, shut |-> 0]

Init == /\ cfg = NoCfg /\ st = "NotStarted" /\ ph = "Idle" /\ pan = FALSE /\ ent = NoEnt
        /\ aw = [c \in Clients |-> "none"] /\ stopReq = FALSE /\ ended = FALSE
        /\ act = [name |-> "Init"]

(* ---- runner segments: results are records [st, ph, pan, ent] ------------------------------*)
Seg(s, p, g, e) == [st |-> s, ph |-> p, pan |-> g, ent |-> e]
Apply(R) == st' = R.st /\ ph' = R.ph /\ pan' = R.pan /\ ent' = R.ent

\* end of the spawned task: `send_if_modified(|s| if !s.stopped() { *s = stopped_state })`
Finish(err) == Seg(IF IsStopped(st) THEN st ELSE IF err THEN "StoppedWithError" ELSE "Stopped",
                   "Done", pan, ent)
\* shutdown_task: task.shutdown() is called
EnterShutdown(s, g) == Seg(s, "Shut", g, [ent EXCEPT !.shut = @ + 1])
\* run_task: `while state.borrow_and_update().started() { task.run(..) }`, else shutdown_task
LoopHead(s, g) == IF s = "Started" THEN Seg(s, "Run", g, [ent EXCEPT !.run = @ + 1])
                  ELSE EnterShutdown(s, g)

\* into_task returned o: Err/panic -> the spawned task panics -> StoppedWithError, no task, no shutdown;
\* Ok -> `send_if_modified(Starting -> Started)` and the run loop starts
AfterInit(o) == IF o = "ok" THEN LoopHead(IF st = "Starting" THEN "Started" ELSE st, FALSE)
                ELSE Finish(TRUE)
\* run returned o: panic -> remember and break; Stop -> break; Continue/ErrorContinue -> loop head
AfterRun(o) == CASE o = "panic" -> EnterShutdown(st, TRUE)
                 [] o = "stop"  -> EnterShutdown(st, pan)
                 [] OTHER       -> LoopHead(st, pan)
\* shutdown returned o: a panic (of run or of shutdown) is resumed -> StoppedWithError
AfterShutdown(o) == Finish(pan \/ o = "panic")

\* what the watcher helpers of state.rs report to an `aware` function
InitStopSeen == cfg.init = "aware" /\ Rank(st) >= 3     \* wait_stopping_or_stopped() is ready
RunStopSeen  == cfg.run = "aware" /\ st # "Started"     \* while_started() is ready

(* ---- client calls ---------------------------------------------------------------------------*)
New(i, r) == /\ ~Born /\ ~ended
             /\ cfg' = [init |-> i, run |-> r]
             /\ UNCHANGED <<st, ph, pan, ent, aw, stopReq, ended>>
             /\ act' = [name |-> "New", init |-> i, run |-> r]

Start == /\ Live
         /\ st' = IF st = "NotStarted" THEN "Starting" ELSE st
         /\ UNCHANGED <<cfg, ph, pan, ent, aw, stopReq, ended>>
         /\ act' = [name |-> "Start", res |-> (st = "NotStarted")]

GhostStop == stopReq' = TRUE
Stop == /\ Live
        /\ st' = IF st \in {"NotStarted", "Starting", "Started"} THEN "Stopping" ELSE st
        /\ GhostStop
        /\ UNCHANGED <<cfg, ph, pan, ent, aw, ended>>
        /\ act' = [name |-> "Stop", res |-> (st \in {"NotStarted", "Starting", "Started"})]

\* await_stop(): first poll (subscribe + look) and later polls of the same future
Look(c) == aw' = [aw EXCEPT ![c] = IF IsStopped(st) THEN st ELSE "pending"]
AwaitBegin(c) == /\ Live /\ aw[c] = "none" /\ Look(c)
                 /\ UNCHANGED <<cfg, st, ph, pan, ent, stopReq, ended>>
                 /\ act' = [name |-> "AwaitBegin", c |-> c]
AwaitPoll(c) == /\ Live /\ aw[c] = "pending" /\ Look(c)
                /\ UNCHANGED <<cfg, st, ph, pan, ent, stopReq, ended>>
                /\ act' = [name |-> "AwaitPoll", c |-> c]

(* ---- runner segments --------------------------------------------------------------------------*)
WakeSeg ==
  CASE ph = "Idle" /\ st = "Starting"     -> Seg(st, "Init", pan, [ent EXCEPT !.init = @ + 1])
    [] ph = "Idle" /\ st # "NotStarted" /\ st # "Starting" -> Finish(FALSE)
    [] ph = "Init" /\ InitStopSeen        -> AfterInit("err")
    [] ph = "Run" /\ RunStopSeen          -> AfterRun("stop")
    [] OTHER                              -> Seg(st, ph, pan, ent)
Wake == /\ Live /\ Apply(WakeSeg)
        /\ UNCHANGED <<cfg, aw, stopReq, ended>>
        /\ act' = [name |-> "Wake"]

TaskInit(o) == /\ Live /\ ph = "Init"
               /\ Apply(IF InitStopSeen THEN AfterInit("err") ELSE AfterInit(o))
               /\ UNCHANGED <<cfg, aw, stopReq, ended>>
               /\ act' = [name |-> "TaskInit", o |-> o]

Run(o) == /\ Live /\ ph = "Run"
          /\ (o \in {"cont", "err"} /\ st = "Started") => ent.run < MaxRun
          /\ Apply(IF RunStopSeen THEN AfterRun("stop") ELSE AfterRun(o))
          /\ UNCHANGED <<cfg, aw, stopReq, ended>>
          /\ act' = [name |-> "Run", o |-> o]

Shutdown(o) == /\ Live /\ ph = "Shut"
               /\ Apply(AfterShutdown(o))
               /\ UNCHANGED <<cfg, aw, stopReq, ended>>
               /\ act' = [name |-> "Shutdown", o |-> o]

(* ---- fairness / progress ---------------------------------------------------------------------*)
\* What is assumed to happen eventually: the runtime polls the runner, gates of `gate` functions and of
\* shutdown are released, pending awaits are polled.  The gate of an `aware` function need not ever be
\* released (a sub-service that never comes up, a server that never finishes on its own).
FairInit == cfg.init = "gate" /\ \E o \in InitOut : TaskInit(o)
FairRun  == cfg.run = "gate" /\ \E o \in RunOut : Run(o)
FairShut == \E o \in ShutOut : Shutdown(o)
FairPoll(c) == AwaitPoll(c)
Fair == Wake \/ FairInit \/ FairRun \/ FairShut \/ \E c \in Clients : FairPoll(c)

\* The environment may close a history in which stop was requested and nothing assumed fair can change
\* the state any more.  BoundedProgress then is the safety face of the liveness property.
End == /\ Live /\ stopReq /\ ~ENABLED <<Fair>>_vars
       /\ ended' = TRUE
       /\ UNCHANGED <<cfg, st, ph, pan, ent, aw, stopReq>>
       /\ act' = [name |-> "End"]

Next == \/ \E i, r \in Kinds : New(i, r)
        \/ Start \/ Stop \/ Wake \/ End
        \/ \E c \in Clients : AwaitBegin(c) \/ AwaitPoll(c)
        \/ \E o \in InitOut : TaskInit(o)
        \/ \E o \in RunOut : Run(o)
        \/ \E o \in ShutOut : Shutdown(o)

Spec == Init /\ [][Next]_<<vars, act>>
LiveSpec == /\ Spec
            /\ WF_vars(Wake) /\ WF_vars(FairInit) /\ WF_vars(FairRun) /\ WF_vars(FairShut)
            /\ \A c \in Clients : WF_vars(FairPoll(c))

(* ---- the property ------------------------------------------------------------------------------*)
TypeOK == /\ cfg \in [init : Kinds \cup {"none"}, run : Kinds \cup {"none"}]
          /\ st \in {"NotStarted", "Starting", "Started", "Stopping", "Stopped", "StoppedWithError"}
          /\ ph \in {"Idle", "Init", "Run", "Shut", "Done"}
          /\ pan \in BOOLEAN /\ stopReq \in BOOLEAN /\ ended \in BOOLEAN
          /\ \A c \in Clients : aw[c] \in {"none", "pending", "Stopped", "StoppedWithError"}

\* the state only moves forward (steps into the unborn state are harness resets)
Forward == [][Born' => Rank(st') >= Rank(st)]_vars
\* once stopped, no function of the task is entered again
StoppedNeverRuns == [][(Born' /\ IsStopped(st)) => ent' = ent]_vars
\* shutdown logic runs at most once
ShutdownAtMostOnce == ent.shut <= 1
\* an await for stop only ever returns a stopped state
AwaitSound == \A c \in Clients : aw[c] \notin {"none", "pending"} => IsStopped(st)
\* every await for stop returns once stop was requested: liveness under fairness ...
StopLeadsToReturn == \A c \in Clients : (stopReq /\ aw[c] = "pending") ~> (aw[c] # "pending")
\* ... and as bounded progress on finished histories
BoundedProgress == ended => \A c \in Clients : aw[c] # "pending"

StateRec == [cfg |-> cfg, st |-> st, ph |-> ph, pan |-> pan, ent |-> ent, aw |-> aw,
             stopReq |-> stopReq, ended |-> ended]
=============================================================================
