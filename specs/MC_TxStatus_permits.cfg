SPECIFICATION Spec
CONSTANT NTx = 2
CONSTANT Kinds = {"Sub", "Succ"}
CONSTANT Cap = 1
CONSTANT SubTtl = 2
CONSTANT CacheTtl = 2
CONSTANT Buf = 1
CONSTANT MaxSubs = 3
CONSTANT MaxPub = 2
CONSTANT MaxClock = 2
CONSTANT Ticks = {2}
VIEW View
INVARIANT TypeOK
INVARIANT InOrderNoDup
INVARIANT NothingAfterFinal
INVARIANT NothingAfterEnd
INVARIANT DrainedSubscriberGetsEverythingUpToFirstFinal
CHECK_DEADLOCK FALSE
