----------------------------- MODULE Trace_Exec -----------------------------
(* Trace validation of the real executor (harness h-exec) against Exec.                    *)
(* STRICT=1: every event must be a step of the spec's own action: the guard (the           *)
(*   transcription of the executor's decisions) must hold for the logged arguments/results *)
(*   and the logged tables must equal the computed working state at Commit.                *)
(* STRICT=0 (observe): only the effects are applied with the logged outcomes; `chain`,     *)
(*   `prod`, `vals`, `tampers`, the relayer calls and source calls are what the            *)
(*   implementation logged, and only the invariants judge.                                 *)
EXTENDS Exec, Json, IOUtils

Rec == ndJsonDeserialize(IOEnv.TRACE)
Strict == IOEnv.STRICT = "1"

VARIABLE l
tvars == <<vars, act, l>>

IsEv(e) == l <= Len(Rec) /\ Rec[l].ev = e /\ l' = l + 1

(* ---- logged JSON -> spec values (arrays that are sets in the spec) ---------------------- *)
ContractOf(c) == [id |-> c.id, slots |-> ToSet(c.slots), bals |-> ToSet(c.bals), utxo |-> c.utxo]
StateOf2(st) == [coins |-> ToSet(st.coins), msgs |-> ToSet(st.msgs),
                 contracts |-> {ContractOf(c) : c \in ToSet(st.contracts)},
                 processed |-> ToSet(st.processed), h |-> st.h, da |-> st.da]

TInit == Init /\ l = 1

TReset ==
  /\ IsEv("reset")
  /\ phase' = "unborn" /\ cfg' = NoCfg /\ chain' = EmptyState /\ prev' = EmptyState /\ w' = EmptyState
  /\ blk' = NoBlk /\ prod' = NoProd /\ vals' = <<>> /\ tampers' = <<>> /\ gh' = NoGh
  /\ act' = [name |-> "reset"]

Bind(G, E) == IF Strict THEN G /\ E ELSE E

TSetup == IsEv("Setup") /\ LET r == Rec[l] st == StateOf2(r.st) IN Bind(SetupGuard(r.cfg, st), SetupEffect(r.cfg, st))
TAddTx == IsEv("AddTx") /\ LET r == Rec[l] IN Bind(AddTxGuard(r.tx), AddTxEffect(r.tx))
TBegin == IsEv("ProduceBegin") /\ LET r == Rec[l] IN Bind(BeginGuard(r.hd), BeginEffect(r.hd))
\* the relayer call is an observation: in observe mode the logged height is recorded as it is
TImportDa == IsEv("ImportDa") /\ LET r == Rec[l] IN Bind(ImportDaGuard(r.h), ImportDaEffect(r.h))
TForced == IsEv("ForcedTx") /\ LET r == Rec[l] IN Bind(ForcedGuard(r.id, r.r), ForcedEffect(r.id, r.r))
TAsk == IsEv("Ask") /\ LET r == Rec[l] IN Bind(AskGuard(r.q), AskEffect(r.q))
TTry == IsEv("TryTx") /\ LET r == Rec[l] IN Bind(TryGuard(r.id, r.r), TryEffect(r.id, r.r))
TMint == IsEv("Mint") /\ LET r == Rec[l] IN Bind(MintGuard(r.m), MintEffect(r.m))
TEnd == IsEv("ProduceEnd") /\ LET r == Rec[l] IN Bind(EndGuard(r.p), EndEffect(r.p))
TValidate == IsEv("Validate") /\ LET r == Rec[l] IN Bind(ValidateGuard(r.v), ValidateEffect(r.v))
TTamper == IsEv("Tamper") /\ LET r == Rec[l] IN Bind(TamperGuard(r.t), TamperEffect(r.t))
TCommit == IsEv("Commit") /\ LET r == Rec[l] st == StateOf2(r.st) IN Bind(CommitGuard(st), CommitEffect(st))
TAbort == IsEv("Abort") /\ Bind(AbortGuard, AbortEffect)

TNext == TReset \/ TSetup \/ TAddTx \/ TBegin \/ TImportDa \/ TForced \/ TAsk \/ TTry \/ TMint \/ TEnd
         \/ TValidate \/ TTamper \/ TCommit \/ TAbort
TSpec == TInit /\ [][TNext]_tvars

TraceAccepted ==
  LET d == TLCGet("stats").diameter IN
  IF d - 1 = Len(Rec) THEN PrintT(<<"TRACE-ACCEPTED", Len(Rec)>>)
  ELSE PrintT(<<"TRACE-REJECTED", d>>) /\ PrintT(Rec[d])
=============================================================================
