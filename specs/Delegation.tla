---------------------------- MODULE Delegation ----------------------------
(* C44 — preconfirmation gossip accepted by the tx status manager service                    *)
(* (crates/services/tx_status_manager/src/service.rs: SignatureVerification::add_new_delegate,*)
(* check_preconfirmation_signature, remove_expired_delegates, Task::new_preconfirmations_from_p2p). *)
(*                                                                                            *)
(* One action per gossip message handled by the task.  Signatures are abstracted to "who      *)
(* signed what": a message carries the identity of the signing key, the signed content and a  *)
(* `tamper` tag saying whether the sealed entity / signature was altered after signing (then   *)
(* no key verifies it).  Every action takes the time `t` at which the service reads           *)
(* Tai64::now() while handling the message (t >= now: time never goes back).                  *)
(*                                                                                            *)
(* Transcription: curPK (the key behind ProtocolPublicKey::latest_address), dmap (the          *)
(* HashMap<Tai64, DelegatePublicKey> delegate_keys as a set of [exp, dk] records, at most one  *)
(* per expiration), status (what get_status returns: the last status set, numbered by the      *)
(* message that carried it).                                                                  *)
(* Ghosts: delegs = every [exp, dk] that arrived in an unaltered delegation signed by the      *)
(* protocol key current at that moment; last = facts about the message handled last.           *)
EXTENDS Integers, Sequences, FiniteSets, TLC

CONSTANTS PKeys,      \* protocol keys, e.g. {1, 2}; 0 denotes an outsider's key
          DKeys,      \* delegate keys, e.g. {1, 2, 3}
          NTx,
          Exps, MaxT, MaxEv, Batches, DTampers, PTampers    \* model-checking bounds only (used by Next)

Txs == 1..NTx
NoStat == [k |-> "none", n |-> 0]

VARIABLES now, curPK, dmap, status, ev, delegs, last, act
vars == <<now, curPK, dmap, status, ev, delegs, last>>

NoLast == [kind |-> "none", valid |-> TRUE, verdict |-> "Accept", idok |-> TRUE, changed |-> FALSE, exp |-> 0, t |-> 0]

Init ==
  /\ now = 0 /\ curPK = 1 /\ dmap = {} /\ status = [x \in Txs |-> NoStat] /\ ev = 0
  /\ delegs = {} /\ last = NoLast
  /\ act = [name |-> "Init"]

(* ---- SignatureVerification -------------------------------------------------*)
\* remove_expired_delegates: retain(|exp, _| exp > now)
Unexpired(d, t) == {e \in d : e.exp > t}

\* add_new_delegate: the recovered signer must own the current protocol address; expired delegations
\* are removed first; the (possibly already expired) new one replaces the entry of its expiration
DelegateVerified(pk, tamper) == pk = curPK /\ tamper = "none"
AddDelegate(d, t, pk, dk, exp, tamper) ==
  LET d1 == Unexpired(d, t) IN
  IF DelegateVerified(pk, tamper) THEN {e \in d1 : e.exp # exp} \cup {[exp |-> exp, dk |-> dk]} ELSE d1

\* check_preconfirmation_signature: not past its expiration, a key is registered for exactly this
\* expiration, and that key verifies the signature over the sealed entity
BatchAccepted(d, t, dk, exp, tamper) ==
  /\ ~(t > exp)
  /\ [exp |-> exp, dk |-> dk] \in d
  /\ tamper = "none"

\* handle_preconfirmations: statuses are set in list order, each numbered by the carrying message
RECURSIVE Apply(_, _, _, _)
Apply(st, txs, kinds, n) ==
  IF txs = <<>> THEN st
  ELSE Apply([st EXCEPT ![Head(txs)] = [k |-> Head(kinds), n |-> n]], Tail(txs), Tail(kinds), n)
Updates(txs, kinds, n) == [i \in 1..Len(txs) |-> [tx |-> txs[i], k |-> kinds[i], n |-> n]]

(* ---- ghosts ----------------------------------------------------------------*)
\* the property's notion of a proper batch: an unaltered batch signed by a key that some proper
\* delegation registered for the batch's expiration, and that expiration has not passed
BatchValid(t, dk, exp, tamper) == [exp |-> exp, dk |-> dk] \in delegs /\ tamper = "none" /\ exp >= t

GhostDelegate(t, pk, dk, exp, tamper, verdict, idok, changed) ==
  /\ delegs' = IF DelegateVerified(pk, tamper) THEN delegs \cup {[exp |-> exp, dk |-> dk]} ELSE delegs
  /\ last' = [kind |-> "Delegate", valid |-> DelegateVerified(pk, tamper), verdict |-> verdict, idok |-> idok,
              changed |-> changed, exp |-> exp, t |-> t]

GhostPreconfs(t, dk, exp, tamper, verdict, idok, changed) ==
  /\ delegs' = delegs
  /\ last' = [kind |-> "Preconfs", valid |-> BatchValid(t, dk, exp, tamper), verdict |-> verdict, idok |-> idok,
              changed |-> changed, exp |-> exp, t |-> t]

GhostQuiet == delegs' = delegs /\ last' = NoLast

(* ---- actions ----------------------------------------------------------------*)
Verdict(b) == IF b THEN "Accept" ELSE "Reject"

Delegate(t, pk, dk, exp, tamper) ==
  /\ t >= now /\ now' = t
  /\ dmap' = AddDelegate(dmap, t, pk, dk, exp, tamper)
  /\ ev' = ev + 1
  /\ UNCHANGED <<curPK, status>>
  /\ GhostDelegate(t, pk, dk, exp, tamper, Verdict(DelegateVerified(pk, tamper)), TRUE, FALSE)
  /\ act' = [name |-> "Delegate", pk |-> pk, dk |-> dk, exp |-> exp, tamper |-> tamper, t |-> t]

Preconfs(t, dk, exp, tamper, txs, kinds) ==
  LET ok == BatchAccepted(dmap, t, dk, exp, tamper) IN
  /\ t >= now /\ now' = t
  /\ status' = IF ok THEN Apply(status, txs, kinds, ev + 1) ELSE status
  /\ ev' = ev + 1
  /\ UNCHANGED <<curPK, dmap>>
  /\ GhostPreconfs(t, dk, exp, tamper, Verdict(ok), TRUE, ok /\ txs # <<>>)
  /\ act' = [name |-> "Preconfs", dk |-> dk, exp |-> exp, tamper |-> tamper, txs |-> txs, kinds |-> kinds, t |-> t]

\* the chain's configured protocol key changes (harness flips what latest_address() returns)
Rotate(pk) ==
  /\ curPK' = pk
  /\ UNCHANGED <<now, dmap, status, ev>>
  /\ GhostQuiet
  /\ act' = [name |-> "Rotate", pk |-> pk]

\* time passes without any message
Sleep(t) ==
  /\ t >= now /\ now' = t
  /\ UNCHANGED <<curPK, dmap, status, ev>>
  /\ GhostQuiet
  /\ act' = [name |-> "Sleep", t |-> t]

Times == {t \in {now, now + 1} : t <= MaxT}
Next ==
  \/ /\ ev < MaxEv
     /\ \E t \in Times :
          \/ \E pk \in PKeys \cup {0}, dk \in DKeys, exp \in Exps, tamper \in DTampers :
               Delegate(t, pk, dk, exp, tamper)
          \/ \E dk \in DKeys, exp \in Exps, tamper \in PTampers, b \in Batches :
               Preconfs(t, dk, exp, tamper, b.txs, b.kinds)
  \/ \E pk \in PKeys : pk # curPK /\ Rotate(pk)

Spec == Init /\ [][Next]_<<vars, act>>

(* ---- C44 ---------------------------------------------------------------------*)
\* transaction statuses change only through a proper, unexpired, properly delegated batch
StatusChangedOnlyByValidBatch == last.changed => (last.kind = "Preconfs" /\ last.valid)
\* every other batch or delegation is rejected, and reported as invalid for exactly that message
OthersRejectedAndReported ==
  (last.kind \in {"Delegate", "Preconfs"} /\ ~last.valid) =>
      (last.verdict = "Reject" /\ last.idok /\ ~last.changed)
\* a delegation does not outlive its expiration: a batch for a passed expiration is never used
NoUseAfterExpiration ==
  (last.kind = "Preconfs" /\ last.exp < last.t) => (last.verdict = "Reject" /\ ~last.changed)

(* sanity of the transcription *)
TypeOK ==
  /\ \A e1, e2 \in dmap : e1.exp = e2.exp => e1 = e2
  /\ dmap \subseteq delegs
StateRec == [now |-> now, curPK |-> curPK, dmap |-> dmap, status |-> status, ev |-> ev]
=============================================================================
