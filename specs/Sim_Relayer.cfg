SPECIFICATION SimSpec
CONSTANT MaxH = 6
CONSTANT Deploys = {0, 1, 2}
CONSTANT PageSizes = {1, 2, 3, 4, 5}
CONSTANT MaxLogsSet = {2, 4}
CONSTANT GrowThreshold = 50
CONSTANT DaSet <- MCDaSet
CONSTANT MaxRpc = 12
CONSTRAINT Bounded
INVARIANT EmitWalk
CHECK_DEADLOCK FALSE
