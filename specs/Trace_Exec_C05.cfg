SPECIFICATION TSpec
INVARIANT PhaseOk
INVARIANT DaExact
INVARIANT ImportedInOrder
INVARIANT MessageImportedOnce
INVARIANT ForcedExecutedOrFailed
INVARIANT InboxRoot
INVARIANT MessagesLand
POSTCONDITION TraceAccepted
CHECK_DEADLOCK FALSE
