---------------------------- MODULE MC_LeaderLease ----------------------------
(* Model-checking instance of LeaderLease: VIEW without the action label, symmetry over nodes  *)
(* and replicas (the spec never orders or CHOOSEs among them), optional BFS depth bound.       *)
EXTENDS LeaderLease, Json

CONSTANTS MaxDepth       \* explore behaviours of fewer than MaxDepth steps (0 = unbounded)

View == vars
Sym == Permutations(Node) \cup Permutations(Replica)
DepthBound == MaxDepth = 0 \/ TLCGet("level") < MaxDepth
=============================================================================
