---------------------------- MODULE Trace_Compression ----------------------------
(* Trace validation of the real fuel_core_compression::compress / decompress over the compression    *)
(* service's temporal-registry tables (h-compress c33-run / c33-random).  Every event logs the values   *)
(* the block uses per keyspace, the registrations and references of the compressed block, the result,  *)
(* the round-trip comparison of header and transactions, and the projection of both registry databases. *)
EXTENDS Compression, Json, IOUtils

Rec == ndJsonDeserialize(IOEnv.TRACE)
Strict == IOEnv.STRICT = "1"
VARIABLE l
tvars == <<vars, act, l>>
IsEv(e) == l <= Len(Rec) /\ Rec[l].ev = e /\ l' = l + 1
TInit == Init /\ l = 1

RangeOf(s) == { s[i] : i \in 1..Len(s) }
RegFn(arr) == [k \in { r.k : r \in RangeOf(arr) } |->
                 LET r == CHOOSE r \in RangeOf(arr) : r.k = k IN [v |-> r.v, ts |-> r.ts]]
IdxFn(arr) == [v \in { r.v : r \in RangeOf(arr) } |-> (CHOOSE r \in RangeOf(arr) : r.v = v).k]
\* JSON object keyed by keyspace -> function over KS
Seqs(o) == [ks \in KS |-> o[ks]]
Pairs(o) == [ks \in KS |-> [i \in 1..Len(o[ks]) |-> <<o[ks][i][1], o[ks][i][2]>>]]

PostC(st) == /\ creg' = [ks \in KS |-> RegFn(st.creg[ks])]
             /\ cidx' = [ks \in KS |-> IdxFn(st.cidx[ks])]
             /\ clatest' = [ks \in KS |-> st.clatest[ks]]
PostD(st) == /\ dreg' = [ks \in KS |-> RegFn(st.dreg[ks])]
             /\ didx' = [ks \in KS |-> IdxFn(st.didx[ks])]

TReset == /\ IsEv("reset")
          /\ creg' = [ks \in KS |-> EmptyFn] /\ cidx' = [ks \in KS |-> EmptyFn]
          /\ clatest' = [ks \in KS |-> NoKey]
          /\ dreg' = [ks \in KS |-> EmptyFn] /\ didx' = [ks \in KS |-> EmptyFn]
          /\ queue' = <<>> /\ lastc' = NoC /\ lastd' = NoD /\ maxts' = 0
          /\ act' = [name |-> "reset"]

TJump == /\ IsEv("Jump")
         /\ LET r == Rec[l] IN
              IF Strict THEN Jump(r.ks, r.k) /\ PostC(r.st) /\ PostD(r.st)
              ELSE /\ PostC(r.st) /\ PostD(r.st)
                   /\ UNCHANGED <<queue, lastc, lastd, maxts>>
                   /\ act' = [name |-> "Jump", ks |-> r.ks, k |-> r.k]

TCompress ==
  /\ IsEv("CompressBlock")
  /\ LET r == Rec[l]
         used == Seqs(r.used)
         regs == Pairs(r.regs)
         blk == [ts |-> r.ts, regs |-> regs, refs |-> Seqs(r.refs), orig |-> used]
     IN IF Strict
        THEN /\ CompressBlock(used, r.ts, regs)
             /\ lastc'.res = r.res
             /\ r.res = "Ok" => lastc'.blk = blk
             /\ PostC(r.st) /\ PostD(r.st)
        ELSE /\ PostC(r.st) /\ PostD(r.st)
             /\ queue' = IF r.res = "Ok" THEN Append(queue, blk) ELSE queue
             /\ lastc' = [res |-> r.res, blk |-> blk]
             /\ GhostMaxTs(r.ts)
             /\ UNCHANGED lastd
             /\ act' = [name |-> "CompressBlock", used |-> used, ts |-> r.ts]

TDecompress ==
  /\ IsEv("DecompressBlock")
  /\ queue # <<>>
  /\ LET r == Rec[l]
         d == [res |-> r.res, out |-> Seqs(r.out), orig |-> Head(queue).orig, hdr |-> r.hdr, txs |-> r.txs]
     IN IF Strict
        THEN /\ DecompressBlock
             /\ lastd' = d
             /\ PostC(r.st) /\ PostD(r.st)
        ELSE /\ PostC(r.st) /\ PostD(r.st)
             /\ queue' = Tail(queue)
             /\ lastd' = d
             /\ UNCHANGED <<lastc, maxts>>
             /\ act' = [name |-> "DecompressBlock"]

TNext == TReset \/ TJump \/ TCompress \/ TDecompress
TSpec == TInit /\ [][TNext]_tvars
TraceAccepted ==
  LET d == TLCGet("stats").diameter IN
  IF d - 1 = Len(Rec) THEN PrintT(<<"TRACE-ACCEPTED", Len(Rec)>>)
  ELSE PrintT(<<"TRACE-REJECTED", d>>) /\ PrintT(Rec[d])
=============================================================================
