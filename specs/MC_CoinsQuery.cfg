SPECIFICATION Spec
CONSTANT N = 3
CONSTANT SlotKinds <- Slots3
CONSTANT Amts = {1, 2, 4}
CONSTANT Foreign = TRUE
CONSTANT MaxT = 5
CONSTANT MaxMax = 3
CONSTANT MaxEx = 1
CONSTANT Algos = {"indexed", "largest", "improve"}
CONSTANT IndexedMinMax = 1
VIEW View
INVARIANT OnlyOwnedUnspent
INVARIANT NoExcluded
INVARIANT NoDup
INVARIANT AtMostMax
INVARIANT CoversTarget
INVARIANT ErrorOnlyWhenNoAdmissibleSelection
INVARIANT SearchLemma
CHECK_DEADLOCK FALSE
