SPECIFICATION TSpec
INVARIANT PhaseOk
INVARIANT MintRules
INVARIANT Limits
INVARIANT AskedWhatIsLeft
INVARIANT MintTamperedRejected
POSTCONDITION TraceAccepted
CHECK_DEADLOCK FALSE
