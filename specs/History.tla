---------------------------- MODULE History ----------------------------
(* C12 — historical views and rollbacks of the history-keeping RocksDB store, seen through        *)
(* fuel_core::database::Database<OnChain> (view_at, rollback_last_block, latest_view) across      *)
(* restarts that change the StateRewindPolicy.                                                     *)
(*   crates/fuel-core/src/state/historical_rocksdb.rs : commit_changes, store_modifications_history, *)
(*        reverse_history_changes, cleanup_old_changes, remove_historical_modifications,            *)
(*        create_view_at, rollback_block_to                                                         *)
(*   crates/fuel-core/src/state/historical_rocksdb/view_at_height.rs : ViewAtHeight::get            *)
(*   crates/fuel-core/src/database.rs : HistoricalView::view_at, rollback_last_block                *)
(* Code state: latest (original columns), hset/hdiff (ModificationsHistoryV2: height -> reverse     *)
(* changes), dup (historical duplicate columns: key||height -> reverse operation), cached height,  *)
(* policy.  Ghost: truth[h] = the state right after block h, gh = height of the latest block.       *)
EXTENDS Integers, FiniteSets, TLC

CONSTANTS NKeys,      \* abstract keys 1..NKeys
          Vals,       \* values (positive ints); 0 = absent
          MaxH,       \* block heights 0..MaxH
          Policies    \* subset of {"none", "full", "r1", "r2", "r3"}

Keys    == 1..NKeys
Heights == 0..MaxH
Val0    == Vals \cup {0}
Base    == [k \in Keys |-> 0]
Size(p) == CASE p = "r1" -> 1 [] p = "r2" -> 2 [] p = "r3" -> 3 [] OTHER -> 0
\* a block's writes: per key -1 = untouched, 0 = remove, v = insert v
Writes  == [Keys -> Val0 \cup {-1}]
Apply(st, w) == [k \in Keys |-> IF w[k] = -1 THEN st[k] ELSE w[k]]
Max2(a, b) == IF a >= b THEN a ELSE b

VARIABLES
  policy,   \* "unborn" before New, else the StateRewindPolicy the store was opened with
  cached,   \* Database height (-1 = None)
  latest,   \* [Keys -> Val0]
  hset,     \* heights that have an entry in ModificationsHistoryV2
  hdiff,    \* [Heights -> set of <<key, old value>>] : the reverse changes stored per height ({} if none)
  dup,      \* set of <<key, height, old value>> : historical duplicate column
  truth,    \* ghost [-1..MaxH -> state]; index -1 = the state before the first block
  gh,       \* ghost: height of the latest block (-1 none)
  lv,       \* last view taken: [h, ok, st] (kept out of VIEW)
  act
vars == <<policy, cached, latest, hset, hdiff, dup, truth, gh>>

NoView == [h |-> -1, ok |-> FALSE, st |-> Base]
Init ==
  /\ policy = "unborn" /\ cached = -1 /\ latest = Base
  /\ hset = {} /\ hdiff = [h \in Heights |-> {}] /\ dup = {}
  /\ truth = [h \in -1..MaxH |-> Base] /\ gh = -1
  /\ lv = NoView /\ act = [name |-> "Init"]

DiffKeys(d) == {e[1] : e \in d}
\* remove_historical_modifications(height, _, changes): delete key||height for every key of `changes`
DropDup(D, h, d) == {e \in D : ~(e[2] = h /\ e[1] \in DiffKeys(d))}

(* ---- transcription: HistoricalRocksDB::commit_changes(Some(h), changes) ----------------------------------*)
\* reverse_history_changes: (None,Remove) and (Some v, Insert v) store nothing; otherwise the old value
Reverse(st, w) == {<<k, st[k]>> : k \in {x \in Keys : w[x] # -1 /\ w[x] # st[x]}}
CommitHist(h, w) ==
  IF policy = "none" THEN UNCHANGED <<hset, hdiff, dup>>
  ELSE
    LET rev  == Reverse(latest, w)
        \* cleanup_old_changes: only RewindRange, only the single height h - size (saturating)
        old  == Max2(h - Size(policy), 0)
        cl   == policy \in {"r1", "r2", "r3"} /\ old \in hset
        hs1  == IF cl THEN hset \ {old} ELSE hset
        dp1  == IF cl THEN DropDup(dup, old, hdiff[old]) ELSE dup
        hd1  == IF cl THEN [hdiff EXCEPT ![old] = {}] ELSE hdiff
        \* replace(&h, &reverse_changes): an entry already there ("committed twice the same height")
        tw   == h \in hs1
        dp2  == IF tw THEN DropDup(dp1, h, hd1[h]) ELSE dp1
    IN /\ hset' = hs1 \cup {h}
       /\ hdiff' = [hd1 EXCEPT ![h] = rev]
       /\ dup' = dp2 \cup {<<e[1], h, e[2]>> : e \in rev}

(* ---- transcription: Database::view_at -> create_view_at + ViewAtHeight::get --------------------------------*)
NearestAbove(k, h) ==   \* entries of key k at heights >= h in the duplicate column
  {e \in dup : e[1] = k /\ e[2] >= h}
ViewAt(h) ==
  IF cached = -1 \/ h = cached THEN [ok |-> TRUE, st |-> latest]
  ELSE IF ~((h + 1) \in hset \/ h \in hset) THEN [ok |-> FALSE, st |-> Base]     \* NoHistoryForRequestedHeight
  ELSE [ok |-> TRUE,
        st |-> [k \in Keys |->
                  LET c == NearestAbove(k, h + 1) IN
                  IF c = {} THEN latest[k]
                  ELSE (CHOOSE e \in c : \A f \in c : e[2] <= f[2])[3]]]

(* ---- ghost rules ----------------------------------------------------------------------------------------------*)
GhostCommit(w, res) ==
  IF res = "Ok" THEN /\ gh' = gh + 1
                     /\ truth' = [truth EXCEPT ![gh + 1] = Apply(truth[gh], w)]
  ELSE UNCHANGED <<gh, truth>>
GhostRollback(res) ==
  IF res = "Ok" THEN /\ gh' = gh - 1
                     /\ truth' = [truth EXCEPT ![gh] = Base]
  ELSE UNCHANGED <<gh, truth>>

(* ---- actions --------------------------------------------------------------------------------------------------*)
New(p) ==
  /\ policy = "unborn"
  /\ policy' = p
  /\ UNCHANGED <<cached, latest, hset, hdiff, dup, truth, gh, lv>>
  /\ act' = [name |-> "New", policy |-> p]

\* close the database and open it again with a (possibly different) rewind policy
Restart(p) ==
  /\ policy # "unborn"
  /\ policy' = p
  /\ UNCHANGED <<cached, latest, hset, hdiff, dup, truth, gh, lv>>
  /\ act' = [name |-> "Restart", policy |-> p]

\* one block: the changes carry height cached+1 (C09 covers every other case)
Commit(w) ==
  /\ policy # "unborn"
  /\ cached < MaxH
  /\ LET h == cached + 1 IN
     /\ CommitHist(h, w)
     /\ latest' = Apply(latest, w)
     /\ cached' = h
  /\ GhostCommit(w, "Ok")
  /\ lv' = NoView              \* a view describes the history it was taken from
  /\ UNCHANGED policy
  /\ act' = [name |-> "Commit", w |-> w, res |-> "Ok"]

\* rollback_block_to(cached): take the diff of that height, drop its duplicate-column entries
RollbackHist(res) ==
  IF res = "Ok"
  THEN /\ hset' = hset \ {cached}
       /\ hdiff' = [hdiff EXCEPT ![cached] = {}]
       /\ dup' = DropDup(dup, cached, hdiff[cached])
  ELSE UNCHANGED <<hset, hdiff, dup>>
RollbackRes == IF cached = -1 THEN "Err:NoHeight" ELSE IF cached \in hset THEN "Ok" ELSE "Err:NotFound"
Rollback ==
  /\ policy # "unborn"
  /\ LET res == RollbackRes IN
     /\ IF res = "Ok"
        THEN LET d == hdiff[cached] IN
             /\ latest' = [k \in Keys |-> IF k \in DiffKeys(d)
                                          THEN (CHOOSE e \in d : e[1] = k)[2] ELSE latest[k]]
             /\ cached' = cached - 1
        ELSE UNCHANGED <<latest, cached>>
     /\ RollbackHist(res)
     /\ GhostRollback(res)
     /\ act' = [name |-> "Rollback", res |-> res]
  /\ lv' = NoView
  /\ UNCHANGED policy

\* a view at a height that holds a block
View(h) ==
  /\ policy # "unborn"
  /\ h \in 0..gh
  /\ lv' = [h |-> h, ok |-> ViewAt(h).ok, st |-> ViewAt(h).st]
  /\ UNCHANGED vars
  /\ act' = [name |-> "View", h |-> h]

Next ==
  \/ \E p \in Policies : New(p) \/ Restart(p)
  \/ \E w \in Writes : Commit(w)
  \/ Rollback
  \/ \E h \in Heights : View(h)

Spec == Init /\ [][Next]_<<vars, lv, act>>

\* The regime in which the retained window never shrinks while history exists: a restart keeps the policy
\* or widens it (none < r1 < r2 < r3 < full), or there is no history yet.  Outside it the code leaves gaps
\* in the history (known findings C12-1 / C12-2) and `Spec` violates ViewExactOrNoHistory.
Rank(p) == CASE p = "none" -> 0 [] p = "r1" -> 1 [] p = "r2" -> 2 [] p = "r3" -> 3 [] OTHER -> 100
KeepsWindow(p) == hset = {} \/ Rank(p) >= Rank(policy)
NextKeep ==
  \/ \E p \in Policies : New(p) \/ (KeepsWindow(p) /\ Restart(p))
  \/ \E w \in Writes : Commit(w)
  \/ Rollback
  \/ \E h \in Heights : View(h)
SpecKeep == Init /\ [][NextKeep]_<<vars, lv, act>>

(* ---- the property ---------------------------------------------------------------------------------------------*)
\* a view at height h fails with no-history or is exactly the state right after block h  (MC form: all h)
ViewExactOrNoHistory ==
  policy # "unborn" => \A h \in 0..gh : ~ViewAt(h).ok \/ ViewAt(h).st = truth[h]
\* trace form: the last view taken
LastViewExact == lv.h # -1 => (~lv.ok \/ lv.st = truth[lv.h])
\* the latest state is the state after the latest block; in particular a successful rollback restores
\* exactly the state of the previous height, repeatedly
LatestExact == latest = truth[gh]
RollbackRestoresPrevious ==
  [][(act'.name = "Rollback" /\ act'.res = "Ok") => latest' = truth[gh - 1]]_<<vars, lv, act>>

StateRec == [policy |-> policy, cached |-> cached, latest |-> latest, hset |-> hset, hdiff |-> hdiff,
             dup |-> dup, truth |-> truth, gh |-> gh]
=============================================================================
