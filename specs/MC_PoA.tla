------------------------------ MODULE MC_PoA ------------------------------
EXTENDS PoA, Json
View == vars

Cfg(trig, bt, tus, minPeers, lag) == [trig |-> trig, bt |-> bt, tus |-> tus, minPeers |-> minPeers, lag |-> lag]
Ld(k, off, cnt, dt) == [k |-> k, off |-> off, cnt |-> cnt, dt |-> dt]
CfgInterval == {Cfg("Interval", 1, 0, 0, 0), Cfg("Interval", 1, 3, 0, 0), Cfg("Interval", 1, 3, 1, 0)}
CfgInstant  == {Cfg("Instant", 0, 0, 0, 2), Cfg("Instant", 0, 3, 0, 0), Cfg("Never", 0, 3, 0, 1)}
CfgOpen     == {Cfg("Open", 1, 0, 0, 0), Cfg("Open", 1, 3, 0, 0)}
CfgQuick    == {Cfg("Interval", 1, 3, 0, 0)}
CfgAll      == CfgInterval \cup CfgInstant \cup CfgOpen
MCLeaders   == {Ld("L", 0, 0, 0), Ld("F", 0, 0, 0), Ld("E", 0, 0, 0),
                Ld("U", 0, 1, 0), Ld("U", 0, 2, 1), Ld("U", -1, 2, 0), Ld("U", 1, 1, 0), Ld("U", 0, 1, -1)}
MCStartsNone == {-1}
MCStarts == {-1, 9, 14}
MCSkews == {-2, 0, 2}
MCLeadersQuick == {Ld("L", 0, 0, 0), Ld("F", 0, 0, 0), Ld("U", 0, 1, 1)}
MCLeadersFree == {Ld("F", 0, 0, 0)}
MCLeadersSmall == {Ld("L", 0, 0, 0), Ld("F", 0, 0, 0), Ld("U", 0, 1, 1)}

\* the harness (and a current_thread runtime) runs the tasks to quiescence between two environment actions
TaskCanStep ==
  \/ pc \in {"Sync", "Leader", "IsAvail", "Produce", "Commit", "Release", "Recon", "ReconDb"}
  \/ pc = "WaitSync" /\ dirty
  \/ pc = "Sleep" /\ now >= wakeAt
  \/ pc = "Select" /\ (reqQ # <<>> \/ TriggerReady)
  \/ pc = "Seal" /\ now >= curDl
SyncCanStep == Born /\ (peersQ # <<>> \/ blockQ # <<>> \/ TimerDue)
Quiet == ~TaskCanStep /\ ~SyncCanStep /\ respQ = <<>>
EnvWhenQuiet == act'.name \in EnvActs => Quiet

CONSTANTS MaxNow, MaxBlocks
Bounded == now <= MaxNow /\ dbH <= H0 + MaxBlocks /\ Len(reqQ) <= 1 /\ Len(peersQ) <= 1 /\ Len(respQ) <= 1 /\ Len(blockQ) <= 3

EmitEdge == PrintT(<<"EDGE", ToJson([src |-> StateRec, act |-> act', dst |-> StateRec'])>>)
=============================================================================
