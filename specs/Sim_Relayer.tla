---------------------------- MODULE Sim_Relayer ----------------------------
(* Simulation instance: carries the action history so that `tlc -simulate` behaviours can be *)
(* replayed on the real relayer service (vlib.sim_walks).  The DA chain of a New step is      *)
(* recorded by name; the chains are printed once ("DAS").                                     *)
EXTENDS MC_Relayer
VARIABLE hist
ASSUME PrintT(<<"DAS", ToJson([A |-> DaA, B |-> DaB])>>)
Short(a) == IF a.name = "New" THEN [a EXCEPT !.da = IF a.da = DaA THEN "A" ELSE "B"] ELSE a
SimInit == Init /\ hist = <<>>
SimNext == Next /\ hist' = Append(hist, Short(act'))
SimSpec == SimInit /\ [][SimNext]_<<vars, act, hist>>
EmitWalk == PrintT(<<"WALK", ToJson(hist)>>)
=============================================================================
