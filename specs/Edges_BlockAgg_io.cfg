SPECIFICATION Spec
CONSTANT MaxH = 0
CONSTANT ShapeMode = "io"
CONSTANT Shapes <- MCShapes
CONSTANT OneShot = TRUE
VIEW View
ACTION_CONSTRAINT EmitEdge
CHECK_DEADLOCK FALSE
