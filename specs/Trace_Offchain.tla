---------------------------- MODULE Trace_Offchain ----------------------------
(* Trace validation of the real off-chain indexation (process_executor_events on Database<OffChain>)    *)
(* against Offchain.  Executor events carry no state; every Commit event carries the projection of the *)
(* five tables and of the read-side answers.                                                             *)
(* STRICT=1: the spec's own tables/view after CommitBlock must equal the projection.                     *)
(* STRICT=0: tables and view are bound to the projection at Commit, the ghost chain state follows the   *)
(*           logged executor events; IndexesEqualUnspent judges.                                         *)
EXTENDS Offchain, Json, IOUtils

Rec == ndJsonDeserialize(IOEnv.TRACE)
Strict == IOEnv.STRICT = "1"

VARIABLE l
tvars == <<vars, act, l>>

IsEv(e) == l <= Len(Rec) /\ Rec[l].ev = e /\ l' = l + 1
TInit == Init /\ l = 1
TReset == /\ IsEv("reset")
          /\ coinSt' = [i \in CIds |-> "new"] /\ coinAt' = [i \in CIds |-> NoCoin]
          /\ msgSt' = [i \in MIds |-> "new"] /\ msgAt' = [i \in MIds |-> NoMsg]
          /\ bal' = ZeroBal /\ mbal' = ZeroMBal /\ ownedC' = {} /\ ownedM' = {} /\ c2s' = {}
          /\ view' = ViewOf(ZeroBal, ZeroMBal, {}, {}, {}) /\ junk' = 0 /\ dirty' = FALSE
          /\ act' = [name |-> "reset"]

Range(s) == {s[i] : i \in 1..Len(s)}
\* value of the (unique) entry of a logged table for a key, 0 when there is none
ValOA(list, o, a) == LET S == {i \in 1..Len(list) : list[i].o = o /\ list[i].a = a} IN
                       IF S = {} THEN 0 ELSE list[CHOOSE i \in S : TRUE].v
LBal(st) == [p \in Owners \X Assets |-> ValOA(st.bal, p[1], p[2])]
LMBal(st) == [o \in Owners |-> LET S == {i \in 1..Len(st.mbal) : st.mbal[i].o = o} IN
                 IF S = {} THEN [r |-> 0, n |-> 0]
                 ELSE LET e == st.mbal[CHOOSE i \in S : TRUE] IN [r |-> e.r, n |-> e.n]]
LPairs(list) == {<<list[i][1], list[i][2]>> : i \in 1..Len(list)}
LView(st) ==
  [total |-> [p \in Owners \X Assets |-> ValOA(st.total, p[1], p[2])],
   qc    |-> [o \in Owners |-> Range(st.qc[o])],
   qm    |-> [o \in Owners |-> Range(st.qm[o])],
   q2s   |-> [p \in Owners \X Assets |->
                LET S == {i \in 1..Len(st.q2s) : st.q2s[i].o = p[1] /\ st.q2s[i].a = p[2]} IN
                  IF S = {} THEN {} ELSE Range(st.q2s[CHOOSE i \in S : TRUE].e)]]

\* an executor event: strict = the spec's action; observe = ghost only, the tables are read at the next Commit
Ev(A, G) == IF Strict THEN A
            ELSE G /\ UNCHANGED <<tables, view, junk>> /\ dirty' = TRUE /\ act' = [name |-> Rec[l].ev]

TCoinCreated == IsEv("CoinCreated") /\ LET r == Rec[l] IN
                  Ev(CoinCreated(r.id, r.o, r.a, r.v), GhostCoinCreated(r.id, r.o, r.a, r.v))
TCoinConsumed == IsEv("CoinConsumed") /\ LET r == Rec[l] IN
                  Ev(CoinConsumed(r.id) /\ coinAt[r.id] = [o |-> r.o, a |-> r.a, v |-> r.v], GhostCoinConsumed(r.id))
TMessageImported == IsEv("MessageImported") /\ LET r == Rec[l] IN
                  Ev(MessageImported(r.id, r.o, r.v, r.r), GhostMessageImported(r.id, r.o, r.v, r.r))
TMessageConsumed == IsEv("MessageConsumed") /\ LET r == Rec[l] IN
                  Ev(MessageConsumed(r.id) /\ msgAt[r.id] = [o |-> r.o, v |-> r.v, r |-> r.r], GhostMessageConsumed(r.id))

TCommit == /\ IsEv("Commit")
           /\ LET st == Rec[l].st IN
                IF Strict
                THEN /\ CommitBlock /\ Rec[l].res = "ok"
                     /\ bal = LBal(st) /\ mbal = LMBal(st) /\ ownedC = LPairs(st.ownedC) /\ ownedM = LPairs(st.ownedM)
                     /\ c2s = Range(st.c2s) /\ view' = LView(st) /\ st.junk = 0
                ELSE /\ bal' = LBal(st) /\ mbal' = LMBal(st) /\ ownedC' = LPairs(st.ownedC) /\ ownedM' = LPairs(st.ownedM)
                     /\ c2s' = Range(st.c2s) /\ view' = LView(st) /\ junk' = st.junk
                     /\ dirty' = FALSE /\ UNCHANGED chain /\ act' = [name |-> "Commit"]

TNext == TReset \/ TCoinCreated \/ TCoinConsumed \/ TMessageImported \/ TMessageConsumed \/ TCommit
TSpec == TInit /\ [][TNext]_tvars

TraceAccepted ==
  LET d == TLCGet("stats").diameter IN
  IF d - 1 = Len(Rec) THEN PrintT(<<"TRACE-ACCEPTED", Len(Rec)>>)
  ELSE PrintT(<<"TRACE-REJECTED", d>>) /\ PrintT(Rec[d])
=============================================================================
