SPECIFICATION TSpec
CONSTANT MaxH = 6
CONSTANT Deploys = {0}
CONSTANT PageSizes = {1}
CONSTANT MaxLogsSet = {1}
CONSTANT GrowThreshold = 50
CONSTANT DaSet = {}
CONSTANT MaxRpc = 6
INVARIANT StoredEqualsDa
INVARIANT NoGapNoRewrite
PROPERTY SyncedMonotone
POSTCONDITION TraceAccepted
CHECK_DEADLOCK FALSE
