SPECIFICATION Spec
CONSTANT CellSet <- CellsOneCol
CONSTANT NVals = 2
CONSTANT MaxDepth = 1
CONSTANT MaxDet = 0
CONSTANT Pols = {"F", "O"}
CONSTANT Offs = {1}
CONSTANT Lens = {2}
CONSTANT Reads = TRUE
VIEW View
ACTION_CONSTRAINT EmitEdge
CHECK_DEADLOCK FALSE
