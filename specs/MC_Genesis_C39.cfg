SPECIFICATION Spec
CONSTANTS
  Migs = {"Coins -> Coins", "ContractsState -> ContractsState", "ProcessedTransactions -> ProcessedTransactions", "Coins -> OwnedCoins"}
  Worlds <- MCWorldsBig
  GroupSizes = {0, 1, 2, 3}
  Encodings = {"parquet"}
  MaxCrashes = 0
  WithDrop = FALSE
  ClearOffEarly = FALSE
VIEW View
INVARIANT TypeOK
INVARIANT ImportedEqualsExported
INVARIANT FinalEqualsUninterrupted
INVARIANT EachGroupOnce
CHECK_DEADLOCK FALSE
