SPECIFICATION TSpec
CONSTANT Tags = {1, 2}
CONSTANT MaxIns = 3
INVARIANT Shape
INVARIANT StreamInOrderNoDup
INVARIANT StreamNothingAfterFinal
INVARIANT StreamNothingAfterEnd
INVARIANT StreamFinalCloses
PROPERTY ClosedAbsorbingT
POSTCONDITION TraceAccepted
CHECK_DEADLOCK FALSE
