SPECIFICATION SpecCoarse
CONSTANTS
  Replica = {A, B}
  Node = {n1, n2, n3, n4}
  NoReplica = NoReplica
  MaxHeight = 2
  MaxEpoch = 3
  MaxMade = 2
  MaxLate = 1
  MaxInc = 1
  Budget = 0
  LateKinds = {"write"}
  EarlyStop = FALSE
  MaxDepth = 9
VIEW View
SYMMETRY Sym
CONSTRAINT Bounded
CONSTRAINT DepthBound
INVARIANT NoFork
INVARIANT AtMostOneQuorumBlockPerHeight
INVARIANT OneOwnerPerNode
PROPERTY EpochMonotone
CHECK_DEADLOCK FALSE
