SPECIFICATION Spec
CONSTANT Configs <- CfgInstant
CONSTANT TPS = 2
CONSTANT H0 = 1
CONSTANT T0 = 10
CONSTANT Advs = {1, 2}
CONSTANT Skews = {}
CONSTANT ImportDts = {0, 3}
CONSTANT ManualStarts <- MCStartsNone
CONSTANT ManualNs = {1}
CONSTANT FailKinds = {"produce", "commit"}
CONSTANT Leaders <- MCLeadersSmall
CONSTANT PeerCounts = {0, 1}
CONSTANT MaxNow = 4
CONSTANT MaxBlocks = 2
VIEW View
CONSTRAINT Bounded
ACTION_CONSTRAINT EnvWhenQuiet
INVARIANT TypeOK
INVARIANT ReqNextHeight
INVARIANT ReqTimeMonotone
INVARIANT SealedBeforeCommit
INVARIANT IntervalSpacing
INVARIANT TaskKnowsHeight
CHECK_DEADLOCK FALSE
