---------------------------- MODULE MC_Delegation ----------------------------
EXTENDS Delegation, Json
View == vars
MCBatches == { [txs |-> <<>>, kinds |-> <<>>],
               [txs |-> <<1>>, kinds |-> <<"PSucc">>],
               [txs |-> <<2, 1>>, kinds |-> <<"PSq", "PFail">>] }
EmitEdge == PrintT(<<"EDGE", ToJson([src |-> StateRec, act |-> act', dst |-> StateRec'])>>)
=============================================================================
