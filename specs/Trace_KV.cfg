SPECIFICATION TSpec
CONSTANT CellSet <- CellsFour
CONSTANT NVals = 3
CONSTANT MaxDepth = 3
CONSTANT MaxDet = 2
CONSTANT Pols = {"F", "O"}
CONSTANT Offs = {}
CONSTANT Lens = {}
CONSTANT Reads = TRUE
INVARIANT ReadYourWrites
INVARIANT AllLevels
INVARIANT Shape
PROPERTY ResultsExact
PROPERTY ConflictExact
PROPERTY NoPanic
POSTCONDITION TraceAccepted
CHECK_DEADLOCK FALSE
