SPECIFICATION TSpec
CONSTANT MaxH = 4
CONSTANT MaxSize = 5
INVARIANT PartitionInv
POSTCONDITION TraceAccepted
CHECK_DEADLOCK FALSE
