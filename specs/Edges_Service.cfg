SPECIFICATION Spec
CONSTANT NC = 2
CONSTANT MaxRun = 2
VIEW View
ACTION_CONSTRAINT EmitEdge
CHECK_DEADLOCK FALSE
