---------------------------- MODULE Trace_P2PServe ----------------------------
(* Trace validation of the real fuel_core_p2p Task (run / process_request / handle_db_request), *)
(* CachedView and request/response codec against P2PServe.tla.                                 *)
(* STRICT=1: every event must be the spec's own action with the logged database query, the     *)
(* logged response before and after the codec and the logged cache content (the evicted keys    *)
(* are read off the log).  STRICT=0 (observe): state and `act` are bound to what the           *)
(* implementation logged; only the action properties judge.                                    *)
EXTENDS P2PServe, Json, IOUtils

Rec == ndJsonDeserialize(IOEnv.TRACE)
Strict == IOEnv.STRICT = "1"

VARIABLE l
tvars == <<vars, act, l>>

IsEv(e) == l <= Len(Rec) /\ Rec[l].ev = e /\ l' = l + 1
Pairs(s) == {<<s[i][1], s[i][2]>> : i \in DOMAIN s}
Msg(m) == [v |-> m.v, k |-> m.k, items |-> m.items, code |-> m.code]
Fits(r) == r.len <= r.max

TInit == Init /\ l = 1

TReset == /\ IsEv("reset")
          /\ maxHdr' = -1 /\ maxTx' = -1 /\ tip' = -1 /\ cacheH' = {} /\ cacheT' = {}
          /\ act' = [name |-> "reset"]

PostIs(r) == tip' = r.tip /\ cacheH' = Pairs(r.cacheH) /\ cacheT' = Pairs(r.cacheT)

TNew == IsEv("New") /\ LET r == Rec[l] IN
  IF Strict THEN New(r.mh, r.mt) /\ PostIs(r)
  ELSE maxHdr = -1 /\ maxHdr' = r.mh /\ maxTx' = r.mt /\ PostIs(r) /\ act' = [name |-> "New", mh |-> r.mh, mt |-> r.mt]

TExtend == IsEv("Extend") /\ LET r == Rec[l] IN
  IF Strict THEN Extend /\ PostIs(r)
  ELSE UNCHANGED <<maxHdr, maxTx>> /\ PostIs(r) /\ act' = [name |-> "Extend"]

\* the act record as the implementation logged it
LoggedRequest(r) ==
  [name |-> "Request", kind |-> r.kind, lo |-> r.lo, hi |-> r.hi, proto |-> r.proto, fits |-> Fits(r),
   dreq |-> <<r.dkind, r.dlo, r.dhi>>, dbq |-> r.dbq, sent |-> Msg(r.sent), recv |-> Msg(r.recv)]

TRequest == IsEv("Request") /\ LET r == Rec[l] IN
  IF Strict THEN
    LET c  == IF r.kind = "H" THEN cacheH ELSE cacheT
        lc == IF r.kind = "H" THEN Pairs(r.cacheH) ELSE Pairs(r.cacheT)
        s  == Serve(r.kind, c, r.lo, r.hi)
    IN /\ lc \subseteq s[3]
       /\ Request(r.kind, r.lo, r.hi, r.proto, Fits(r), Keys(s[3]) \ Keys(lc))
       /\ PostIs(r)
       /\ act' = LoggedRequest(r)
  ELSE UNCHANGED <<maxHdr, maxTx>> /\ PostIs(r) /\ act' = LoggedRequest(r)

LoggedAllIds(r) == [name |-> "AllIds", proto |-> r.proto, fits |-> Fits(r), sent |-> Msg(r.sent), recv |-> Msg(r.recv)]
TAllIds == IsEv("AllIds") /\ LET r == Rec[l] IN
  IF Strict THEN AllIds(r.proto, Fits(r)) /\ PostIs(r) /\ act' = LoggedAllIds(r)
  ELSE UNCHANGED <<maxHdr, maxTx>> /\ PostIs(r) /\ act' = LoggedAllIds(r)

LoggedFullTxs(r) == [name |-> "FullTxs", n |-> r.n, dn |-> r.dn, proto |-> r.proto, fits |-> Fits(r),
                     sent |-> Msg(r.sent), recv |-> Msg(r.recv)]
TFullTxs == IsEv("FullTxs") /\ LET r == Rec[l] IN
  IF Strict THEN FullTxs(r.n, r.proto, Fits(r)) /\ PostIs(r) /\ act' = LoggedFullTxs(r)
  ELSE UNCHANGED <<maxHdr, maxTx>> /\ PostIs(r) /\ act' = LoggedFullTxs(r)

LoggedReqLost(r) == [name |-> "ReqLost", rfits |-> (r.rlen <= r.max)]
TReqLost == IsEv("ReqLost") /\ LET r == Rec[l] IN
  IF Strict THEN ReqLost /\ PostIs(r) /\ act' = LoggedReqLost(r)
  ELSE UNCHANGED <<maxHdr, maxTx>> /\ PostIs(r) /\ act' = LoggedReqLost(r)

TNext == TReset \/ TNew \/ TExtend \/ TRequest \/ TAllIds \/ TFullTxs \/ TReqLost
TSpec == TInit /\ [][TNext]_tvars

TServedEqualsDatabase == [][ServedEqualsDatabaseOk]_tvars
TOverLimitRefused     == [][OverLimitRefusedOk]_tvars
TCodecFaithful        == [][CodecFaithfulOk]_tvars

TraceAccepted ==
  LET d == TLCGet("stats").diameter IN
  IF d - 1 = Len(Rec) THEN PrintT(<<"TRACE-ACCEPTED", Len(Rec)>>)
  ELSE PrintT(<<"TRACE-REJECTED", d>>) /\ PrintT(Rec[d])
=============================================================================
