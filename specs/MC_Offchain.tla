---------------------------- MODULE MC_Offchain ----------------------------
EXTENDS Offchain, Json
\* `view` is overwritten by CommitBlock without being read: hide the stale copy while a block is open
View == <<coinSt, coinAt, msgSt, msgAt, bal, mbal, ownedC, ownedM, c2s, IF dirty THEN 0 ELSE view, junk, dirty>>
EmitEdge == PrintT(<<"EDGE", ToJson([src |-> StateRec, act |-> act', dst |-> StateRec'])>>)
=============================================================================
