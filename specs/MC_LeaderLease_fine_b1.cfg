SPECIFICATION SpecFine
CONSTANTS
  Replica = {"A", "B"}
  Node = {"n1", "n2", "n3"}
  NoReplica = "none"
  MaxHeight = 3
  MaxEpoch = 8
  MaxMade = 5
  MaxLate = 2
  MaxInc = 1
  Budget = 1
  LateKinds = {"write", "promote", "release"}
  EarlyStop = FALSE
  MaxDepth = 0
CONSTRAINT Bounded
INVARIANT NoFork
INVARIANT AtMostOneQuorumBlockPerHeight
INVARIANT OneOwnerPerNode
PROPERTY EpochMonotone
CHECK_DEADLOCK FALSE
