---------------------------- MODULE Trace_KVIter ----------------------------
(* Trace validation of MemoryStore / RocksDb / HistoricalRocksDB against KVIter.                      *)
(* Commit events carry the backend's full content twice: `store` (forward iteration without bounds)   *)
(* and `pts` (a point lookup of every key of the universe); Query events carry what iter_store and    *)
(* iter_store_keys returned.  strict: the backend's transcribed algorithm must reproduce them;        *)
(* observe: they are bound to the log and only ContentsAgree / PointsAgree / QueryExact judge.        *)
EXTENDS KVIter, Json, IOUtils

Rec == ndJsonDeserialize(IOEnv.TRACE)
Strict == IOEnv.STRICT = "1"

VARIABLES l,
          pts      \* what point lookups (KeyValueInspect::get) see, same shape as store
tvars == <<vars, q, act, l, pts>>

IsEv(e) == l <= Len(Rec) /\ Rec[l].ev = e /\ l' = l + 1

PairsOf(sq) == {sq[i] : i \in 1..Len(sq)}
StoreOf(o) == [c \in Cols |-> PairsOf(o[c])]

TInit == Init /\ l = 1 /\ pts = Empty

TReset == /\ IsEv("reset")
          /\ backend' = "none" /\ store' = Empty /\ m' = Empty /\ q' = NoQuery /\ pts' = Empty
          /\ act' = [name |-> "reset"]

TNew == IsEv("New") /\ New(Rec[l].backend) /\ UNCHANGED pts

TCommit == IsEv("Commit") /\ LET r == Rec[l] IN
  /\ store' = StoreOf(r.store)
  /\ pts' = StoreOf(r.pts)
  /\ IF Strict THEN Commit(r.L, r.list) /\ act'.res = r.res
     ELSE /\ GhostCommit(r.L, r.res)
          /\ q' = NoQuery
          /\ UNCHANGED backend
          /\ act' = [name |-> "Commit", L |-> r.L, list |-> r.list, res |-> r.res]

TReopen == IsEv("Reopen") /\ LET r == Rec[l] IN
  /\ store' = StoreOf(r.store)
  /\ pts' = StoreOf(r.pts)
  /\ IF Strict THEN Reopen
     ELSE /\ q' = NoQuery
          /\ UNCHANGED <<backend, m>>
          /\ act' = [name |-> "Reopen"]

TQuery == IsEv("Query") /\ LET r == Rec[l] IN
  /\ UNCHANGED pts
  /\ IF Strict THEN Query(r.c, r.hp, r.p, r.hs, r.s, r.d) /\ q'.kv = r.kv /\ q'.keys = r.keys
     ELSE /\ q' = [c |-> r.c, hp |-> r.hp, p |-> r.p, hs |-> r.hs, s |-> r.s, d |-> r.d,
                   kv |-> r.kv, keys |-> r.keys]
          /\ UNCHANGED vars
          /\ act' = [name |-> "Query"]

TNext == TReset \/ TNew \/ TCommit \/ TReopen \/ TQuery
TSpec == TInit /\ [][TNext]_tvars

\* point lookups agree with the model as well
PointsAgree == pts = m

TraceAccepted ==
  LET d == TLCGet("stats").diameter IN
  IF d - 1 = Len(Rec) THEN PrintT(<<"TRACE-ACCEPTED", Len(Rec)>>)
  ELSE PrintT(<<"TRACE-REJECTED", d>>) /\ PrintT(Rec[d])
=============================================================================
