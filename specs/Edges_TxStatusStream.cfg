SPECIFICATION Spec
CONSTANT Tags = {1, 2}
CONSTANT MaxIns = 3
VIEW EdgeView
ACTION_CONSTRAINT EmitEdge
CHECK_DEADLOCK FALSE
