SPECIFICATION Spec
CONSTANT Configs <- CfgQuick
CONSTANT TPS = 2
CONSTANT H0 = 1
CONSTANT T0 = 10
CONSTANT Advs = {1, 2}
CONSTANT Skews = {}
CONSTANT ImportDts = {3}
CONSTANT ManualStarts <- MCStartsNone
CONSTANT ManualNs = {1}
CONSTANT FailKinds = {"commit"}
CONSTANT Leaders <- MCLeadersQuick
CONSTANT PeerCounts = {}
CONSTANT MaxNow = 5
CONSTANT MaxBlocks = 2
VIEW View
CONSTRAINT Bounded

INVARIANT TypeOK
INVARIANT ReqNextHeight
INVARIANT ReqTimeMonotone
INVARIANT SealedBeforeCommit
INVARIANT IntervalSpacing
INVARIANT TaskKnowsHeight
CHECK_DEADLOCK FALSE
