---------------------------- MODULE Importer ----------------------------
(* C08 - fuel-core-importer (crates/services/importer/src/importer.rs, ports.rs) over the real      *)
(* Database<OnChain> through fuel-core's ImporterDatabase adapter                                    *)
(* (crates/fuel-core/src/service/adapters/block_importer.rs).                                        *)
(*                                                                                                   *)
(* One action per port call / critical section of the importer, in the order the worker makes them:  *)
(*   Lock            Importer::lock (try_acquire of `guard`) + for commit_result the wait for a      *)
(*                   permit of `active_import_results`                                               *)
(*   ReadHeight      create_block_changes: ImporterDatabase::latest_block_height + height check      *)
(*   StoreNew        create_block_changes: DatabaseTransaction::store_new_block (uniqueness)         *)
(*   Verify          verify_and_execute_block_inner: BlockVerifier::verify_block_fields              *)
(*   Execute         verify_and_execute_block_inner: Validator::validate                             *)
(*   CheckRoot       _commit_result: latest_block_root of the database vs of database+changes        *)
(*   Publish         _commit_result: BlockReconciliationWritePort (Source::Local only)               *)
(*   DbCommit        _commit_result: ImporterDatabase::commit_changes([block_changes, changes])      *)
(*   Broadcast       _commit_result: broadcast.send                                                  *)
(*   Return          the public async fn returns (guard dropped)                                     *)
(* A failing stage jumps to Return with the error (the Fail(stage) of DESIGN.md is the `err` set by  *)
(* the stage).  execute_and_commit runs create_block_changes and verify_and_execute on a 2-thread    *)
(* rayon pool (LocalRunner::run_in_parallel); both closures only read and are independent, both run  *)
(* to completion, and the execution error wins.  The spec linearises them as ReadHeight, StoreNew,   *)
(* Verify, Execute (the harness emits the two branches' events in this canonical order).             *)
EXTENDS Integers, Sequences, FiniteSets, TLC

CONSTANTS MaxH,        \* heights 0..MaxH
          TxSets,      \* the transaction-id sets a block may carry (set of sets of small ints)
          Clients,     \* callers of the public API (small ints)
          Buf,         \* Config::max_block_notify_buffer
          Lockers,     \* the clients that start requests while the lock is free (subset of Clients)
          FailReqs,    \* requests tried while the lock is held (a subset of Req; their content is irrelevant)
          MaxSeeds,    \* bound on the stray records seeded into the empty database
          Subs         \* subscriber ids 1..Subs ; 1 and 2 subscribe at construction, the others later

Heights == 0..MaxH
SubIds  == 1..Subs
Block   == [h : Heights, k : {"G", "P"}, txs : TxSets]     \* k: Consensus::Genesis / Consensus::PoA
AllTxs  == UNION TxSets
NoBlock == [h |-> 0, k |-> "-", txs |-> {}]

Req == [kind : {"commit"}, b : Block, exe : {"clean", "touch", "same"}, ver : {"ok"}, pub : {"ok", "err"}]
       \cup
       [kind : {"exec"}, b : Block, exe : {"clean", "touch", "same", "err"}, ver : {"ok", "err"}, pub : {"ok"}]
NoReq == [kind |-> "-", b |-> NoBlock, exe |-> "-", ver |-> "-", pub |-> "-"]

VARIABLES db,          \* [blocks, cons, txs, root]: FuelBlocks / SealedBlockConsensus keys / Transactions keys /
                       \*   class of FuelBlockMerkleMetadata[Latest].root: "none" | "chain" (= Merkle root of the
                       \*   stored block ids) | "other"
          dv,          \* version of the whole database content (index of its digest among the digests seen)
          lock,        \* holder of Importer::guard (0 = free)
          pc, rq,      \* per client: stage of its request, the request
          ea,          \* per client: error of the create_block_changes branch while the other branch runs
          err,         \* per client: error the call will return ("none" = Ok)
          out,         \* permits of active_import_results in use (results not yet dropped by subscribers)
          got,         \* per subscriber: sequence of blocks received
          since,       \* per subscriber: number of commits before it subscribed (-1 = not subscribed)
          committed,   \* ghost: blocks whose database commit succeeded, in order
          snap,        \* ghost: per client [db, dv] when it took the lock
          flags,       \* ghost: names of property breaches seen on the recorded states
          act
vars == <<db, dv, lock, pc, rq, ea, err, out, got, since, committed, snap, flags>>

Max(S) == CHOOSE x \in S : \A y \in S : y <= x
Latest(d) == IF d.blocks = {} THEN -1 ELSE Max({b.h : b \in d.blocks})
EmptyDb == [blocks |-> {}, cons |-> {}, txs |-> {}, root |-> "none"]
AddBlock(d, b) == [blocks |-> d.blocks \cup {b}, cons |-> d.cons \cup {b.h}, txs |-> d.txs \cup b.txs,
                   root |-> "chain"]
NoSnap == [db |-> EmptyDb, dv |-> 0]
AllIdle == \A c \in Clients : pc[c] = "idle"

(* ---- what the property says about one commit, as predicates over the database before it ----------*)
NextOK(d, b)   == \/ d.blocks # {} /\ b.h = Latest(d) + 1
                  \/ d.blocks = {} /\ b.k = "G"
UniqueOK(d, b) == /\ \A x \in d.blocks : x.h # b.h
                  /\ b.h \notin d.cons
                  /\ b.txs \cap d.txs = {}
ShapeOK(d, d2, b) == /\ d2.blocks = d.blocks \cup {b}
                     /\ d2.cons = d.cons \cup {b.h}
                     /\ d2.txs = d.txs \cup b.txs
CommitFlags(d, d2, b) ==
  (IF NextOK(d, b) THEN {} ELSE {"notnext"}) \cup
  (IF UniqueOK(d, b) THEN {} ELSE {"notunique"}) \cup
  (IF ShapeOK(d, d2, b) THEN {} ELSE {"notatomic"})
ChangeFlags(d, v, d2, v2) == IF d = d2 /\ v = v2 THEN {} ELSE {"failchange"}

Init ==
  /\ db = EmptyDb /\ dv = 0 /\ lock = 0
  /\ pc = [c \in Clients |-> "idle"] /\ rq = [c \in Clients |-> NoReq]
  /\ ea = [c \in Clients |-> "none"] /\ err = [c \in Clients |-> "none"]
  /\ out = 0
  /\ got = [s \in SubIds |-> <<>>]
  /\ since = [s \in SubIds |-> IF s <= 2 THEN 0 ELSE -1]
  /\ committed = <<>>
  /\ snap = [c \in Clients |-> NoSnap]
  /\ flags = {}
  /\ act = [name |-> "Init"]

(* ---- ghost updates (shared with the trace spec's observe mode) ------------------------------------*)
GhostLockOk(c)       == snap' = [snap EXCEPT ![c] = [db |-> db, dv |-> dv]] /\ UNCHANGED <<committed, flags>>
GhostNoChange        == flags' = flags \cup ChangeFlags(db, dv, db', dv') /\ UNCHANGED <<committed, snap>>
GhostCommitOk(c, b)  == /\ committed' = Append(committed, b)
                        /\ flags' = flags \cup CommitFlags(db, db', b)
                        /\ UNCHANGED snap
GhostReturn(c, e)    == /\ flags' = flags \cup (IF e = "none" THEN {}
                                                ELSE ChangeFlags(snap[c].db, snap[c].dv, db', dv'))
                        /\ snap' = [snap EXCEPT ![c] = NoSnap]
                        /\ UNCHANGED committed
GhostIdle            == UNCHANGED <<committed, snap, flags>>

(* ---- control flow helpers ---------------------------------------------------------------------------*)
Goto(c, p)   == pc' = [pc EXCEPT ![c] = p]
Ret(c, e)    == pc' = [pc EXCEPT ![c] = "ret"] /\ err' = [err EXCEPT ![c] = e]
NoPermit     == out >= Buf
\* after create_block_changes ended with error e ("none" = produced the block changes)
AfterA(c, e) == IF rq[c].kind = "commit"
                THEN (IF e = "none" THEN Goto(c, "root") /\ UNCHANGED <<err, ea>> ELSE Ret(c, e) /\ UNCHANGED ea)
                ELSE Goto(c, "verify") /\ ea' = [ea EXCEPT ![c] = e] /\ UNCHANGED err
\* after verify_and_execute_block_inner ended with error e: the execution error wins over the block-changes
\* error; then execute_and_commit waits for a permit
AfterB(c, e) == LET e2 == IF e # "none" THEN e ELSE ea[c] IN
                IF e2 # "none" THEN Ret(c, e2)
                ELSE IF NoPermit THEN Ret(c, "PreviousBlockProcessingNotFinished")
                ELSE Goto(c, "root") /\ UNCHANGED err

(* ---- Importer::commit_result / execute_and_commit: entry --------------------------------------------*)
\* create_block_changes refuses a PoA block of height 0 before any port call; in execute_and_commit that
\* error waits for the other branch
LockEa(c, r) == IF r.kind = "exec" /\ r.b.k = "P" /\ r.b.h = 0 THEN "ZeroNonGenericHeight" ELSE "none"
Lock(c, r) ==
  /\ pc[c] = "idle" /\ lock = 0
  /\ lock' = c
  /\ rq' = [rq EXCEPT ![c] = r]
  /\ ea' = [ea EXCEPT ![c] = LockEa(c, r)]
  /\ IF r.kind = "commit" /\ NoPermit
       THEN Ret(c, "PreviousBlockProcessingNotFinished")
     ELSE IF r.b.k = "P" /\ r.b.h = 0
       THEN (IF r.kind = "commit" THEN Ret(c, "ZeroNonGenericHeight")
             ELSE Goto(c, "verify") /\ UNCHANGED err)
     ELSE Goto(c, "height") /\ UNCHANGED err
  /\ UNCHANGED <<db, dv, out, got, since>>
  /\ GhostLockOk(c)
  /\ act' = [name |-> "Lock", c |-> c, req |-> r, res |-> "Ok"]

LockFail(c, r) ==
  /\ pc[c] = "idle" /\ lock # 0
  /\ UNCHANGED <<db, dv, lock, pc, rq, ea, err, out, got, since>>
  /\ GhostNoChange
  /\ act' = [name |-> "LockFail", c |-> c, req |-> r, res |-> "Err:Semaphore"]

(* ---- create_block_changes -----------------------------------------------------------------------------*)
HeightErr(b, d) ==
  LET last == Latest(d) IN
  IF b.k = "G" THEN (IF last # -1 THEN "InvalidUnderlyingDatabaseGenesisState" ELSE "none")
  ELSE IF last = -1 THEN "Storage"                                  \* not_found!("Latest block height")
  ELSE IF last + 1 # b.h THEN "IncorrectBlockHeight" ELSE "none"

ReadHeight(c) ==
  /\ pc[c] = "height"
  /\ LET e == HeightErr(rq[c].b, db) IN
       IF e = "none" THEN Goto(c, "unique") /\ UNCHANGED <<err, ea>> ELSE AfterA(c, e)
  /\ UNCHANGED <<db, dv, lock, rq, out, got, since>>
  /\ GhostIdle
  /\ act' = [name |-> "ReadHeight", c |-> c, val |-> Latest(db)]

StoreNew(c) ==
  /\ pc[c] = "unique"
  /\ AfterA(c, IF UniqueOK(db, rq[c].b) THEN "none" ELSE "NotUnique")
  /\ UNCHANGED <<db, dv, lock, rq, out, got, since>>
  /\ GhostIdle
  /\ act' = [name |-> "StoreNew", c |-> c, res |-> UniqueOK(db, rq[c].b)]

(* ---- verify_and_execute_block_inner ---------------------------------------------------------------------*)
Verify(c) ==
  /\ pc[c] = "verify"
  /\ IF rq[c].ver = "err" THEN AfterB(c, "FailedVerification")
     ELSE IF rq[c].b.k = "G" THEN AfterB(c, "ExecuteGenesis")
     ELSE Goto(c, "execute") /\ UNCHANGED err
  /\ UNCHANGED <<db, dv, lock, rq, ea, out, got, since>>
  /\ GhostIdle
  /\ act' = [name |-> "Verify", c |-> c, res |-> IF rq[c].ver = "err" THEN "Err" ELSE "Ok"]

Execute(c) ==
  /\ pc[c] = "execute"
  /\ AfterB(c, IF rq[c].exe = "err" THEN "FailedExecution" ELSE "none")
  /\ UNCHANGED <<db, dv, lock, rq, ea, out, got, since>>
  /\ GhostIdle
  /\ act' = [name |-> "Execute", c |-> c, res |-> IF rq[c].exe = "err" THEN "Err" ELSE "Ok"]

(* ---- _commit_result ------------------------------------------------------------------------------------------*)
RootAfter(c) == IF rq[c].exe = "touch" THEN "other" ELSE db.root
CheckRoot(c) ==
  /\ pc[c] = "root"
  /\ IF RootAfter(c) # db.root THEN Ret(c, "InvalidDatabaseStateAfterExecution")
     ELSE IF rq[c].kind = "commit" THEN Goto(c, "publish") /\ UNCHANGED err
     ELSE Goto(c, "commit") /\ UNCHANGED err
  /\ UNCHANGED <<db, dv, lock, rq, ea, out, got, since>>
  /\ GhostIdle
  /\ act' = [name |-> "CheckRoot", c |-> c, exp |-> db.root, got |-> RootAfter(c)]

Publish(c) ==
  /\ pc[c] = "publish"
  /\ IF rq[c].pub = "err" THEN Ret(c, "FailedBlockReconciliationWrite") ELSE Goto(c, "commit") /\ UNCHANGED err
  /\ UNCHANGED <<db, dv, lock, rq, ea, out, got, since>>
  /\ GhostIdle
  /\ act' = [name |-> "Publish", c |-> c, res |-> IF rq[c].pub = "err" THEN "Err" ELSE "Ok"]

\* "same": the execution changes rewrite FuelBlockMerkleMetadata[Latest] with its current value; the block
\* changes write the same key, and the ChangesList commit refuses conflicting keys
Conflict(c) == rq[c].exe = "same" /\ db.root # "none"
DbCommit(c) ==
  /\ pc[c] = "commit"
  /\ IF Conflict(c)
       THEN /\ Ret(c, "Storage") /\ UNCHANGED <<db, dv>> /\ GhostNoChange
            /\ act' = [name |-> "DbCommit", c |-> c, res |-> "Err:Storage"]
       ELSE /\ db' = AddBlock(db, rq[c].b) /\ dv' = dv + 1
            /\ Goto(c, "bcast") /\ UNCHANGED err
            /\ GhostCommitOk(c, rq[c].b)
            /\ act' = [name |-> "DbCommit", c |-> c, res |-> "Ok"]
  /\ UNCHANGED <<lock, rq, ea, out, got, since>>

Broadcast(c) ==
  /\ pc[c] = "bcast"
  /\ got' = [s \in SubIds |-> IF since[s] >= 0 THEN Append(got[s], rq[c].b) ELSE got[s]]
  /\ out' = out + 1
  /\ Ret(c, "none")
  /\ UNCHANGED <<db, dv, lock, rq, ea, since>>
  /\ GhostIdle
  /\ act' = [name |-> "Broadcast", c |-> c]

Return(c) ==
  /\ pc[c] = "ret"
  /\ Goto(c, "idle") /\ lock' = 0
  /\ rq' = [rq EXCEPT ![c] = NoReq] /\ ea' = [ea EXCEPT ![c] = "none"] /\ err' = [err EXCEPT ![c] = "none"]
  /\ UNCHANGED <<db, dv, out, got, since>>
  /\ GhostReturn(c, err[c])
  /\ act' = [name |-> "Return", c |-> c, res |-> IF err[c] = "none" THEN "Ok" ELSE "Err:" \o err[c]]

(* ---- environment ------------------------------------------------------------------------------------------------*)
\* stray records left in a database that has no block yet (as the genesis import writes before the block)
Seed(what, x) ==
  /\ AllIdle /\ db.blocks = {} /\ Cardinality(db.cons) + Cardinality(db.txs) < MaxSeeds
  /\ \/ what = "cons" /\ x \in Heights /\ x \notin db.cons /\ db' = [db EXCEPT !.cons = @ \cup {x}]
     \/ what = "tx" /\ x \in AllTxs /\ x \notin db.txs /\ db' = [db EXCEPT !.txs = @ \cup {x}]
  /\ dv' = dv + 1
  /\ UNCHANGED <<lock, pc, rq, ea, err, out, got, since, committed, snap, flags>>
  /\ act' = [name |-> "Seed", what |-> what, x |-> x]

\* the subscribers drop every ImporterResult they hold
Release ==
  /\ AllIdle /\ out > 0
  /\ out' = 0
  /\ UNCHANGED <<db, dv, lock, pc, rq, ea, err, got, since, committed, snap, flags>>
  /\ act' = [name |-> "Release"]

Subscribe(s) ==
  /\ AllIdle /\ since[s] = -1
  /\ since' = [since EXCEPT ![s] = Len(committed)]
  /\ UNCHANGED <<db, dv, lock, pc, rq, ea, err, out, got, committed, snap, flags>>
  /\ act' = [name |-> "Subscribe", s |-> s]

Next ==
  \/ \E c \in Lockers, r \in Req : Lock(c, r)
  \/ \E c \in Clients, r \in FailReqs : LockFail(c, r)
  \/ \E c \in Clients : ReadHeight(c) \/ StoreNew(c) \/ Verify(c) \/ Execute(c) \/ CheckRoot(c)
                        \/ Publish(c) \/ DbCommit(c) \/ Broadcast(c) \/ Return(c)
  \/ \E x \in Heights \cup AllTxs : Seed("cons", x) \/ Seed("tx", x)
  \/ Release
  \/ \E s \in SubIds : Subscribe(s)

Spec == Init /\ [][Next]_<<vars, act>>

(* ---- the property ---------------------------------------------------------------------------------------------------*)
CommitOnlyNext           == "notnext" \notin flags
Unique                   == "notunique" \notin flags
AtomicCommit             == "notatomic" \notin flags
FailedImportNoChange     == "failchange" \notin flags
RootUntouchedByExecution == db.root = IF db.blocks = {} THEN "none" ELSE "chain"
OneCommitAtATime         == Cardinality({c \in Clients : pc[c] # "idle"}) <= 1
Expected(s)              == SubSeq(committed, since[s] + 1, Len(committed))
IsPrefix(a, b)           == Len(a) <= Len(b) /\ \A i \in 1..Len(a) : a[i] = b[i]
AnnouncedOnceInOrderAfterReadable ==
  \A s \in SubIds :
    /\ since[s] = -1 => got[s] = <<>>
    /\ since[s] >= 0 =>
         /\ IsPrefix(got[s], Expected(s))                    \* only committed (readable) blocks, once, in order
         /\ AllIdle => got[s] = Expected(s)                  \* every successful import was announced
         /\ \A i \in 1..Len(got[s]) : got[s][i] \in db.blocks
         /\ \A i \in 1..(Len(got[s]) - 1) : got[s][i].h < got[s][i + 1].h

StateRec == [db |-> db, dv |-> dv, lock |-> lock, pc |-> pc, rq |-> rq, ea |-> ea, err |-> err, out |-> out,
             got |-> got, since |-> since, committed |-> committed, snap |-> snap, flags |-> flags]
=============================================================================
