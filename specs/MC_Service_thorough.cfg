SPECIFICATION LiveSpec
CONSTANT NC = 3
CONSTANT MaxRun = 3
VIEW View
INVARIANT TypeOK
INVARIANT ShutdownAtMostOnce
INVARIANT AwaitSound
INVARIANT BoundedProgress
PROPERTY Forward
PROPERTY StoppedNeverRuns
PROPERTY StopLeadsToReturn
CHECK_DEADLOCK FALSE
