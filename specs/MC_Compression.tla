---------------------------- MODULE MC_Compression ----------------------------
(* Model-checking instance of Compression: one keyspace stands for all five (the keyspaces share   *)
(* nothing but the block timestamp and the all-or-nothing commit), 3 keys, 4 values.               *)
EXTENDS Compression
\* lastc / lastd are results of the last step only (no action reads them): judged by the *Step properties
View == <<creg, cidx, clatest, dreg, didx, queue, maxts>>
Sym == Permutations(Values)
=============================================================================
