SPECIFICATION Spec
CONSTANT MaxKey = 6
CONSTANT MaxSize = 7
VIEW View
INVARIANT PageLen
INVARIANT FlagsExact
INVARIANT EveryEntryOnceInOrder
INVARIANT ErrorsOnlyForBadArgs
CHECK_DEADLOCK FALSE
