SPECIFICATION Spec
CONSTANT MaxKey = 6
CONSTANT MaxSize = 7
VIEW View
INVARIANT EveryEntryOnceInOrder
INVARIANT PageLen
INVARIANT FlagsExact
INVARIANT ErrorsOnlyForBadArgs
CHECK_DEADLOCK FALSE
