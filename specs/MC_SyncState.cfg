SPECIFICATION Spec
CONSTANT MaxH = 4
VIEW View
INVARIANT Trichotomy
INVARIANT Shape
PROPERTY CommittedMonotone
CHECK_DEADLOCK FALSE
