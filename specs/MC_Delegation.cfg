SPECIFICATION Spec
CONSTANT PKeys = {1, 2}
CONSTANT DKeys = {1, 2, 3}
CONSTANT NTx = 2
CONSTANT Exps = {1, 2}
CONSTANT MaxT = 3
CONSTANT MaxEv = 4
CONSTANT Batches <- MCBatches
CONSTANT DTampers = {"none", "key"}
CONSTANT PTampers = {"none", "txs"}
VIEW View
INVARIANT TypeOK
INVARIANT StatusChangedOnlyByValidBatch
INVARIANT OthersRejectedAndReported
INVARIANT NoUseAfterExpiration
CHECK_DEADLOCK FALSE
