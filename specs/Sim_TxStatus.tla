---------------------------- MODULE Sim_TxStatus ----------------------------
(* Simulation instance: carries the action history so that `tlc -simulate` behaviours can be *)
(* replayed on the real TxStatusManager (vlib.sim_walks).                                     *)
EXTENDS MC_TxStatus
VARIABLE hist
SimInit == Init /\ hist = <<>>
SimNext == Next /\ hist' = Append(hist, act')
SimSpec == SimInit /\ [][SimNext]_<<vars, act, hist>>
EmitWalk == PrintT(<<"WALK", ToJson(hist)>>)
=============================================================================
