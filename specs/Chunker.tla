---------------------------- MODULE Chunker ----------------------------
(* C27 — fuel-core-sync import cache batching (crates/services/sync/src/import/cache.rs). *)
(* `Chunks` transcribes Cache::get_chunks / handle_current_chunk / push_missing_chunks    *)
(* statement by statement; `Partition` is the property.                                   *)
EXTENDS Integers, Sequences, TLC

CONSTANTS MaxH,          \* heights 0..MaxH
          MaxSize        \* batch sizes 1..MaxSize
Heights == 0..MaxH
Kinds == {"n", "h", "b"}          \* not cached / header cached / block cached

VARIABLES case,          \* [lo, hi, size, cache] of the last call ("none" before the first)
          result,        \* sequence of chunks returned
          act
vars == <<case, result>>

Chunk(k, s, e, items) == [k |-> k, s |-> s, e |-> e, items |-> items]
Empty == Chunk("N", 0, 0, <<>>)             \* CachedDataBatch::None(0..0)
Min(a, b) == IF a <= b THEN a ELSE b

\* push_missing_chunks(chunks, from, to, size, end):
\*   (from..to).step_by(size).map(|s| None(s .. min(s + size, to, end)))
\* (before the fix recorded in known_findings.json the clamp was min(s + size, end) only)
RECURSIVE Missing(_, _, _, _)
Missing(from, to, size, end) ==
  IF from >= to THEN <<>>
  ELSE <<Chunk("N", from, Min(Min(from + size, to), end), <<>>)>> \o Missing(from + size, to, size, end)

\* handle_current_chunk: returns <<chunks pushed, new current chunk>>
Handle(cur, kind, h, size) ==
  LET K == IF kind = "h" THEN "H" ELSE "B"
      fresh == Chunk(K, h, h + 1, <<h>>) IN
  IF cur.k = "N" THEN <<(<<>>), fresh>>
  ELSE IF cur.k = K THEN
         IF cur.e - cur.s = size THEN <<(<<cur>>), fresh>>
         ELSE <<(<<>>), Chunk(K, cur.s, cur.e + 1, Append(cur.items, h))>>
  ELSE <<(<<cur>>), fresh>>

\* the for loop over the cached entries inside lo..hi, as a fold over heights lo..hi
RECURSIVE Loop(_, _, _, _, _, _, _)
Loop(h, hi, size, cache, curH, out, cur) ==
  LET end == hi + 1 IN
  IF h > hi THEN
    (IF cur.e > cur.s THEN Append(out, cur) ELSE out) \o Missing(curH, end, size, end)
  ELSE IF cache[h] = "n" THEN Loop(h + 1, hi, size, cache, curH, out, cur)
  ELSE
    LET gap  == h # curH
        out1 == IF gap THEN (IF cur.e > cur.s THEN Append(out, cur) ELSE out)
                              \o Missing(curH, h, size, end)
                ELSE out
        cur1 == IF gap THEN Empty ELSE cur
        hd   == Handle(cur1, cache[h], h, size)
    IN Loop(h + 1, hi, size, cache, h + 1, out1 \o hd[1], hd[2])

Chunks(lo, hi, size, cache) == Loop(lo, hi, size, cache, lo, <<>>, Empty)

(* ---- the property ---------------------------------------------------------*)
Partition(lo, hi, size, cache, cs) ==
  /\ Len(cs) >= 1
  /\ cs[1].s = lo
  /\ cs[Len(cs)].e = hi + 1
  /\ \A i \in 1..Len(cs) :
       /\ cs[i].s < cs[i].e                        \* non-empty
       /\ cs[i].e - cs[i].s <= size                \* no larger than the batch size
       /\ i < Len(cs) => cs[i].e = cs[i + 1].s     \* consecutive, non-overlapping, no gap
       /\ cs[i].k \in {"H", "B"} =>
            /\ Len(cs[i].items) = cs[i].e - cs[i].s
            /\ \A j \in 1..Len(cs[i].items) :
                 /\ cs[i].items[j] = cs[i].s + j - 1
                 /\ cache[cs[i].items[j]] = (IF cs[i].k = "H" THEN "h" ELSE "b")
       /\ cs[i].k = "N" => cs[i].items = <<>>

NoCase == [lo |-> 0, hi |-> 0, size |-> 0, cache |-> <<>>]
Init == case = NoCase /\ result = <<>> /\ act = [name |-> "Init"]

Call(lo, hi, size, cache) ==
  /\ case' = [lo |-> lo, hi |-> hi, size |-> size, cache |-> cache]
  /\ result' = Chunks(lo, hi, size, cache)
  /\ act' = [name |-> "Call"]

Next == \E lo \in Heights : \E hi \in lo..MaxH : \E size \in 1..MaxSize :
          \E cache \in [Heights -> Kinds] : case = NoCase /\ Call(lo, hi, size, cache)

Spec == Init /\ [][Next]_<<vars, act>>

PartitionInv == case # NoCase => Partition(case.lo, case.hi, case.size, case.cache, result)
=============================================================================
