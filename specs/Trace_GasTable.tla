---------------------------- MODULE Trace_GasTable ----------------------------
(* Events from the real cumulative_percentage_change / AlgorithmV1::worst_case:               *)
(*  {"ev":"Estimate","price","pct","blocks","ok":bool,"est":int (clamped to 2^31-1, -1 on panic)} *)
(*  {"ev":"WorstCase","exec","da","epct","dpct","blocks","ok","est"}                          *)
EXTENDS GasTable, Json, IOUtils, Sequences

Rec == ndJsonDeserialize(IOEnv.TRACE)
Strict == IOEnv.STRICT = "1"
VARIABLE l
tvars == <<vars, act, l>>
IsEv(e) == l <= Len(Rec) /\ Rec[l].ev = e /\ l' = l + 1
TInit == Init /\ l = 1
TReset == IsEv("reset") /\ q' = NoQuery /\ act' = [name |-> "reset"]

\* the estimate is a float in the code: the spec does not predict it, it bounds it
TEstimate == /\ IsEv("Estimate")
             /\ LET r == Rec[l] IN
                  /\ q' = [price |-> r.price, pct |-> r.pct, blocks |-> r.blocks,
                           branch |-> Branch(r.pct, r.blocks), est |-> r.est, ok |-> r.ok]
                  /\ Strict => r.ok /\ (r.price >= 0 => r.est >= Compound(r.price, r.pct, r.blocks))
                  /\ act' = [name |-> "Estimate"]

\* worst_case = estimate(exec) + estimate(da): bound by the sum of the two compounded prices.
\* Encoded as a query of price = exec with an extra required amount for the DA part.
TWorst == /\ IsEv("WorstCase")
          /\ LET r == Rec[l]
                 need == Compound(r.exec, r.epct, r.blocks) + Compound(r.da, r.dpct, r.blocks) IN
               /\ q' = [price |-> r.exec + r.da, pct |-> 0, blocks |-> 0, branch |-> "computed",
                        est |-> IF r.ok /\ r.est >= need THEN r.exec + r.da ELSE -1, ok |-> r.ok]
               /\ Strict => r.ok /\ r.est >= need
               /\ act' = [name |-> "WorstCase"]

TNext == TReset \/ TEstimate \/ TWorst
TSpec == TInit /\ [][TNext]_tvars
TraceAccepted ==
  LET d == TLCGet("stats").diameter IN
  IF d - 1 = Len(Rec) THEN PrintT(<<"TRACE-ACCEPTED", Len(Rec)>>)
  ELSE PrintT(<<"TRACE-REJECTED", d>>) /\ PrintT(Rec[d])
=============================================================================
