---------------------------- MODULE Trace_PeerManager ----------------------------
(* Trace validation of the real fuel_core_p2p::peer_manager::PeerManager (+ ConnectionState  *)
(* reader + ConnectionTracker) against PeerManager.tla.                                       *)
(* STRICT=1: every event must be the spec's own action with the logged result, the logged    *)
(* punisher calls and the logged post-state.  STRICT=0 (observe): the non-ghost variables    *)
(* are bound to what the implementation logged, the ghosts follow GhostBan / GhostDecay on   *)
(* the logged punisher calls; only the invariants / ConnectAdmission judge.                  *)
EXTENDS PeerManager, Json, IOUtils, Sequences

Rec == ndJsonDeserialize(IOEnv.TRACE)
Strict == IOEnv.STRICT = "1"

VARIABLE l
tvars == <<vars, act, l>>

IsEv(e) == l <= Len(Rec) /\ Rec[l].ev = e /\ l' = l + 1
SetOf(s) == {s[i] : i \in DOMAIN s}

TInit == Init /\ l = 1

TReset == /\ IsEv("reset")
          /\ limit' = -1 /\ nonres' = {} /\ res' = {} /\ score' = Zero
          /\ allowed' = TRUE /\ admits' = {} /\ banned' = {} /\ decays' = 0
          /\ act' = [name |-> "reset"]

\* the logged post-state equals the primed variables
PostIs(st) ==
  /\ nonres' = SetOf(st.nonres)
  /\ res' = SetOf(st.res)
  /\ score' = [p \in Peers |-> st.score[p]]
  /\ allowed' = st.flag
  /\ admits' = SetOf(st.admits)

\* A = the spec action (strict), a = the label used in observe mode, G = ghost updates
Bind(A, a, G) == LET r == Rec[l] IN
  IF Strict THEN A /\ PostIs(r.st) /\ r.st.total = Cardinality(nonres') + Cardinality(res')
            ELSE PostIs(r.st) /\ G /\ act' = a

TNew == IsEv("New") /\ LET r == Rec[l] IN
  Bind(New(r.limit), [name |-> "New", limit |-> r.limit],
       limit = -1 /\ limit' = r.limit /\ GhostBan({}) /\ GhostDecay(0))

TConnect == IsEv("Connect") /\ LET r == Rec[l] IN
  Bind(Connect(r.p) /\ r.res = ConnectRes(r.p), [name |-> "Connect", p |-> r.p, res |-> r.res],
       UNCHANGED limit /\ GhostBan({}) /\ GhostDecay(0))

TDisconnect == IsEv("Disconnect") /\ LET r == Rec[l] IN
  Bind(Disconnect(r.p) /\ r.res = DisconnectRes(r.p), [name |-> "Disconnect", p |-> r.p, res |-> r.res],
       UNCHANGED limit /\ GhostBan({}) /\ GhostDecay(0))

TScore == IsEv("Score") /\ LET r == Rec[l] IN
  Bind(Score(r.p, r.d) /\ SetOf(r.bans) = ScoreBans(r.p, r.d),
       [name |-> "Score", p |-> r.p, d |-> r.d, bans |-> SetOf(r.bans)],
       UNCHANGED limit /\ GhostBan(SetOf(r.bans)) /\ GhostDecay(0))

TGossip == IsEv("Gossip") /\ LET r == Rec[l] IN
  Bind(Gossip(r.p, r.g) /\ SetOf(r.bans) = GossipBans(r.p, r.g),
       [name |-> "Gossip", p |-> r.p, g |-> r.g, bans |-> SetOf(r.bans)],
       UNCHANGED limit /\ GhostBan(SetOf(r.bans)) /\ GhostDecay(0))

TDecay == IsEv("Decay") /\
  Bind(Decay, [name |-> "Decay"], UNCHANGED limit /\ GhostBan({}) /\ GhostDecay(1))

TIdentify == IsEv("Identify") /\ LET r == Rec[l] IN
  Bind(Identify(r.p), [name |-> "Identify", p |-> r.p], UNCHANGED limit /\ GhostBan({}) /\ GhostDecay(0))

TNext == TReset \/ TNew \/ TConnect \/ TDisconnect \/ TScore \/ TGossip \/ TDecay \/ TIdentify
TSpec == TInit /\ [][TNext]_tvars

\* ConnectAdmission over the trace variables (reset steps carry act.name = "reset")
TConnectAdmission == [][ConnectAdmissionOk]_tvars

TraceAccepted ==
  LET d == TLCGet("stats").diameter IN
  IF d - 1 = Len(Rec) THEN PrintT(<<"TRACE-ACCEPTED", Len(Rec)>>)
  ELSE PrintT(<<"TRACE-REJECTED", d>>) /\ PrintT(Rec[d])
=============================================================================
