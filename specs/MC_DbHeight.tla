---------------------------- MODULE MC_DbHeight ----------------------------
EXTENDS DbHeight, Json
View == vars
EmitEdge == PrintT(<<"EDGE", ToJson([src |-> StateRec, act |-> act', dst |-> StateRec'])>>)
=============================================================================
