---------------------------- MODULE Trace_CoinsQuery ----------------------------
(* Trace validation of the real coin selection (select_coins_to_spend over the real CoinsToSpend index, *)
(* largest_first, random_improve) against CoinsQuery.  The algorithms are randomised: I->S only.        *)
(* STRICT=1: every logged answer must be a possible answer of the transcribed algorithm (IsAnswer).     *)
(* STRICT=0: the answer is bound to what the implementation returned; the invariants judge.             *)
EXTENDS CoinsQuery, Json, IOUtils

Rec == ndJsonDeserialize(IOEnv.TRACE)
Strict == IOEnv.STRICT = "1"

VARIABLE l
tvars == <<vars, act, l>>

IsEv(e) == l <= Len(Rec) /\ Rec[l].ev = e /\ l' = l + 1
TInit == Init /\ l = 1
TReset == /\ IsEv("reset")
          /\ wallet' = [i \in Ids |-> Absent] /\ born' = FALSE /\ q' = NoQuery /\ res' = NoRes
          /\ act' = [name |-> "reset"]

\* the logged wallet: resource i of the list has id i
LWallet(r) == [i \in Ids |-> IF i <= Len(r.res)
                             THEN [k |-> r.res[i].k, o |-> r.res[i].o, a |-> r.res[i].a, v |-> r.res[i].v,
                                   r |-> r.res[i].r, s |-> r.res[i].s]
                             ELSE Absent]
TWallet == /\ IsEv("Wallet")
           /\ LET r == Rec[l] IN
                /\ Len(r.res) <= N /\ \A i \in 1..Len(r.res) : r.res[i].id = i
                /\ wallet' = LWallet(r) /\ born' = TRUE /\ q' = NoQuery /\ res' = NoRes
                /\ act' = [name |-> "Wallet"]

LQuery(r) == [algo |-> r.algo, o |-> r.o, a |-> r.a, t |-> r.t, max |-> r.max,
              ex |-> {r.ex[i] : i \in 1..Len(r.ex)}, p |-> r.p]
LRes(r) == [kind |-> r.res.kind, why |-> r.res.why, sel |-> r.res.sel]
TQuery == /\ IsEv("Query")
          /\ LET r == Rec[l] IN
               /\ Strict => IsAnswer(wallet, LQuery(r), LRes(r))
               /\ q' = LQuery(r) /\ res' = LRes(r) /\ UNCHANGED <<wallet, born>>
               /\ act' = [name |-> "Query", algo |-> r.algo]

TNext == TReset \/ TWallet \/ TQuery
TSpec == TInit /\ [][TNext]_tvars

TraceAccepted ==
  LET d == TLCGet("stats").diameter IN
  IF d - 1 = Len(Rec) THEN PrintT(<<"TRACE-ACCEPTED", Len(Rec)>>)
  ELSE PrintT(<<"TRACE-REJECTED", d>>) /\ PrintT(Rec[d])
=============================================================================
