---------------------------- MODULE MC_TxStatusStream ----------------------------
EXTENDS TxStatusStream, Json
View == vars
\* edge cover is taken on the automaton state alone (ghosts are history, not behaviour)
EdgeView == st
EmitEdge == PrintT(<<"EDGE", ToJson([src |-> StateRec, act |-> act', dst |-> StateRec'])>>)
=============================================================================
