SPECIFICATION Spec
CONSTANT CellSet <- CellsOne
CONSTANT NVals = 1
CONSTANT MaxDepth = 3
CONSTANT MaxDet = 0
CONSTANT Pols = {"F", "O"}
CONSTANT Offs = {}
CONSTANT Lens = {}
CONSTANT Reads = TRUE
VIEW View
ACTION_CONSTRAINT EmitEdge
CHECK_DEADLOCK FALSE
