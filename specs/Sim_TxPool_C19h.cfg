SPECIFICATION SpecMC
CONSTANTS
  MaxTxs = 3
  MaxGas = 8
  MaxSize = 9
  ChainLimit = 3
  PendingPct = 67
  MaxHeight = 2
  WalkLen = 14
VIEW View
PROPERTY InsertRespectsHandedOut
CHECK_DEADLOCK FALSE
