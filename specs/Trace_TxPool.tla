---------------------------- MODULE Trace_TxPool ----------------------------
(* Trace validation of the real PoolWorker (through verif::SyncPool) against TxPool.                      *)
(* STRICT=1: every event must be the spec's own action for some oracle order, with the logged result,     *)
(* the logged squeezed-out notifications (as a bag), the logged nested notifications and the logged       *)
(* post-state of every private field.  STRICT=0 (observe): P is bound to what the implementation logged,  *)
(* db and the ghosts follow the environment / ghost rules; only the invariants and properties judge.      *)
EXTENDS TxPool, Json, IOUtils

Rec == ndJsonDeserialize(IOEnv.TRACE)
Strict == IOEnv.STRICT = "1"

VARIABLE l
tvars == <<vars, act, l>>

IsEv(e) == l <= Len(Rec) /\ Rec[l].ev = e /\ l' = l + 1
Ords(S) == IF Cardinality(S) <= 1 THEN {<<>>} ELSE SetToSeqs(S)

Conv(st) ==
  [ pool |-> ToSet(st.pool), deps |-> ToSet(st.deps), exec |-> ToSet(st.exec), cum |-> st.cum,
    stats |-> st.stats, lru |-> st.lru, spender |-> st.spender, tentative |-> st.tentative,
    xcoins |-> ToSet(st.xcoins), xcon |-> st.xcon, xby |-> [t \in DOMAIN st.xby |-> ToSet(st.xby[t])],
    tpre |-> ToSet(st.tpre), height |-> st.height, pend |-> st.pend, pstats |-> st.pstats, queue |-> st.queue ]

\* the caches the hook also logs must be the ones derived from the pool content
Consistent(Q, st) ==
  /\ ToSet(st.ids) = Q.pool
  /\ st.cur = [gas |-> Q.stats.gas, size |-> Q.stats.size]
  /\ st.cap = Cap
  /\ st.cs = [k \in UNION {CoinIn(x) : x \in Q.pool} |-> CHOOSE x \in Q.pool : k \in CoinIn(x)]
  /\ st.ms = [k \in UNION {MsgIn(x) : x \in Q.pool} |-> CHOOSE x \in Q.pool : k \in MsgIn(x)]
  /\ st.cc = [c \in UNION {Creates(x) : x \in Q.pool} |-> CHOOSE x \in Q.pool : c \in Creates(x)]
  /\ [c \in DOMAIN st.cu |-> ToSet(st.cu[c])]
       = [c \in UNION {ConIn(x) : x \in Q.pool} |-> ContractUsers(Q, c)]
  /\ st.bl = Cardinality({x \in Q.pool : IsBlob(x)})
  /\ ToSet(st.gcoins) = UNION {CoinOut(x) : x \in Q.pool}
  /\ ToSet(st.gcon) = UNION {Creates(x) : x \in Q.pool}

LabelOf(r) == [name |-> r.ev, res |-> r.res, sq |-> r.sq, notes |-> r.notes]

\* strict: the spec action A (which defines P', db', g', act') must reproduce the log
Matches(r) ==
  /\ act'.res = r.res
  /\ SameBag(act'.sq, r.sq)
  /\ SameBag(act'.notes, r.notes)
  /\ P' = Conv(r.st)
  /\ Consistent(P', r.st)

TInit == Init /\ l = 1

TReset ==
  /\ IsEv("reset")
  /\ P' = InitP /\ db' = InitDb /\ g' = InitG
  /\ act' = [name |-> "reset", res |-> "none", sq |-> <<>>, notes |-> <<>>]

TInsert ==
  /\ IsEv("Insert")
  /\ LET r == Rec[l] IN
     IF Strict
     THEN \E ord \in Ords(P.exec \cup DOMAIN P.pend) : Insert(r.t, ord) /\ Matches(r)
     ELSE /\ P' = Conv(r.st) /\ UNCHANGED <<db, g>>
          /\ act' = LabelOf(r) @@ [t |-> r.t]

TInsertQueued ==
  /\ IsEv("InsertQueued")
  /\ LET r == Rec[l] IN
     IF Strict
     THEN \E ord \in Ords(P.exec \cup DOMAIN P.pend) : InsertQueued(ord) /\ act'.t = r.t /\ Matches(r)
     ELSE /\ P' = Conv(r.st) /\ UNCHANGED <<db, g>>
          /\ act' = LabelOf(r) @@ [t |-> r.t]

TExtract ==
  /\ IsEv("Extract")
  /\ LET r == Rec[l] IN
     IF Strict
     THEN \E ord \in Ords(P.pool) : Extract(r.c, ord) /\ Matches(r)
     ELSE /\ P' = Conv(r.st) /\ UNCHANGED db
          /\ g' = GhostExtract(g, r.res)
          /\ act' = LabelOf(r) @@ [c |-> r.c]

TBlock ==
  /\ IsEv("Block")
  /\ LET r == Rec[l] IN
     IF Strict
     THEN \E oc \in Ords(Range(r.txs)) : \E os \in Ords({e[2] : e \in P.tpre}) :
            \E op \in Ords(P.exec \cup DOMAIN P.pend) :
              Block(r.txs, oc, os, op) /\ act'.h = r.h /\ Matches(r)
     ELSE /\ P' = Conv(r.st)
          /\ db' = ApplyAll(db, r.txs)
          /\ g' = GhostBlock(g, r.h, r.txs)
          /\ act' = LabelOf(r) @@ [txs |-> r.txs, h |-> r.h]

TPreconf ==
  /\ IsEv("Preconf")
  /\ LET r == Rec[l] IN
     IF Strict
     THEN \E ord \in Ords(P.exec \cup DOMAIN P.pend) : Preconf(r.t, r.kind, r.outs, r.h, ord) /\ Matches(r)
     ELSE /\ P' = Conv(r.st) /\ UNCHANGED db
          /\ g' = GhostPreconf(g, P, r.t, r.kind, r.h)
          /\ act' = LabelOf(r) @@ [t |-> r.t, kind |-> r.kind, outs |-> r.outs, h |-> r.h]

TExpire ==
  /\ IsEv("Expire")
  /\ LET r == Rec[l] IN
     IF Strict
     THEN Expire(r.ids) /\ Matches(r)
     ELSE /\ P' = Conv(r.st) /\ UNCHANGED <<db, g>>
          /\ act' = LabelOf(r) @@ [ids |-> r.ids]

TExpirePending ==
  /\ IsEv("ExpirePending")
  /\ LET r == Rec[l] IN
     IF Strict
     THEN ExpirePending /\ Matches(r)
     ELSE /\ P' = Conv(r.st) /\ UNCHANGED <<db, g>>
          /\ act' = LabelOf(r)

\* a panic of the code under test is data: no spec action matches it (strict rejects), observe mode records it
TPanic ==
  /\ IsEv("Panic") /\ ~Strict
  /\ UNCHANGED vars
  /\ act' = [name |-> "Panic", res |-> "panic", sq |-> <<>>, notes |-> <<>>]

TNext == TReset \/ TInsert \/ TInsertQueued \/ TExtract \/ TBlock \/ TPreconf \/ TExpire \/ TExpirePending \/ TPanic
TSpec == TInit /\ [][TNext]_tvars

TraceAccepted ==
  LET d == TLCGet("stats").diameter IN
  IF d - 1 = Len(Rec) THEN PrintT(<<"TRACE-ACCEPTED", Len(Rec)>>)
  ELSE PrintT(<<"TRACE-REJECTED", d>>) /\ PrintT(Rec[d])
=============================================================================
