SPECIFICATION TSpec
INVARIANT PhaseOk
INVARIANT RevertFrame
INVARIANT SkipFrame
POSTCONDITION TraceAccepted
CHECK_DEADLOCK FALSE
