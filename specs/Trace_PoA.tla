---------------------------- MODULE Trace_PoA ----------------------------
(* Trace validation of the real fuel_core_poa service (harness h-poa) against PoA.                      *)
(* One event per environment action of the harness and per port call of the service.                    *)
(* STRICT=1: every event must be the spec's own action with the logged arguments / result, and the      *)
(*   environment state the harness logged (tokio clock, database height / timestamp) must be the        *)
(*   spec's.  Two task steps make no port call (SleepToWait, ManualReject): they are taken silently.    *)
(* STRICT=0 (observe): the MainTask's program-counter machine is ignored (task variables frozen); the   *)
(*   environment and the SyncTask follow the logged events, the ghosts are updated from the LOGGED       *)
(*   heights / timestamps / results by the same Ghost operators, and only the invariants judge.         *)
EXTENDS PoA, Json, IOUtils

Rec == ndJsonDeserialize(IOEnv.TRACE)
Strict == IOEnv.STRICT = "1"

VARIABLE l
tvars == <<vars, act, l>>

IsEv(e) == l <= Len(Rec) /\ Rec[l].ev = e /\ l' = l + 1
\* acceptance is tracked in TLC registers because silent steps make the diameter useless:
\* register 1 = highest index of an event that is still to be consumed in some explored state
Reach == TLCSet(1, IF l' > TLCGet(1) THEN l' ELSE TLCGet(1))

TInit == Init /\ l = 1 /\ TLCSet(1, 1)

TReset ==
  /\ IsEv("reset")
  /\ cfg' = NoCfg /\ now' = 0 /\ skew' = 0 /\ dbH' = H0 /\ dbT' = T0 /\ blockQ' = <<>> /\ peersQ' = <<>>
  /\ fails' = {} /\ leader' = LeaderL /\ txDirty' = FALSE
  /\ sk' = "I" /\ sh' = H0 /\ st' = T0 /\ sp' = TRUE /\ timer' = -1 /\ pub' = PubN /\ dirty' = FALSE /\ wm' = 0
  /\ pc' = "Unborn" /\ lastH' = H0 /\ lastT' = T0 /\ lastC' = 0 /\ trigAt' = 0 /\ mode' = "none" /\ left' = 0
  /\ curH' = 0 /\ curT' = 0 /\ curDl' = 0 /\ curC' = 0 /\ recon' = <<>> /\ wakeAt' = 0 /\ reqQ' = <<>> /\ respQ' = <<>>
  /\ gKnown' = H0 /\ gToldT' = T0 /\ gReq' = NoReq /\ gSealed' = <<0, 0>> /\ gProdAt' = NoInst /\ gCurAt' = NoInst
  /\ gTrig' = FALSE
  /\ act' = [name |-> "reset"]

\* what the harness logged with every event: environment events carry the state BEFORE the action,
\* port-call events the state AFTER it
PreOk(r)  == now = r.now /\ dbH = r.dbH /\ dbT = r.dbT
PostOk(r) == now' = r.now /\ dbH' = r.dbH /\ dbT' = r.dbT /\ ClockOf(cfg', now', skew') = r.clk

Ev(e, S, O) == IsEv(e) /\ IF Strict THEN S ELSE O
Keep(name) == act' = [name |-> name]

(* ---- environment events (identical in both modes, except for the task's queues) ------------------*)
TNew == LET r == Rec[l] IN
  Ev("New", New(r.c) /\ PreOk(r), NewEnvSync(r.c) /\ UNCHANGED taskVars)
TAdvance == LET r == Rec[l] IN Ev("Advance", Advance(r.d) /\ PreOk(r), Advance(r.d))
TSkew == LET r == Rec[l] IN Ev("Skew", Skew(r.s) /\ PreOk(r), Skew(r.s))
TNetImport == LET r == Rec[l] IN Ev("NetImport", NetImport(r.dt) /\ PreOk(r), NetImport(r.dt))
TPeers == LET r == Rec[l] IN Ev("Peers", Peers(r.n) /\ PreOk(r), Peers(r.n))
TFail == LET r == Rec[l] IN Ev("Fail", Fail(r.k) /\ PreOk(r), Fail(r.k))
TSetLeader == LET r == Rec[l] IN
  LET ld == [k |-> r.k, off |-> r.off, cnt |-> r.cnt, dt |-> r.dt] IN
  Ev("SetLeader", SetLeader(ld) /\ PreOk(r), SetLeader(ld))
TNewTx == LET r == Rec[l] IN Ev("NewTx", NewTx /\ PreOk(r), NewTx)
TManual == LET r == Rec[l] IN
  Ev("Manual", Manual(r.start, r.n) /\ PreOk(r), UNCHANGED vars /\ Keep("Manual"))
TManualDone == LET r == Rec[l] IN
  Ev("ManualDone", ManualDone /\ act'.res = r.res, UNCHANGED vars /\ Keep("ManualDone"))

(* ---- SyncTask events (the SyncTask is driven by observable stream pulls in both modes) -----------*)
TSyncPeers == LET r == Rec[l] IN
  Ev("SyncPeers", SyncPeers /\ act'.n = r.n, SyncPeers /\ act'.n = r.n)
TSyncBlock == LET r == Rec[l] IN
  LET S == SyncBlock /\ act'.h = r.h /\ act'.t = r.t /\ act'.src = r.src IN Ev("SyncBlock", S, S)
\* both streams were polled empty: the SyncTask polls its timer; it fires iff it is due
TSyncRun ==
  LET S == IF peersQ = <<>> /\ blockQ = <<>> /\ TimerDue THEN SyncTick
           ELSE UNCHANGED vars /\ Keep("SyncRun") IN Ev("SyncRun", S, S)

(* ---- MainTask port calls ---------------------------------------------------------------------------*)
\* observe mode: environment effects of a port call, from the logged result
ObsFrame == UNCHANGED <<cfg, skew, peersQ, txDirty, sk, sh, st, sp, timer, pub, dirty, taskVars>>
ObsNow(r) == now' = r.now
ObsDb(r, src) ==
  IF r.res THEN /\ dbH' = r.h /\ dbT' = r.t
                /\ blockQ' = Append(blockQ, [h |-> r.h, t |-> r.t, src |-> src])
  ELSE UNCHANGED <<dbH, dbT, blockQ>>

TLoopStart == LET r == Rec[l] IN
  Ev("LoopStart",
     LoopStart /\ act'.h = r.h /\ act'.nc = r.nc /\ PostOk(r),
     /\ GhostLoopStart(r.h) /\ ObsNow(r) /\ ObsFrame
     /\ UNCHANGED <<dbH, dbT, blockQ, fails, leader, wm>> /\ Keep("LoopStart"))
TDbHeight == LET r == Rec[l] IN
  Ev("DbHeight",
     (TriggerFire \/ ReconDb) /\ act'.res = r.res /\ PostOk(r),
     /\ GhostDbHeight(r.res) /\ ObsNow(r) /\ ObsFrame
     /\ UNCHANGED <<dbH, dbT, blockQ, fails, leader, wm>> /\ Keep("DbHeight"))
TLeaderState == LET r == Rec[l] IN
  Ev("LeaderState",
     LeaderState(r.res) /\ act'.h = r.h /\ PostOk(r),
     /\ GhostLeader(r.h, r.res) /\ leader' = LeaderL /\ ObsNow(r) /\ ObsFrame
     /\ UNCHANGED <<dbH, dbT, blockQ, fails, wm>> /\ Keep("LeaderState"))
TIsAvail == LET r == Rec[l] IN
  Ev("IsAvail",
     (ManualBegin(r.res) \/ IsAvail(r.res)) /\ act'.nc = r.nc /\ PostOk(r),
     /\ fails' = fails \ {"signer"} /\ ObsNow(r) /\ ObsFrame
     /\ UNCHANGED <<dbH, dbT, blockQ, leader, wm, ghostVars>> /\ Keep("IsAvail"))
TProduce == LET r == Rec[l] IN
  Ev("Produce",
     Produce(r.res) /\ act'.h = r.h /\ act'.t = r.t /\ act'.dl = r.dl /\ r.src = "txpool" /\ PostOk(r),
     /\ GhostProduce(r.h, r.t) /\ fails' = fails \ {"produce"} /\ ObsNow(r) /\ ObsFrame
     /\ UNCHANGED <<dbH, dbT, blockQ, leader, wm>> /\ Keep("Produce"))
TSeal == LET r == Rec[l] IN
  Ev("Seal",
     Seal(r.res) /\ act'.h = r.h /\ act'.t = r.t /\ PostOk(r),
     /\ GhostSeal(r.h, r.t, r.res) /\ fails' = fails \ {"seal"} /\ ObsNow(r) /\ ObsFrame
     /\ UNCHANGED <<dbH, dbT, blockQ, leader, wm>> /\ Keep("Seal"))
TCommit == LET r == Rec[l] IN
  Ev("Commit",
     Commit(r.res) /\ act'.h = r.h /\ act'.t = r.t /\ r.sealed /\ r.local /\ PostOk(r),
     /\ GhostCommit(r.h, r.t, r.sealed, r.res) /\ fails' = fails \ {"commit"} /\ ObsDb(r, "local")
     /\ ObsNow(r) /\ ObsFrame /\ UNCHANGED <<leader, wm>> /\ Keep("Commit"))
TRelease == LET r == Rec[l] IN
  Ev("Release", Release /\ PostOk(r), ObsNow(r) /\ ObsFrame
     /\ UNCHANGED <<dbH, dbT, blockQ, fails, leader, wm, ghostVars>> /\ Keep("Release"))
TExecCommit == LET r == Rec[l] IN
  Ev("ExecCommit",
     ExecCommit(r.res) /\ act'.h = r.h /\ act'.t = r.t /\ PostOk(r),
     /\ GhostExecCommit(r.h, r.t, r.res) /\ fails' = fails \ {"import"} /\ ObsDb(r, "net")
     /\ wm' = Max(wm, r.h) /\ ObsNow(r) /\ ObsFrame /\ UNCHANGED leader /\ Keep("ExecCommit"))

\* the harness cut off a service that did not come to rest: never a step of the spec
TRunaway == Ev("Runaway", FALSE, UNCHANGED vars /\ Keep("Runaway"))

\* task steps without a port call (strict mode only)
TSilent == Strict /\ l <= Len(Rec) /\ (SleepToWait \/ ManualReject) /\ l' = l

TNext ==
  /\ \/ TReset \/ TNew \/ TAdvance \/ TSkew \/ TNetImport \/ TPeers \/ TFail \/ TSetLeader \/ TNewTx \/ TManual
     \/ TManualDone \/ TSyncPeers \/ TSyncBlock \/ TSyncRun
     \/ TLoopStart \/ TDbHeight \/ TLeaderState \/ TIsAvail \/ TProduce \/ TSeal \/ TCommit \/ TRelease
     \/ TExecCommit \/ TRunaway \/ TSilent
  /\ Reach
TSpec == TInit /\ [][TNext]_tvars

TraceAccepted ==
  LET m == TLCGet(1) IN
  IF m = Len(Rec) + 1 THEN PrintT(<<"TRACE-ACCEPTED", Len(Rec)>>)
  ELSE PrintT(<<"TRACE-REJECTED", m>>) /\ PrintT(Rec[m])
=============================================================================
