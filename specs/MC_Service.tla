---------------------------- MODULE MC_Service ----------------------------
EXTENDS Service, Json
View == vars
EmitEdge == PrintT(<<"EDGE", ToJson([src |-> StateRec, act |-> act', dst |-> StateRec'])>>)
=============================================================================
