SPECIFICATION TSpec
CONSTANTS
  MaxTxs = 3
  MaxGas = 8
  MaxSize = 9
  ChainLimit = 3
  PendingPct = 67
  MaxHeight = 2
INVARIANT NoPanic
POSTCONDITION TraceAccepted
CHECK_DEADLOCK FALSE
PROPERTY InsertAdmits
PROPERTY InsertBeatsCollisions
