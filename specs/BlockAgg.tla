---------------------------- MODULE BlockAgg ----------------------------
(* C43 — block aggregator: conversions preserve blocks; the block storage only accepts contiguous    *)
(* heights.                                                                                           *)
(*   crates/services/block_aggregator_api/src/db/storage_db.rs                                        *)
(*       StorageDB::store_block      (height check against LatestBlock, Blocks + LatestBlock insert)  *)
(*       StorageBlocksProvider::get_block_range / StorageStream::poll_next                            *)
(*   .../blocks/old_block_source/convertor_adapter/{fuel_to_proto,proto_to_fuel}_conversions.rs       *)
(* A payload is abstracted to its SHAPE (transaction kind, input kinds, output kinds, receipt kinds,  *)
(* policy bits); the harness instantiates a shape with seeded field values, converts the block        *)
(* fuel -> proto -> bytes, stores the bytes through the real StorageDB, reads them back through the   *)
(* real StorageBlocksProvider and converts bytes -> proto -> fuel.  `rt` of a returned item says      *)
(* whether the block that came back equals the block that went in.                                    *)
EXTENDS Integers, Sequences, FiniteSets, TLC

CONSTANTS MaxH,       \* abstract heights 0..MaxH; in a `top` database MaxH stands for u32::MAX
          Shapes,     \* payload shapes offered to Store
          OneShot     \* TRUE: only the first Store of a database is explored (shape enumeration)

None == -1
Heights == 0..MaxH

VARIABLES born,       \* a database exists
          top,        \* its heights are the top of the u32 range (abstract h is u32::MAX - MaxH + h)
          stored,     \* Blocks table: height -> payload shape (finite partial function)
          latest,     \* LatestBlock table: height or None
          res,        \* result of the last Store ("none" | "Ok" | "Err"), conversion result of its payload
          out,        \* result of the last GetRange
          act
vars == <<born, top, stored, latest, res, out>>

EmptyFn == [x \in {} |-> 0]
Put(f, k, x) == [y \in DOMAIN f \cup {k} |-> IF y = k THEN x ELSE f[y]]
NoOut == [first |-> 0, last |-> 0, items |-> <<>>]
NoRes == [store |-> "none", conv |-> "Ok"]

\* BlockHeight::succ = checked_add(1): None at u32::MAX
Succ(h) == IF top /\ h = MaxH THEN None ELSE h + 1

Init == /\ born = FALSE /\ top = FALSE /\ stored = EmptyFn /\ latest = None
        /\ res = NoRes /\ out = NoOut /\ act = [name |-> "Init"]

New(t) ==
  /\ ~born
  /\ OneShot => ~t
  /\ born' = TRUE /\ top' = t
  /\ UNCHANGED <<stored, latest, res, out>>
  /\ act' = [name |-> "New", top |-> t]

\* store_block: if let Some(current) = latest { if current.succ() != Some(height) { return Err } }
\*              insert Blocks[height]; LatestBlock := Local(height); commit
\* (before the fix recorded in known_findings.d/C43.json the check was skipped when current.succ() is
\*  None, so after a block at u32::MAX any height was accepted)
Store(h, p) ==
  /\ born
  /\ OneShot => latest = None
  /\ IF latest # None /\ h # Succ(latest)
     THEN /\ res' = [store |-> "Err", conv |-> "Ok"]
          /\ UNCHANGED <<stored, latest>>
     ELSE /\ stored' = Put(stored, h, p)
          /\ latest' = h
          /\ res' = [store |-> "Ok", conv |-> "Ok"]
  /\ UNCHANGED <<born, top, out>>
  /\ act' = [name |-> "Store", h |-> h, p |-> p]

\* StorageStream: next = Some(first); yield Blocks[next] while present; after yielding `height` continue
\* with height+1 iff height < last, stop at the first missing height
RECURSIVE Collect(_, _)
Collect(h, l) ==
  IF h \notin DOMAIN stored THEN <<>>
  ELSE <<[h |-> h, p |-> stored[h], rt |-> TRUE]>> \o (IF h < l THEN Collect(h + 1, l) ELSE <<>>)

GetRange(f, l) ==
  /\ born
  /\ out' = [first |-> f, last |-> l, items |-> Collect(f, l)]
  /\ UNCHANGED <<born, top, stored, latest, res>>
  /\ act' = [name |-> "GetRange", first |-> f, last |-> l]

Next == \/ \E t \in BOOLEAN : New(t)
        \/ \E h \in Heights : \E p \in Shapes : Store(h, p)
        \/ \E f \in Heights : \E l \in Heights : GetRange(f, l)

Spec == Init /\ [][Next]_<<vars, act>>

(* ---- the property --------------------------------------------------------------------------------*)
\* the stored heights are one contiguous run ending at the latest height
ContiguousOnly ==
  /\ latest = None => DOMAIN stored = {}
  /\ latest # None => /\ latest \in DOMAIN stored
                      /\ \A h \in DOMAIN stored : h <= latest /\ \A g \in h..latest : g \in DOMAIN stored

\* what a range query returns is what was stored, at consecutive heights from `first`
RangeFaithful ==
  \A i \in 1..Len(out.items) :
    /\ out.items[i].h = out.first + i - 1
    /\ out.items[i].h \in DOMAIN stored
    /\ out.items[i].p = stored[out.items[i].h]

\* every block converted for storing converts (fuel -> proto -> bytes) and every block read back
\* (bytes -> proto -> fuel) equals the block that was stored at that height
RoundTrip ==
  /\ res.conv = "Ok"
  /\ \A i \in 1..Len(out.items) : out.items[i].rt = TRUE

\* the same statements about the successor of every step (res / out are results of the last call only and
\* are kept out of the model checker's VIEW and of the edge graph)
RangeFaithfulStep == [][RangeFaithful']_vars
RoundTripStep == [][RoundTrip']_vars

StateRec == [born |-> born, top |-> top, stored |-> stored, latest |-> latest]
=============================================================================
