----------------------------- MODULE Sim_ReadOnly -----------------------------
(* Simulation instance (vlib.sim_walks): `tlc -simulate` behaviours of ReadOnly that the harness executes   *)
(* on a real node.  The simulator chooses uniformly among the successor states, so the request parameters   *)
(* are drawn with RandomElement (one successor per disjunct) instead of being enumerated; a third of the    *)
(* read-only steps repeat an earlier request of the behaviour (Repeatable needs repetitions).                *)
EXTENDS ReadOnly, Json

CONSTANTS SimDepth
VARIABLE hist

RO(i) == hist[i].name \in ReadOnlyOps
Again(a) ==
  CASE a.name = "DryRun" -> DryRun(a.txs, a.at, a.uv, a.rec, a.gp, 0)
    [] a.name = "Est"    -> Est(a.p, 0)
    [] a.name = "Asm"    -> Asm(a.k, a.who, 0)

RandomDryRun ==
  LET n   == RandomElement({1, 1, 1, 2})
      t1  == RandomElement(DTx)
      t2  == RandomElement(DTx)
      txs == IF RandomElement({1, 2, 3, 4}) = 1 THEN <<t1, t2>> ELSE <<t1>>
      at  == IF RandomElement({0, 1}) = 0 THEN 0 ELSE RandomElement(1..(height + 2))
  IN DryRun(txs, at, RandomElement({-1, 0, 1}), RandomElement({FALSE, FALSE, TRUE}), RandomElement({-1, 0, 1}), 0)

SimNext ==
  /\ \/ \E t \in WTx : Submit(t)
     \/ (poolTxs # {} \/ Len(hist) % 5 = 0) /\ Produce
     \/ Len(hist) % 6 = 5 /\ Tick
     \/ \E i \in 1..3 : RandomDryRun
     \/ Est(RandomElement(Preds), 0)
     \/ Asm(RandomElement(WKinds), RandomElement(Whos), 0)
     \/ \E j \in 1..2 : LET idx == {i \in 1..Len(hist) : RO(i)} IN
          idx # {} /\ Again(hist[RandomElement(idx)])
  /\ hist' = Append(hist, act')
SimInit == Init /\ hist = <<>>
SimSpec == SimInit /\ [][SimNext]_<<vars, act, hist>>
EmitWalk == Len(hist) >= SimDepth => PrintT(<<"WALK", ToJson(hist)>>)
=============================================================================
