SPECIFICATION TSpec
CONSTANT Configs = {}
CONSTANT TPS = 2
CONSTANT H0 = 1
CONSTANT T0 = 10
CONSTANT Advs = {}
CONSTANT Skews = {}
CONSTANT ImportDts = {}
CONSTANT ManualStarts = {}
CONSTANT ManualNs = {}
CONSTANT FailKinds = {}
CONSTANT Leaders = {}
CONSTANT PeerCounts = {}
INVARIANT ReqNextHeight
INVARIANT ReqTimeMonotone
INVARIANT SealedBeforeCommit
INVARIANT IntervalSpacing
POSTCONDITION TraceAccepted
CHECK_DEADLOCK FALSE
