SPECIFICATION TSpec
CONSTANT Part = "dense"
CONSTANT DKeys = {0, 1, 2}
CONSTANT DVals = {1, 2}
CONSTANT MaxLeaves = 6
CONSTANT MaxBatch = 3
CONSTANT PKs = {1}
CONSTANT Subs = {1}
CONSTANT SVals = {1}
INVARIANT DRootsExact
PROPERTY DAppendOnly
PROPERTY DOverwriteRejected
PROPERTY DFailedOpChangesNoRoot
PROPERTY NoPanic
POSTCONDITION TraceAccepted
CHECK_DEADLOCK FALSE
