SPECIFICATION TSpec
CONSTANT NC = 3
CONSTANT MaxRun = 3
INVARIANT ShutdownAtMostOnce
INVARIANT AwaitSound
INVARIANT BoundedProgress
PROPERTY Forward
PROPERTY StoppedNeverRuns
POSTCONDITION TraceAccepted
CHECK_DEADLOCK FALSE
