SPECIFICATION Spec
CONSTANTS
  Migs = {"Coins -> Coins", "ContractsState -> ContractsState", "ProcessedTransactions -> ProcessedTransactions", "Coins -> OwnedCoins"}
  Worlds <- MCWorlds
  GroupSizes = {0, 1, 2}
  Encodings = {"parquet", "json"}
  MaxCrashes = 2
  WithDrop = FALSE
  ClearOffEarly = FALSE
VIEW View
INVARIANT TypeOK
INVARIANT ImportedEqualsExportedCarried
INVARIANT FinalEqualsUninterrupted
INVARIANT EachGroupOnce
INVARIANT ProgressMatchesData
CHECK_DEADLOCK FALSE
