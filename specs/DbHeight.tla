---------------------------- MODULE DbHeight ----------------------------
(* C09 — fuel-core `Database<Description>` height tracking                                   *)
(*   crates/fuel-core/src/database.rs : commit_changes_with_height_update, RegularStage::height, *)
(*                                      Database::new (reopen), rollback_last_block            *)
(*   crates/fuel-core/src/database/metadata.rs : MetadataTable (persisted latest height)       *)
(* One action per public call (Commit also in the forms the storage backend rejects).  `cached`, `meta`, `pay`, `hist` transcribe what the code keeps; *)
(* `glast`/`gn`/`bad` are the ghosts the property talks about.                             *)
EXTENDS Integers, Sequences, TLC

CONSTANT MaxH                 \* heights 0..MaxH ; -1 encodes None
Heights == 0..MaxH

\* the five database kinds.  "relayer" is compiled WITHOUT the fuel-core `relayer` feature in the harness
\* build (CONVENTIONS §3 fixes the feature set), so its heights_lookup is `|_| Ok(vec![])`.
Kinds    == {"onchain", "offchain", "relayer", "gasprice", "compression"}
Backends == {"mem", "rocks"}   \* MemoryStore / HistoricalRocksDB(RewindFullRange) on a temp dir

\* A change set is abstracted to the list of heights its height-carrying table entries hold,
\* sorted, at most two entries.  Two equal heights are constructible only where the height is a
\* VALUE of the table (off-chain FuelBlockIdsToHeights); elsewhere the height is the key.
\* (the relayer database of this build has only the Metadata column: nothing can carry a height)
CarriedLists(k) ==
  IF k = "relayer" THEN {<<>>}
  ELSE {<<>>} \cup {<<h>> : h \in Heights}
              \cup {p \in Heights \X Heights : p[1] < p[2] \/ (p[1] = p[2] /\ k = "offchain")}

VARIABLES
  kind, backend,   \* "none" before New
  cached,          \* RegularStage::height (-1 = None)
  meta,            \* height stored in MetadataTable (-1 = no metadata)
  pay,             \* payload marker written by every commit (-1 absent, else 0/1): the data really applied
  hist,            \* rocks only: stack of reverse diffs [h, pm, pp] kept by the historical store
  glast,           \* ghost: height of the last successfully committed, not rolled back, block (-1 none)
  gn,              \* ghost: how many height-carrying blocks are committed and not rolled back
  bad,             \* ghost: "" or the rule an ACCEPTED commit broke
  act
vars == <<kind, backend, cached, meta, pay, hist, glast, gn, bad>>

Flip(p) == IF p = 1 THEN 0 ELSE 1

\* heights the database can see in the change set
Seen(k, S) == IF k = "relayer" THEN <<>> ELSE S

\* A commit may additionally be built so that the STORAGE BACKEND rejects the batch after the height checks
\* passed (ConflictingChanges: nothing is written):
\*   "meta": the change set itself writes the metadata entry, which collides with the metadata update that
\*           commit_changes_with_height_update appends as a second change set (Modifiable::commit_changes);
\*   "list": a ChangesList of two change sets writing the same key, through the commit path that takes a list
\*           (ImporterDatabase::commit_changes of the on-chain database).
\* Both need a height the database can see (otherwise no metadata update is appended / the harness would
\* store a bogus metadata entry), "list" needs the on-chain kind.
ConflictKinds(k, S) ==
  {"none"} \cup (IF Len(Seen(k, S)) >= 1
                 THEN {"meta"} \cup (IF k = "onchain" THEN {"list"} ELSE {})
                 ELSE {})

(* ---- transcription of commit_changes_with_height_update: the result -------------------------*)
\* the height checks come first; only then the batch goes to the backend, which finds the conflict
CommitRes(k, c, S, cf) ==
  LET E == Seen(k, S)
      backend_res == IF cf = "none" THEN "Ok" ELSE "Err:Conflict" IN
  IF Len(E) > 1 THEN "Err:MultipleHeightsInCommit"
  ELSE LET nh == IF Len(E) = 1 THEN E[1] ELSE -1 IN
       IF c = -1 THEN backend_res                             \* (None,None) and (None,Some)
       ELSE IF nh = -1 THEN "Err:NewHeightIsNotSet"           \* (Some,None)
       ELSE IF c + 1 # nh THEN "Err:HeightsAreNotLinked"      \* (Some,Some)
       ELSE backend_res
NewHeight(k, S) == IF Len(Seen(k, S)) = 1 THEN Seen(k, S)[1] ELSE -1

Init ==
  /\ kind = "none" /\ backend = "none"
  /\ cached = -1 /\ meta = -1 /\ pay = -1 /\ hist = <<>>
  /\ glast = -1 /\ gn = 0 /\ bad = ""
  /\ act = [name |-> "Init"]

(* ---- ghost rules = the property's own words ---------------------------------------------------*)
\* A commit that the database ACCEPTED must obey: at most one height; linked to the last one;
\* after the first height every commit carries a height.
GhostCommit(S, res) ==
  LET E == Seen(kind, S) IN
  IF res # "Ok" THEN UNCHANGED <<glast, gn, bad>>
  ELSE /\ bad' = IF bad # "" THEN bad
                 ELSE IF Len(E) > 1 /\ E[1] # E[2] THEN "two-heights"
                 ELSE IF Len(E) >= 1 /\ glast # -1 /\ E[1] # glast + 1 THEN "not-linked"
                 ELSE IF Len(E) = 0 /\ glast # -1 THEN "missing-height"
                 ELSE ""
       /\ glast' = IF Len(E) >= 1 THEN E[Len(E)] ELSE glast
       /\ gn' = IF Len(E) >= 1 THEN gn + 1 ELSE gn
\* a rolled back block is gone: the last committed block is the previous one, or none if it was the only one
GhostRollback(res) ==
  IF res = "Ok" THEN /\ glast' = IF gn <= 1 THEN -1 ELSE glast - 1
                     /\ gn' = IF gn = 0 THEN 0 ELSE gn - 1
                     /\ bad' = bad
  ELSE UNCHANGED <<glast, gn, bad>>

\* the diffs the historical store keeps (rocks only); shared with the trace spec's observe mode
HistCommit(S, res) ==
  LET nh == NewHeight(kind, S) IN
  hist' = IF res = "Ok" /\ nh # -1 /\ backend = "rocks"
          THEN Append(hist, [h |-> nh, pm |-> meta, pp |-> pay]) ELSE hist
HistRollback(res) ==
  hist' = IF res = "Ok" THEN SubSeq(hist, 1, Len(hist) - 1) ELSE hist

(* ---- actions ------------------------------------------------------------------------------------*)
New(k, b) ==
  /\ kind = "none"
  /\ kind' = k /\ backend' = b
  /\ UNCHANGED <<cached, meta, pay, hist, glast, gn, bad>>
  /\ act' = [name |-> "New", kind |-> k, backend |-> b]

Commit(S, cf) ==
  /\ kind # "none"
  /\ cf \in ConflictKinds(kind, S)
  /\ LET res == CommitRes(kind, cached, S, cf)
         nh  == NewHeight(kind, S) IN
     /\ IF res = "Ok"
        THEN /\ pay' = Flip(pay)
             /\ IF nh # -1
                THEN cached' = nh /\ meta' = nh
                ELSE UNCHANGED <<cached, meta>>
        ELSE UNCHANGED <<cached, meta, pay>>
     /\ HistCommit(S, res)
     /\ GhostCommit(S, res)
     /\ act' = [name |-> "Commit", S |-> S, cf |-> cf, res |-> res]
  /\ UNCHANGED <<kind, backend>>

\* drop the Database object and build a new one over the same storage (Database::new /
\* Database::open_rocksdb): the cached height is reloaded from the metadata table.
Reopen ==
  /\ kind # "none"
  /\ cached' = meta
  /\ UNCHANGED <<kind, backend, meta, pay, hist, glast, gn, bad>>
  /\ act' = [name |-> "Reopen"]

\* Database::rollback_last_block.  The design spec (MC, B1, B3) rolls back only where a previous block
\* remains (at least two diffs kept).  Rolling back the ONLY block is recorded as known finding C09-1: the code
\* sets the cached height to h-1 (pred) although no block is left and the metadata table is empty again, so
\* the reported height is wrong until the next reopen; it is exercised by a dedicated walk in checks/C09.py
\* and judged by ReportedExact in observe mode.
RollbackRes ==
  IF cached = -1 THEN "Err:NoHeight"
  ELSE IF backend = "mem" THEN "Err:NotImplemented"
  ELSE IF hist # <<>> /\ hist[Len(hist)].h = cached THEN "Ok" ELSE "Err:NotFound"
Rollback ==
  /\ kind # "none"
  /\ backend = "rocks" => Len(hist) # 1
  /\ LET res == RollbackRes IN
     /\ IF res = "Ok"
        THEN LET top == hist[Len(hist)] IN
             /\ cached' = IF cached = 0 THEN -1 ELSE cached - 1
             /\ meta' = top.pm /\ pay' = top.pp
        ELSE UNCHANGED <<cached, meta, pay>>
     /\ HistRollback(res)
     /\ GhostRollback(res)
     /\ act' = [name |-> "Rollback", res |-> res]
  /\ UNCHANGED <<kind, backend>>

Next ==
  \/ \E k \in Kinds, b \in Backends : New(k, b)
  \/ \E S \in CarriedLists(kind) : \E cf \in ConflictKinds(kind, S) : Commit(S, cf)
  \/ Reopen
  \/ Rollback

Spec == Init /\ [][Next]_<<vars, act>>

(* ---- the property --------------------------------------------------------------------------------*)
\* reported latest height (HistoricalView::latest_height = cached) is the last committed block's height,
\* in every state - in particular right after a Reopen
ReportedExact == kind # "none" => cached = glast
\* no accepted commit broke a linking rule
CommitsLinked == bad = ""
\* a rejected commit changes nothing (neither heights nor data) - whether the height checks or the
\* storage backend rejected it
RejectedChangesNothing ==
  [][(act'.name = "Commit" /\ act'.res # "Ok") => (cached' = cached /\ meta' = meta /\ pay' = pay)]_<<vars, act>>

TypeOK ==
  /\ cached \in -1..MaxH /\ meta \in -1..MaxH /\ pay \in {-1, 0, 1}
  /\ glast \in -1..MaxH /\ gn \in 0..(MaxH + 1)

StateRec == [kind |-> kind, backend |-> backend, cached |-> cached, meta |-> meta, pay |-> pay,
             hist |-> hist, glast |-> glast, gn |-> gn, bad |-> bad]
=============================================================================
