---------------------------- MODULE Sim_Genesis ----------------------------
(* Simulation instance of Crash_Genesis: `tlc -simulate` behaviours with several interruptions in a   *)
(* row.  The history keeps only what the harness can control: which snapshot is exported and which    *)
(* interruptions happen and where each run ends (vlib.sim_walks); the rest is the deterministic import.  *)
EXTENDS Crash_Genesis
VARIABLE hist
SimRec ==
  CASE act'.name = "Export" -> [name |-> "Export", w |-> act'.w]
    [] act'.name = "Fail" -> [name |-> "Crash", kind |-> "fail", m |-> act'.m, i |-> act'.i, pt |-> act'.pt]
    [] act'.name = "Cancel" -> [name |-> "Crash", kind |-> "cancel", m |-> CancelPoint.m, i |-> CancelPoint.i,
                                pt |-> CancelPoint.pt]
    [] act'.name = "DropResult" -> [name |-> "Crash", kind |-> "drop", m |-> "", i |-> -1, pt |-> "result"]
    [] act'.name = "End" -> [name |-> "End", res |-> act'.res]
    [] OTHER -> [name |-> "none"]
SimInit == CInit /\ hist = <<>>
SimNext == CNext /\ hist' = IF SimRec.name = "none" THEN hist ELSE Append(hist, SimRec)
SimSpec == SimInit /\ [][SimNext]_<<cvars, act, hist>>
EmitWalk == PrintT(<<"WALK", ToJson(hist)>>)
=============================================================================
