SPECIFICATION TSpec
CONSTANT Configs = {}
CONSTANT MaxHeight = 0
CONSTANT Useds = {}
CONSTANT Caps = {}
CONSTANT Bytess = {}
CONSTANT Fees = {}
CONSTANT RecBytess = {}
CONSTANT Costs = {}
INVARIANT ExecAboveMin
INVARIANT DaWithinBounds
PROPERTY BoundedChange
PROPERTY DaUpdateKeepsExec
PROPERTY SkippedRejected
PROPERTY HeightConsecutive
POSTCONDITION TraceAccepted
CHECK_DEADLOCK FALSE
