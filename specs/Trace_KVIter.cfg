SPECIFICATION TSpec
CONSTANT Bytes = {0, 1, 255}
CONSTANT MaxLen = 2
CONSTANT Cols = {"a", "b"}
CONSTANT Vals = {1, 2}
CONSTANT Backends = {"mem", "rocks", "hist-none", "hist-full", "hist-r1", "hist-r2"}
CONSTANT MaxOps = 0
CONSTANT MaxList = 0
INVARIANT ContentsAgree
INVARIANT PointsAgree
INVARIANT QueryExact
POSTCONDITION TraceAccepted
CHECK_DEADLOCK FALSE
