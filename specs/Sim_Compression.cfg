SPECIFICATION SimSpec
CONSTANT KS = {"address", "asset_id", "contract_id", "script_code", "predicate_code"}
CONSTANT NKeys = 16777215
CONSTANT NV = 3
CONSTANT SimDepth = 13
CONSTANT Values = {1, 2, 3}
CONSTANT Default = 0
CONSTANT MaxT = 1000
CONSTANT Retention = 2
CONSTANT MaxLen = 2
CONSTANT Back = 0
CONSTANT MaxLag = 2
CONSTANT JumpKeys = {16777213, 16777214, 0, 1}
INVARIANT EmitWalk
INVARIANT RoundTrip
INVARIANT EveryRefResolvesToOriginal
INVARIANT RegistriesAgree
INVARIANT CompressTotal
CHECK_DEADLOCK FALSE
