---------------------------- MODULE SyncState ----------------------------
(* C28 — fuel-core-sync `State` (crates/services/sync/src/state.rs).          *)
(* One action per public method.  `status` is transcribed from the code;     *)
(* `gc`/`go` are the reference model the property talks about: the highest   *)
(* committed height and the highest observed height not erased by a failure. *)
EXTENDS Integers, TLC

CONSTANT MaxH            \* heights are 0..MaxH ; -1 encodes "None"
Heights == 0..MaxH
OptH    == -1..MaxH

VARIABLES status,        \* [k |-> "N"|"U"|"P"|"C", lo, hi]   N = object not created yet
          gc, go,        \* ghosts: committed / effective observed (-1 = none)
          act            \* label of the last action (kept out of VIEW)

vars == <<status, gc, go>>

St(k, lo, hi) == [k |-> k, lo |-> lo, hi |-> hi]
Unborn == St("N", 0, 0)
Uninit == St("U", 0, 0)
Proc(lo, hi) == St("P", lo, hi)
Comm(h) == St("C", h, h)

In(x, lo, hi) == lo <= x /\ x <= hi
Max(a, b) == IF a >= b THEN a ELSE b

(* ---- transcription of State::new ---------------------------------------*)
NewStatus(c, o) ==
  IF c >= 0 /\ o >= 0 THEN (IF c + 1 <= o THEN Proc(c + 1, o) ELSE Comm(c))
  ELSE IF c >= 0 THEN Comm(c)
  ELSE IF o >= 0 THEN Proc(0, o)
  ELSE Uninit

(* ---- transcription of State::commit ------------------------------------*)
CommitStatus(s, h) ==
  CASE s.k = "P" ->
         IF h < s.lo THEN s
         ELSE IF h < s.hi THEN Proc(h + 1, s.hi) ELSE Comm(h)
    [] s.k = "U" -> Comm(h)
    [] s.k = "C" -> IF h > s.lo THEN Comm(h) ELSE s

(* ---- transcription of State::observe (second component: returned bool) --*)
ObserveStatus(s, h) ==
  CASE s.k = "U" -> <<Proc(0, h), TRUE>>
    [] s.k = "P" -> IF s.hi < h THEN <<Proc(s.lo, h), TRUE>> ELSE <<s, FALSE>>
    [] s.k = "C" -> IF s.lo + 1 <= h THEN <<Proc(s.lo + 1, h), TRUE>> ELSE <<s, FALSE>>

(* ---- transcription of State::failed_to_process -------------------------*)
Revert(s) == IF s.lo - 1 >= 0 THEN Comm(s.lo - 1) ELSE Uninit
FailStatus(s, lo, hi) ==
  IF lo > hi \/ s.k # "P" THEN s
  ELSE IF In(s.lo, lo, hi) THEN Revert(s)
  ELSE IF In(s.hi, lo, hi) \/ In(lo, s.lo, s.hi)
       THEN (IF lo - 1 >= 0 THEN Proc(s.lo, lo - 1) ELSE Uninit)
  ELSE IF In(hi, s.lo, s.hi) THEN Revert(s)
  ELSE s

(* ---- reference model: status as a function of the two ghosts -----------*)
Ref(c, o) == NewStatus(c, o)

Init == status = Unborn /\ gc = -1 /\ go = -1 /\ act = [name |-> "Init"]

\* ghost updates, shared with the trace spec's observe mode
GhostNew(c, o) == gc' = c /\ go' = o
GhostCommit(h) == gc' = Max(gc, h) /\ go' = go
GhostObserve(h) == go' = Max(go, h) /\ gc' = gc
\* A failure of lo..hi erases every observation at or above lo when it overlaps what is
\* still to be processed (gc+1 .. go).
GhostFail(lo, hi) ==
  /\ gc' = gc
  /\ go' = IF lo <= hi /\ go > gc /\ lo <= go /\ hi >= gc + 1
           THEN (IF lo <= gc + 1 THEN -1 ELSE lo - 1)
           ELSE go

New(c, o) ==
  /\ status.k = "N"
  /\ status' = NewStatus(c, o)
  /\ GhostNew(c, o)
  /\ act' = [name |-> "New", c |-> c, o |-> o]

Commit(h) ==
  /\ status.k # "N"
  /\ status' = CommitStatus(status, h)
  /\ GhostCommit(h)
  /\ act' = [name |-> "Commit", h |-> h]

Observe(h) ==
  /\ status.k # "N"
  /\ status' = ObserveStatus(status, h)[1]
  /\ GhostObserve(h)
  /\ act' = [name |-> "Observe", h |-> h, res |-> ObserveStatus(status, h)[2]]

Fail(lo, hi) ==
  /\ status.k # "N"
  /\ status' = FailStatus(status, lo, hi)
  /\ GhostFail(lo, hi)
  /\ act' = [name |-> "Fail", lo |-> lo, hi |-> hi]

Next ==
  \/ \E c, o \in OptH : New(c, o)
  \/ \E h \in Heights : Commit(h) \/ Observe(h)
  \/ \E lo, hi \in Heights : Fail(lo, hi)

Spec == Init /\ [][Next]_<<vars, act>>

(* ---- the property --------------------------------------------------------*)
\* status is uninitialized, committed at the highest committed height with nothing to do,
\* or processing gc+1 (or 0) .. highest effective observation.
Trichotomy == status.k # "N" => status = Ref(gc, go)
Shape ==
  /\ status.k \in {"N", "U", "P", "C"}
  /\ status.k = "P" => status.lo <= status.hi /\ status.lo = gc + 1
  /\ status.k = "C" => status.lo = gc
  /\ status.k = "U" => gc = -1
\* committed height visible through the status never decreases
CommittedOf(s) == CASE s.k = "C" -> s.lo [] s.k = "P" -> s.lo - 1 [] OTHER -> -1
CommittedMonotone == [][status.k # "N" /\ status'.k # "N" => CommittedOf(status') >= CommittedOf(status)]_vars

StateRec == [status |-> status, gc |-> gc, go |-> go]
=============================================================================
