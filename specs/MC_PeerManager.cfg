SPECIFICATION Spec
CONSTANTS
  Reserved = {"r1", "r2"}
  Others = {"o1", "o2", "o3", "o4"}
  Limits = {0, 1, 2, 3}
  Deltas <- DeltasDefault
  Scored = {"o1", "r1"}
  MaxDecay = 1
VIEW View
INVARIANT NonReservedWithinLimit
INVARIANT AdmittedIffSlotFree
INVARIANT ReservedAlwaysAdmittedNeverBanned
INVARIANT ScoreWithinMax
PROPERTY ConnectAdmission
CHECK_DEADLOCK FALSE
