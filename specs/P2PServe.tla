---------------------------- MODULE P2PServe ----------------------------
(* C32 — fuel-core-p2p serving inbound requests                                               *)
(* (crates/services/p2p/src/service.rs, cached_view.rs, codecs/request_response.rs,           *)
(*  codecs/postcard.rs).                                                                      *)
(* One action per inbound request as it travels through the real code:                        *)
(*   request --codec--> Task::run / process_request                                           *)
(*     Request(kind, lo, hi)  handle_sealed_headers_request / handle_transactions_request     *)
(*                            -> handle_db_request (range check) -> CachedView::               *)
(*                            get_from_cache_or_db (cached prefix ++ database for the rest)    *)
(*     AllIds                 handle_all_transactions_ids_request                              *)
(*     FullTxs(n)             handle_full_transactions_request (id-count check)                *)
(*   response --codec (protocol V1 or V2)--> peer                                              *)
(* Database: an append-only chain; the content stored at height h is written `h`.  A cache     *)
(* entry is a pair <<key, content>>.  quick_cache may drop (or refuse) any entry whenever      *)
(* something is inserted: `Request` takes the set E of keys lost that way, `Evict` is the same *)
(* loss as a separate step (so that the model checker reaches every cache content).            *)
(* What was sent / decoded is carried by `act` (not part of the state): the property is a      *)
(* set of action properties over each step and the database *before* the step.                 *)
EXTENDS Integers, Sequences, FiniteSets, TLC

CONSTANTS MaxH,          \* heights 0..MaxH
          HdrLimits,     \* candidate max_headers_per_request
          TxLimits,      \* candidate max_txs_per_request
          PoolN,         \* the transaction pool knows ids 0..PoolN-1
          MaxIds         \* FullTxs asks for ids 0..n-1, n <= MaxIds

Heights == 0..MaxH
Bounds  == 0..(MaxH + 1)          \* range bounds (beyond the tip, and reversed, included)

VARIABLES maxHdr, maxTx, \* the task's limits; -1 = task not built yet
          tip,           \* database holds heights 0..tip (-1 = empty)
          cacheH, cacheT,\* CachedView.sealed_block_headers / transactions_on_blocks: sets of <<key, content>>
          act

vars == <<maxHdr, maxTx, tip, cacheH, cacheT>>

\* a response message: v = variant ("H" SealedHeaders, "T" Transactions, "I" TxPoolAllTransactionsIds,
\* "F" TxPoolFullTransactions), k = "ok" | "err", items = content ids, code = error code
Ok(v, items) == [v |-> v, k |-> "ok", items |-> items, code |-> ""]
Err(v, code) == [v |-> v, k |-> "err", items |-> <<>>, code |-> code]
Lost         == [v |-> "-", k |-> "lost", items |-> <<>>, code |-> ""]   \* undecodable on the other side
NoQuery   == <<>>

RangeLen(lo, hi) == IF hi > lo THEN hi - lo ELSE 0
Ids(lo, hi) == [i \in 1..RangeLen(lo, hi) |-> lo + i - 1]     \* the database's answer for lo..hi
DbHas(lo, hi) == \A h \in lo..(hi - 1) : h <= tip             \* every height of the range is stored
Keys(c) == {e[1] : e \in c}
Lookup(c, key) == (CHOOSE e \in c : e[1] = key)[2]

(* ---- CachedView::get_from_cache_or_db -----------------------------------------------------*)
\* number of consecutive heights from lo that are cached
RECURSIVE Prefix(_, _, _)
Prefix(c, lo, hi) == IF lo < hi /\ lo \in Keys(c) THEN 1 + Prefix(c, lo + 1, hi) ELSE 0

\* <<answer (Ok / "none"), database query, cache before eviction>>
Lookups(v, c, lo, hi) ==
  LET n  == Prefix(c, lo, hi)
      ms == lo + n                                            \* missing_start
      hit == [i \in 1..n |-> Lookup(c, lo + i - 1)]
  IN IF n = RangeLen(lo, hi) THEN <<Ok(v, hit), NoQuery, c>>
     ELSE IF DbHas(ms, hi)
          THEN <<Ok(v, hit \o Ids(ms, hi)), <<ms, hi>>,
                 {e \in c : e[1] \notin ms..(hi - 1)} \cup {<<h, h>> : h \in ms..(hi - 1)}>>
          ELSE <<[k |-> "none"], <<ms, hi>>, c>>

(* ---- Task::handle_db_request -----------------------------------------------------------------*)
\* <<response, database query, cache before eviction>>; both kinds are limited by max_headers_per_request
Serve(v, c, lo, hi) ==
  IF RangeLen(lo, hi) > maxHdr THEN <<Err(v, "TooLarge"), NoQuery, c>>
  ELSE LET r == Lookups(v, c, lo, hi) IN
       IF r[1].k = "ok" THEN r ELSE <<Err(v, "Timeout"), r[2], r[3]>>

(* ---- codec: V2 keeps the message; V1 (legacy) carries Option, so an error arrives as the ----*)
(* ---- "empty response" code; beyond the size limit the reader cannot decode               ----*)
Conv(m, proto) == IF proto = 1 /\ m.k = "err" THEN Err(m.v, "Empty") ELSE m
Decoded(m, proto, fits) == IF fits THEN Conv(m, proto) ELSE Lost

Init == /\ maxHdr = -1 /\ maxTx = -1 /\ tip = -1 /\ cacheH = {} /\ cacheT = {}
        /\ act = [name |-> "Init"]

New(mh, mt) ==
  /\ maxHdr = -1
  /\ maxHdr' = mh /\ maxTx' = mt
  /\ UNCHANGED <<tip, cacheH, cacheT>>
  /\ act' = [name |-> "New", mh |-> mh, mt |-> mt]

\* the importer commits the next block
Extend ==
  /\ maxHdr >= 0 /\ tip < MaxH
  /\ tip' = tip + 1
  /\ UNCHANGED <<maxHdr, maxTx, cacheH, cacheT>>
  /\ act' = [name |-> "Extend"]

\* kind "H" = SealedHeaders(lo..hi), "T" = Transactions(lo..hi); E = keys lost to eviction
Request(kind, lo, hi, proto, fits, E) ==
  /\ maxHdr >= 0
  /\ LET c == IF kind = "H" THEN cacheH ELSE cacheT
         s == Serve(kind, c, lo, hi)
         c2 == {e \in s[3] : e[1] \notin E}
     IN /\ E # {} => s[3] # c                 \* eviction only happens while inserting
        /\ IF kind = "H" THEN cacheH' = c2 /\ UNCHANGED cacheT
                         ELSE cacheT' = c2 /\ UNCHANGED cacheH
        /\ act' = [name |-> "Request", kind |-> kind, lo |-> lo, hi |-> hi, proto |-> proto, fits |-> fits,
                   dreq |-> <<kind, lo, hi>>,       \* the request as decoded by the task's side of the codec
                   dbq |-> s[2], sent |-> s[1], recv |-> Decoded(s[1], proto, fits)]
  /\ UNCHANGED <<maxHdr, maxTx, tip>>

Evict(kind, key) ==
  /\ maxHdr >= 0
  /\ IF kind = "H" THEN key \in Keys(cacheH) /\ cacheH' = {e \in cacheH : e[1] # key} /\ UNCHANGED cacheT
                   ELSE key \in Keys(cacheT) /\ cacheT' = {e \in cacheT : e[1] # key} /\ UNCHANGED cacheH
  /\ UNCHANGED <<maxHdr, maxTx, tip>>
  /\ act' = [name |-> "Evict", kind |-> kind, key |-> key]

Min(a, b) == IF a <= b THEN a ELSE b
\* TxPoolAllTransactionsIds: the pool is asked for at most max_txs_per_request ids
AllIdsSent == Ok("I", [i \in 1..Min(maxTx, PoolN) |-> i - 1])
AllIds(proto, fits) ==
  /\ maxHdr >= 0
  /\ UNCHANGED vars
  /\ act' = [name |-> "AllIds", proto |-> proto, fits |-> fits,
             sent |-> AllIdsSent, recv |-> Decoded(AllIdsSent, proto, fits)]

\* TxPoolFullTransactions(ids 0..n-1): refused when n > max_txs_per_request, otherwise one entry
\* per id: the id when the pool has it, -1 (None) when it does not
FullTxsSent(n) == IF n > maxTx THEN Err("F", "TooLarge")
                  ELSE Ok("F", [i \in 1..n |-> IF i - 1 < PoolN THEN i - 1 ELSE -1])
FullTxs(n, proto, fits) ==
  /\ maxHdr >= 0
  /\ UNCHANGED vars
  /\ act' = [name |-> "FullTxs", n |-> n, dn |-> n, proto |-> proto, fits |-> fits,
             sent |-> FullTxsSent(n), recv |-> Decoded(FullTxsSent(n), proto, fits)]

\* a request larger than the codec's size limit never reaches the task
ReqLost ==
  /\ maxHdr >= 0
  /\ UNCHANGED vars
  /\ act' = [name |-> "ReqLost", rfits |-> FALSE]

Next ==
  \/ \E mh \in HdrLimits, mt \in TxLimits : New(mh, mt)
  \/ Extend
  \/ \E kind \in {"H", "T"}, lo, hi \in Bounds, pf \in {<<1, TRUE>>, <<2, TRUE>>, <<2, FALSE>>} :
        Request(kind, lo, hi, pf[1], pf[2], {})
  \/ \E kind \in {"H", "T"}, key \in Heights : Evict(kind, key)
  \/ \E proto \in {1, 2}, fits \in BOOLEAN : AllIds(proto, fits)
  \/ \E n \in 0..MaxIds, proto \in {1, 2}, fits \in BOOLEAN : FullTxs(n, proto, fits)
  \/ ReqLost

Spec == Init /\ [][Next]_<<vars, act>>

(* ---- the property ---------------------------------------------------------------------------*)
\* Within the limit, what is served for lo..hi is exactly what the database (before the step)
\* returns for lo..hi: all of it when every height is stored, a refusal otherwise — whatever
\* the caches held.
ServedEqualsDatabaseOk ==
  (act'.name = "Request" /\ RangeLen(act'.lo, act'.hi) <= maxHdr) =>
     IF DbHas(act'.lo, act'.hi) THEN act'.sent = Ok(act'.kind, Ids(act'.lo, act'.hi))
                                ELSE act'.sent.k = "err"
\* Requests for more heights / transactions than allowed are refused.
OverLimitRefusedOk ==
  /\ (act'.name = "Request" /\ RangeLen(act'.lo, act'.hi) > maxHdr) => act'.sent.k = "err"
  /\ (act'.name = "FullTxs" /\ act'.n > maxTx) => act'.sent.k = "err"
\* Within the size limit the peer decodes what was sent (V1 cannot carry the error code).
CodecFaithfulOk ==
  /\ (act'.name \in {"Request", "AllIds", "FullTxs"} /\ act'.fits) => act'.recv = Conv(act'.sent, act'.proto)
  /\ act'.name = "Request" => act'.dreq = <<act'.kind, act'.lo, act'.hi>>
  /\ act'.name = "FullTxs" => act'.dn = act'.n
  /\ act'.name = "ReqLost" => ~act'.rfits        \* a request is lost only beyond the size limit

ServedEqualsDatabase == [][ServedEqualsDatabaseOk]_<<vars, act>>
OverLimitRefused     == [][OverLimitRefusedOk]_<<vars, act>>
CodecFaithful        == [][CodecFaithfulOk]_<<vars, act>>

\* lemma (model only): a cache entry holds the database's content for its key
CacheSubsetChain == \A e \in cacheH \cup cacheT : e[1] = e[2] /\ e[1] <= tip

StateRec == [maxHdr |-> maxHdr, maxTx |-> maxTx, tip |-> tip, cacheH |-> cacheH, cacheT |-> cacheT]
=============================================================================
