SPECIFICATION Spec
CONSTANT NW = 3
CONSTANT NRd = 2
CONSTANT NReads = 2
CONSTANT FineRead = TRUE
VIEW View
INVARIANT NoTornRead
INVARIANT NotOlderThanCompletedWrite
CHECK_DEADLOCK FALSE
