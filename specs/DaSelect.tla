---------------------------- MODULE DaSelect ----------------------------
(* C30 — the producer advances the DA height to the largest fitting prefix.                    *)
(* Transcribes Producer::select_new_da_height (crates/services/producer/src/block_producer.rs) *)
(* as a small-step machine: one action per call of the relayer port.                            *)
(*   Call    wait_for_at_least_height(prev) returned `fin`; early exits are decided here        *)
(*   Step    get_cost_and_transactions_number_for_block(h) inside the for loop                  *)
(*   Finish  the value / error select_new_da_height returns (= the produced header's da_height) *)
EXTENDS Integers, Sequences, TLC

CONSTANTS Prevs,          \* previous block's DA heights
          MaxN,           \* at most MaxN DA blocks ahead
          Costs, Txs,     \* per-DA-block gas cost / transaction count values
          GasLimits,      \* block gas limits
          TxLimits        \* transaction-count limits (the code's constant u16::MAX - 1, scaled)

VARIABLES pc,             \* "idle" | "loop" | "done"
          par,            \* [prev, fin, gl, tl, prof]   prof[i] = <<cost, txs>> of DA block prev + i
          h, best, totc, tott, broke,     \* loop cursor and accumulators
          result,         \* [res, da]
          act
vars == <<pc, par, h, best, totc, tott, broke, result>>

NoPar == [prev |-> 0, fin |-> 0, gl |-> 0, tl |-> 0, prof |-> << >>]
NoRes == [res |-> "none", da |-> -1]

\* the relayer's answer for DA block g (blocks it does not know cost nothing, as MockRelayer / an empty block)
CostOf(p, g) == IF g - p.prev \in 1..Len(p.prof) THEN p.prof[g - p.prev][1] ELSE 0
TxOf(p, g)   == IF g - p.prev \in 1..Len(p.prof) THEN p.prof[g - p.prev][2] ELSE 0

Init == /\ pc = "idle" /\ par = NoPar /\ h = 0 /\ best = 0 /\ totc = 0 /\ tott = 0 /\ broke = FALSE
        /\ result = NoRes /\ act = [name |-> "Init"]

Call(prev, fin, gl, tl, prof) ==
  /\ pc \in {"idle", "done"}
  /\ pc' = "loop"
  /\ par' = [prev |-> prev, fin |-> fin, gl |-> gl, tl |-> tl, prof |-> prof]
  /\ h' = prev + 1 /\ best' = prev /\ totc' = 0 /\ tott' = 0 /\ broke' = FALSE
  /\ result' = NoRes
  /\ act' = [name |-> "Call", prev |-> prev, fin |-> fin, gl |-> gl, tl |-> tl, prof |-> prof]

\* for height in next_da_height..=highest { ... }  (not entered when highest <= previous_da_height)
InLoop == pc = "loop" /\ par.fin > par.prev /\ ~broke /\ h <= par.fin

Step ==
  /\ InLoop
  /\ LET c == totc + CostOf(par, h)
         t == tott + TxOf(par, h) IN
       /\ totc' = c /\ tott' = t
       /\ IF c > par.gl \/ t > par.tl
            THEN broke' = TRUE /\ best' = best /\ h' = h
            ELSE broke' = FALSE /\ best' = h /\ h' = h + 1
  /\ UNCHANGED <<pc, par, result>>
  /\ act' = [name |-> "Step", h |-> h, c |-> CostOf(par, h), t |-> TxOf(par, h)]

Outcome ==
  IF par.fin < par.prev THEN [res |-> "Err:Behind", da |-> -1]
  ELSE IF par.fin = par.prev THEN [res |-> "Ok", da |-> par.fin]
  ELSE IF best = par.prev THEN [res |-> "Err:NoNew", da |-> -1]
  ELSE [res |-> "Ok", da |-> best]

Finish ==
  /\ pc = "loop" /\ ~InLoop
  /\ pc' = "done"
  /\ result' = Outcome
  /\ UNCHANGED <<par, h, best, totc, tott, broke>>
  /\ act' = [name |-> "Finish", res |-> Outcome.res, da |-> Outcome.da]

Profiles(n) == [1..n -> Costs \X Txs]

Next ==
  \/ /\ pc = "idle"     \* (a trace may continue with the next Call from "done"; same successor states)
     /\ \E prev \in Prevs, gl \in GasLimits, tl \in TxLimits :
       \/ \E fin \in 0..(prev - 1) : Call(prev, fin, gl, tl, << >>)
       \/ \E n \in 0..MaxN : \E prof \in Profiles(n) : Call(prev, prev + n, gl, tl, prof)
  \/ Step
  \/ Finish

Spec == Init /\ [][Next]_<<vars, act>>

(* ---- the property ---------------------------------------------------------------------*)
RECURSIVE SumC(_, _, _), SumT(_, _, _)
SumC(p, a, b) == IF a > b THEN 0 ELSE CostOf(p, a) + SumC(p, a + 1, b)
SumT(p, a, b) == IF a > b THEN 0 ELSE TxOf(p, a) + SumT(p, a + 1, b)
\* all DA blocks in (prev, g] together stay within both limits
Fits(p, g) == SumC(p, p.prev + 1, g) <= p.gl /\ SumT(p, p.prev + 1, g) <= p.tl
Largest(p) == CHOOSE g \in p.prev..p.fin : Fits(p, g) /\ \A k \in p.prev..p.fin : Fits(p, k) => k <= g

LargestFittingPrefix ==
  pc = "done" =>
    IF par.fin < par.prev THEN result.res # "Ok"                         \* finalized behind the parent: fails
    ELSE IF par.fin > par.prev /\ Largest(par) = par.prev THEN result.res # "Ok"   \* first block does not fit: fails
    ELSE result.res = "Ok" /\ result.da = Largest(par)
WithinRange ==
  pc = "done" /\ result.res = "Ok" => par.prev <= result.da /\ result.da <= par.fin
=============================================================================
