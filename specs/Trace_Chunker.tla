---------------------------- MODULE Trace_Chunker ----------------------------
(* Every logged call of the real Cache::get_chunks is compared with `Chunks` (strict) and *)
(* judged by `PartitionInv` on the logged result (observe).                               *)
EXTENDS Chunker, Json, IOUtils

Rec == ndJsonDeserialize(IOEnv.TRACE)
Strict == IOEnv.STRICT = "1"

VARIABLE l
tvars == <<vars, act, l>>

IsEv(e) == l <= Len(Rec) /\ Rec[l].ev = e /\ l' = l + 1
TInit == Init /\ l = 1
TReset == IsEv("reset") /\ case' = NoCase /\ result' = <<>> /\ act' = [name |-> "reset"]

CacheFn(r) == [h \in Heights |-> r.cache[h + 1]]
TCall == /\ IsEv("Call")
         /\ LET r == Rec[l] IN
              /\ case' = [lo |-> r.lo, hi |-> r.hi, size |-> r.size, cache |-> CacheFn(r)]
              /\ result' = r.res
              /\ Strict => r.res = Chunks(r.lo, r.hi, r.size, CacheFn(r))
              /\ act' = [name |-> "Call"]

TNext == TReset \/ TCall
TSpec == TInit /\ [][TNext]_tvars

TraceAccepted ==
  LET d == TLCGet("stats").diameter IN
  IF d - 1 = Len(Rec) THEN PrintT(<<"TRACE-ACCEPTED", Len(Rec)>>)
  ELSE PrintT(<<"TRACE-REJECTED", d>>) /\ PrintT(Rec[d])
=============================================================================
