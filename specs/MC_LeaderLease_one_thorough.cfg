SPECIFICATION SpecCoarse
CONSTANTS
  Replica = {A}
  Node = {n1, n2, n3}
  NoReplica = NoReplica
  MaxHeight = 2
  MaxEpoch = 2
  MaxMade = 2
  MaxLate = 1
  MaxInc = 0
  Budget = 0
  LateKinds = {"write"}
  EarlyStop = FALSE
  MaxDepth = 22
VIEW View
SYMMETRY Sym
CONSTRAINT Bounded
CONSTRAINT DepthBound
INVARIANT NoFork
INVARIANT AtMostOneQuorumBlockPerHeight
INVARIANT OneOwnerPerNode
PROPERTY EpochMonotone
CHECK_DEADLOCK FALSE
